/-
A Python `dict` as the list of its (key, value) pairs in INSERTION order — what `items()`, `values()`, a dict
comprehension and `np.fromiter(d.values())` see.  Used by the C03 translator (harness/c03_tx.py) for
`sample_counts` (proposal number ↦ number of samples) and the proposal's `_weights`.
-/
namespace NessaiVerif.PyDict

variable {κ V : Type} [DecidableEq κ]

/-- `k in d` -/
def has (d : List (κ × V)) (k : κ) : Bool := d.any (fun kv => kv.1 == k)

/-- `d[k]` where the caller has checked `k in d` (`dflt` is never returned then) -/
def getD (d : List (κ × V)) (k : κ) (dflt : V) : V :=
  match d.find? (fun kv => kv.1 == k) with
  | some kv => kv.2
  | none => dflt

/-- `d[k] = v`: an existing key keeps its position, a new key goes last -/
def set : List (κ × V) → κ → V → List (κ × V)
  | [], k, v => [(k, v)]
  | (k', v') :: d, k, v => if k' = k then (k', v) :: d else (k', v') :: set d k v

/-- `d.update(e)` -/
def update (d e : List (κ × V)) : List (κ × V) := e.foldl (fun acc kv => set acc kv.1 kv.2) d

/-- `d.values()` -/
def values (d : List (κ × V)) : List V := d.map (·.2)

/-- the dictionary with the consecutive integer keys `start, start+1, …` in insertion order
    (`{it - 1: c for it, c in enumerate(counts)}` is `ofList (-1) counts`) -/
def ofList (start : Int) : List V → List (Int × V)
  | [] => []
  | v :: vs => (start, v) :: ofList (start + 1) vs

end NessaiVerif.PyDict
