/-
C03 — bookkeeping of the importance nested sampler's meta-proposal, in the LINEAR domain
(densities, not log-densities), generic over the number type: executed at `Rat` by the
driver, theorems for every field of characteristic zero.

Mirrors, in the code's order:
  `ImportanceNestedSampler.add_new_proposal_weight`, `ImportanceFlowProposal.update_proposal_weights`,
  `ImportanceFlowProposal.draw` (the part that attaches logQ/logW to new samples),
  `update_log_q` + `compute_meta_proposal_from_log_q` + the logW update in `add_and_update_points`,
  `OrderedSamples.add_samples` (as a plain append here: ordering is C04's subject).
The per-proposal densities `q_k(x)` are inputs.
-/
namespace NessaiVerif.Meta

inductive Err | runtimeErr | valueErr | shapeErr
deriving DecidableEq, Repr

/-- one stored sample: density row `q_{-1}(x), q_0(x), …`, meta-proposal `Q`, weight `W`, hypercube prior `U` -/
structure MS (K : Type) where
  id : Nat
  it : Int
  U : K
  row : List K
  Q : K
  W : K
deriving Repr

structure St (K : Type) where
  counts : List Nat := []      -- index k+1 ↔ proposal k (proposal −1 = the initial prior draw)
  weights : List K := []
  train : List (MS K) := []
  iid : List (MS K) := []
  useIid : Bool := false
deriving Repr

variable {K : Type}

section defs
variable [Add K] [Mul K] [Div K] [OfNat K 0] [NatCast K]

/-- `exp(logsumexp(log_q, b=weights))` = Σ_k w_k · q_k -/
def mix : List K → List K → K
  | w :: ws, q :: qs => w * q + mix ws qs
  | _, _ => 0

def sumK : List K → K
  | [] => 0
  | x :: xs => x + sumK xs

/-- the set `samples_unit` refers to -/
def refSize (s : St K) : Nat := if s.useIid then s.iid.length else s.train.length

/-- `populate_live_points`: initial samples drawn from the unit-cube prior, proposal −1, q = 1, Q = 1 -/
def initSample [OfNat K 1] (id : Nat) (U : K) : MS K :=
  { id := id, it := -1, U := U, row := [1], Q := 1, W := U / 1 }

def populate [OfNat K 1] (useIid : Bool) (tr : List (Nat × K)) (ii : List (Nat × K)) : St K :=
  { counts := [tr.length], weights := [1], useIid := useIid,
    train := tr.map (fun p => initSample p.1 p.2), iid := ii.map (fun p => initSample p.1 p.2) }

/-- `add_new_proposal_weight(iteration, n_new)` followed by `proposal.update_proposal_weights`
    (which raises unless the weights sum to one). `DecidableEq K` decides the sum check exactly. -/
def addProposalWeight [OfNat K 1] [DecidableEq K] (s : St K) (iteration : Nat) (nNew : Nat) :
    Except Err (St K) :=
  if iteration + 1 < s.counts.length ∧ s.counts.getD (iteration + 1) 0 ≠ 0 then .error .runtimeErr
  else if iteration + 1 > s.counts.length then .error .runtimeErr   -- gap: some weight stays NaN
  else
    let nTotal := refSize s + nNew
    let counts' := if iteration + 1 < s.counts.length then s.counts.set (iteration + 1) nNew
                   else s.counts ++ [nNew]
    let w : List K := counts'.map (fun (c : Nat) => ((c : K) / (nTotal : K) : K))
    if sumK w = 1 then .ok { s with counts := counts', weights := w } else .error .runtimeErr

/-- `ImportanceFlowProposal.draw`: a new sample gets `Q = Σ w_k q_k` and `W = U / Q` under the CURRENT weights -/
def newSample (w : List K) (id : Nat) (it : Int) (U : K) (row : List K) : Except Err (MS K) :=
  if row.length ≠ w.length then .error .shapeErr
  else .ok { id := id, it := it, U := U, row := row, Q := mix w row, W := U / mix w row }

/-- `update_log_q` (append the new proposal's density) + recompute `logQ`, `logW` for one stored sample -/
def updateSample (w : List K) (qNew : K) (s : MS K) : Except Err (MS K) :=
  if s.row.length + 1 ≠ w.length then
    (if s.row.length = w.length then .error .valueErr else .error .shapeErr)
  else
    let row' := s.row ++ [qNew]
    .ok { s with row := row', Q := mix w row', W := s.U / mix w row' }

def lookup (col : List (Nat × K)) (id : Nat) : Option K :=
  (col.find? (fun p => p.1 == id)).map (·.2)

def updateStore (w : List K) (col : List (Nat × K)) : List (MS K) → Except Err (List (MS K))
  | [] => .ok []
  | s :: ss =>
    match lookup col s.id with
    | none => .error .valueErr
    | some q =>
      match updateSample w q s, updateStore w col ss with
      | .ok s', .ok ss' => .ok (s' :: ss')
      | .error e, _ => .error e
      | _, .error e => .error e

def newSamples (w : List K) (it : Int) : List (Nat × K × List K) → Except Err (List (MS K))
  | [] => .ok []
  | (id, U, row) :: rest =>
    match newSample w id it U row, newSamples w it rest with
    | .ok s, .ok ss => .ok (s :: ss)
    | .error e, _ => .error e
    | _, .error e => .error e

/-- the training-set half of `add_and_update_points` -/
def addAndUpdateTrain (s : St K) (it : Int) (new : List (Nat × K × List K)) (col : List (Nat × K)) :
    Except Err (St K) :=
  match newSamples s.weights it new, updateStore s.weights col s.train with
  | .ok ns, .ok tr => .ok { s with train := tr ++ ns }
  | .error e, _ => .error e
  | _, .error e => .error e

/-- the independent-set half -/
def addAndUpdateIid (s : St K) (it : Int) (new : List (Nat × K × List K)) (col : List (Nat × K)) :
    Except Err (St K) :=
  match newSamples s.weights it new, updateStore s.weights col s.iid with
  | .ok ns, .ok tr => .ok { s with iid := tr ++ ns }
  | .error e, _ => .error e
  | _, .error e => .error e

/-- one full iteration, in the order of `nested_sampling_loop` -/
def iteration [OfNat K 1] [DecidableEq K] (s : St K) (j : Nat) (nAdd : Nat)
    (newT : List (Nat × K × List K)) (colT : List (Nat × K))
    (newI : List (Nat × K × List K)) (colI : List (Nat × K)) : Except Err (St K) :=
  match addProposalWeight s j nAdd with
  | .error e => .error e
  | .ok s1 =>
    match addAndUpdateTrain s1 (j : Int) newT colT with
    | .error e => .error e
    | .ok s2 => if s2.useIid then addAndUpdateIid s2 (j : Int) newI colI else .ok s2

end defs
end NessaiVerif.Meta
