#!/bin/bash
# integrate an updated property: regenerate the Lean root, run the check on the clean tree (seeds 0..2),
# re-pin the obligation names, regenerate MANIFEST and the DESIGN tables.  usage: harness/integrate.sh C09 [C11 ...]
cd "$(dirname "$0")/.." || exit 2
python3 harness/genroot.py >/dev/null
rc=0
for id in "$@"; do
  for seed in 0 1 2; do
    VERIF_SEED=$seed ./check "$id" 2>&1 | grep -E "^\[|VIOLATION|KNOWN-FINDING|error" | tail -8
    [ "${PIPESTATUS[0]}" = 0 ] || rc=1
  done
done
python3 harness/obligations.py --update | tail -2
/venv/bin/python -m harness.manifest | tail -1
python3 harness/design_tables.py | tail -1
exit $rc
