import NessaiVerif.Proofs.Reparam
/-
C07 — one notion of a lawful reparameterisation object acting on `(x, x_prime, log_j)`, closed under composition:
`seq` (the parameter loop of one object), `combined` (CombinedReparameterisation, both orders) and the
FlowProposal layer (`proposalRescale` / `proposalInverseRescale` with the non-sampling fields).
-/
namespace NessaiVerif.Reparam

variable {ι κ K : Type} [Field K]

/-- `r` is lawful for the parameters `P`, the prime parameters `PP`, on the points `D`:
* forward never touches `x`, writes only `PP` entries of `x_prime`, and what it writes / multiplies into the
  Jacobian depends on `x` only;
* inverse never touches `x_prime`, writes only `P` entries of `x`, and what it writes / multiplies depends only on the
  `PP` entries of `x_prime`;
* on `D` the inverse returns the original parameters and the two Jacobian factors multiply to one. -/
structure Lawful (r : Reparam (ι → K) (κ → K) K) (P : ι → Prop) (PP : κ → Prop) (D : (ι → K) → Prop) : Prop where
  fwd_x : ∀ s, (r.fwd s).1 = s.1
  fwd_frame : ∀ s k, ¬ PP k → (r.fwd s).2.1 k = s.2.1 k
  fwd_local : ∀ x xp xq j j' k, PP k → (r.fwd (x, xp, j)).2.1 k = (r.fwd (x, xq, j')).2.1 k
  fwd_jac : ∀ x xp xq j, (r.fwd (x, xp, j)).2.2 = j * (r.fwd (x, xq, 1)).2.2
  inv_xp : ∀ s, (r.inv s).2.1 = s.2.1
  inv_frame : ∀ s i, ¬ P i → (r.inv s).1 i = s.1 i
  inv_local : ∀ x y xp xq j j', (∀ k, PP k → xp k = xq k) → ∀ i, P i → (r.inv (x, xp, j)).1 i = (r.inv (y, xq, j')).1 i
  inv_jac : ∀ x y xp xq j, (∀ k, PP k → xp k = xq k) → (r.inv (x, xp, j)).2.2 = j * (r.inv (y, xq, 1)).2.2
  roundtrip : ∀ x xp j y j', D x → ∀ i, P i → (r.inv (y, (r.fwd (x, xp, j)).2.1, j')).1 i = x i
  jac : ∀ x xp y, D x → (r.fwd (x, xp, 1)).2.2 * (r.inv (y, (r.fwd (x, xp, 1)).2.1, 1)).2.2 = 1

theorem Lawful.congr {r : Reparam (ι → K) (κ → K) K} {P P' : ι → Prop} {PP PP' : κ → Prop} {D D' : (ι → K) → Prop}
    (h : Lawful r P PP D) (hP : ∀ i, P i ↔ P' i) (hPP : ∀ k, PP k ↔ PP' k) (hD : ∀ x, D' x → D x) : Lawful r P' PP' D' := by
  have e1 : P = P' := funext fun i => propext (hP i)
  have e2 : PP = PP' := funext fun k => propext (hPP k)
  subst e1 e2
  exact { h with roundtrip := fun x xp j y j' hx => h.roundtrip x xp j y j' (hD x hx),
                 jac := fun x xp y hx => h.jac x xp y (hD x hx) }

/-- apply `r1` then `r2`; invert `r2` then `r1` -/
def compose (r1 r2 : Reparam (ι → K) (κ → K) K) : Reparam (ι → K) (κ → K) K where
  fwd := fun s => r2.fwd (r1.fwd s)
  inv := fun s => r1.inv (r2.inv s)

def idReparam : Reparam (ι → K) (κ → K) K := ⟨id, id⟩

theorem idReparam_lawful : Lawful (idReparam : Reparam (ι → K) (κ → K) K) (fun _ => False) (fun _ => False) (fun _ => True) where
  fwd_x := fun _ => rfl
  fwd_frame := fun _ _ _ => rfl
  fwd_local := fun _ _ _ _ _ _ h => h.elim
  fwd_jac := fun _ _ _ j => by simp [idReparam]
  inv_xp := fun _ => rfl
  inv_frame := fun _ _ _ => rfl
  inv_local := fun _ _ _ _ _ _ _ _ h => h.elim
  inv_jac := fun _ _ _ _ j _ => by simp [idReparam]
  roundtrip := fun _ _ _ _ _ _ _ h => h.elim
  jac := fun _ _ _ _ => by simp [idReparam]

private theorem triple_eta {A B C : Type} (s : A × B × C) : s = (s.1, s.2.1, s.2.2) := rfl

/-- **closure under composition** for objects acting on disjoint parameters -/
theorem Lawful.comp {r1 r2 : Reparam (ι → K) (κ → K) K} {P1 P2 : ι → Prop} {PP1 PP2 : κ → Prop}
    {D1 D2 : (ι → K) → Prop} (h1 : Lawful r1 P1 PP1 D1) (h2 : Lawful r2 P2 PP2 D2)
    (hP : ∀ i, ¬ (P1 i ∧ P2 i)) (hPP : ∀ k, ¬ (PP1 k ∧ PP2 k)) :
    Lawful (compose r1 r2) (fun i => P1 i ∨ P2 i) (fun k => PP1 k ∨ PP2 k) (fun x => D1 x ∧ D2 x) := by
  -- forward of r1 written out
  have f1 : ∀ x xp j, r1.fwd (x, xp, j) = (x, (r1.fwd (x, xp, j)).2.1, (r1.fwd (x, xp, j)).2.2) := by
    intro x xp j
    have := h1.fwd_x (x, xp, j)
    rw [triple_eta (r1.fwd (x, xp, j))]; simp only [this]
  have g2 : ∀ y xp j, r2.inv (y, xp, j) = ((r2.inv (y, xp, j)).1, xp, (r2.inv (y, xp, j)).2.2) := by
    intro y xp j
    have := h2.inv_xp (y, xp, j)
    rw [triple_eta (r2.inv (y, xp, j))]; simp only [this]
  -- x_prime after both forwards agrees with x_prime after r1 on PP1
  have agree1 : ∀ x xp j k, PP1 k → (r2.fwd (r1.fwd (x, xp, j))).2.1 k = (r1.fwd (x, xp, j)).2.1 k := by
    intro x xp j k hk
    exact h2.fwd_frame _ k (fun h => hPP k ⟨hk, h⟩)
  refine
    { fwd_x := fun s => by simp only [compose]; rw [h2.fwd_x, h1.fwd_x]
      fwd_frame := fun s k hk => by
        simp only [compose]
        rw [h2.fwd_frame _ k (fun h => hk (Or.inr h)), h1.fwd_frame _ k (fun h => hk (Or.inl h))]
      fwd_local := ?_
      fwd_jac := ?_
      inv_xp := fun s => by simp only [compose]; rw [h1.inv_xp, h2.inv_xp]
      inv_frame := fun s i hi => by
        simp only [compose]
        rw [h1.inv_frame _ i (fun h => hi (Or.inl h)), h2.inv_frame _ i (fun h => hi (Or.inr h))]
      inv_local := ?_
      inv_jac := ?_
      roundtrip := ?_
      jac := ?_ }
  · -- fwd_local
    intro x xp xq j j' k hk
    simp only [compose]
    rcases hk with hk | hk
    · rw [agree1 x xp j k hk, agree1 x xq j' k hk]; exact h1.fwd_local x xp xq j j' k hk
    · rw [f1 x xp j, f1 x xq j']; exact h2.fwd_local x _ _ _ _ k hk
  · -- fwd_jac
    intro x xp xq j
    simp only [compose]
    rw [f1 x xp j, f1 x xq 1, h2.fwd_jac x _ (r1.fwd (x, xq, 1)).2.1 _, h1.fwd_jac x xp xq j,
      h2.fwd_jac x (r1.fwd (x, xq, 1)).2.1 (r1.fwd (x, xq, 1)).2.1 (r1.fwd (x, xq, 1)).2.2]
    ring
  · -- inv_local
    intro x y xp xq j j' hag i hi
    simp only [compose]
    rcases hi with hi | hi
    · rw [g2 x xp j, g2 y xq j']
      exact h1.inv_local _ _ xp xq _ _ (fun k hk => hag k (Or.inl hk)) i hi
    · rw [h1.inv_frame _ i (fun h => hP i ⟨h, hi⟩), h1.inv_frame _ i (fun h => hP i ⟨h, hi⟩)]
      exact h2.inv_local x y xp xq j j' (fun k hk => hag k (Or.inr hk)) i hi
  · -- inv_jac
    intro x y xp xq j hag
    simp only [compose]
    rw [g2 x xp j, g2 y xq 1,
      h1.inv_jac _ (r2.inv (y, xq, 1)).1 xp xq _ (fun k hk => hag k (Or.inl hk)),
      h2.inv_jac x y xp xq j (fun k hk => hag k (Or.inr hk)),
      h1.inv_jac (r2.inv (y, xq, 1)).1 (r2.inv (y, xq, 1)).1 xq xq (r2.inv (y, xq, 1)).2.2 (fun _ _ => rfl)]
    ring
  · -- roundtrip
    intro x xp j y j' hD i hi
    simp only [compose]
    rcases hi with hi | hi
    · rw [g2 y _ j']
      rw [h1.inv_local _ y _ (r1.fwd (x, xp, j)).2.1 _ j' (fun k hk => agree1 x xp j k hk) i hi]
      exact h1.roundtrip x xp j y j' hD.1 i hi
    · rw [h1.inv_frame _ i (fun h => hP i ⟨h, hi⟩), f1 x xp j]
      exact h2.roundtrip x _ _ y j' hD.2 i hi
  · -- jac
    intro x xp y hD
    simp only [compose]
    set xp1 := (r1.fwd (x, xp, 1)).2.1 with hxp1
    set J1 := (r1.fwd (x, xp, 1)).2.2 with hJ1
    have e1 : r1.fwd (x, xp, 1) = (x, xp1, J1) := f1 x xp 1
    rw [e1]
    set xp2 := (r2.fwd (x, xp1, J1)).2.1 with hxp2
    have hJ2 : (r2.fwd (x, xp1, J1)).2.2 = J1 * (r2.fwd (x, xp1, 1)).2.2 := h2.fwd_jac x xp1 xp1 J1
    have hxp2' : xp2 = (r2.fwd (x, xp1, 1)).2.1 := by
      funext k
      by_cases hk : PP2 k
      · exact h2.fwd_local x xp1 xp1 J1 1 k hk
      · rw [hxp2, h2.fwd_frame _ k hk, h2.fwd_frame _ k hk]
    rw [hJ2, g2 y xp2 1]
    have ag : ∀ k, PP1 k → xp2 k = xp1 k := fun k hk => by
      rw [hxp2]; exact h2.fwd_frame _ k (fun h => hPP k ⟨hk, h⟩)
    rw [h1.inv_jac (r2.inv (y, xp2, 1)).1 y xp2 xp1 _ ag]
    have k1 := h1.jac x xp y hD.1
    have k2 := h2.jac x xp1 y hD.2
    rw [← hxp2'] at k2
    rw [← hxp1, ← hJ1] at k1
    calc J1 * (r2.fwd (x, xp1, 1)).2.2 * ((r2.inv (y, xp2, 1)).2.2 * (r1.inv (y, xp1, 1)).2.2)
        = (J1 * (r1.inv (y, xp1, 1)).2.2) * ((r2.fwd (x, xp1, 1)).2.2 * (r2.inv (y, xp2, 1)).2.2) := by ring
      _ = 1 := by rw [k1, k2]; ring

/-! ### lists -/

theorem seq_nil : (seq ([] : List (Reparam (ι → K) (κ → K) K))) = idReparam := rfl

theorem seq_cons (r : Reparam (ι → K) (κ → K) K) (rs : List (Reparam (ι → K) (κ → K) K)) :
    seq (r :: rs) = compose r (seq rs) := by
  simp only [seq, compose, List.foldl_cons, List.reverse_cons, List.foldl_append, List.foldl_nil]

theorem combined_eq_seq (rs : List (Reparam (ι → K) (κ → K) K)) (rev : Bool) :
    combined rs rev = seq (if rev then rs.reverse else rs) := by
  cases rev <;> simp [combined, seq]

/-- an object together with the parameter sets and the regular domain it is lawful for -/
structure Entry (ι κ K : Type) where
  rep : Reparam (ι → K) (κ → K) K
  P : ι → Prop
  PP : κ → Prop
  D : (ι → K) → Prop

/-- every object lawful, parameters and prime parameters pairwise disjoint (what `CombinedReparameterisation`
assumes of the objects added to it) -/
def AllLawful (es : List (Entry ι κ K)) : Prop :=
  (∀ e ∈ es, Lawful e.rep e.P e.PP e.D) ∧
  es.Pairwise (fun a b => (∀ i, ¬ (a.P i ∧ b.P i)) ∧ (∀ k, ¬ (a.PP k ∧ b.PP k)))

def unionP (es : List (Entry ι κ K)) (i : ι) : Prop := ∃ e ∈ es, e.P i
def unionPP (es : List (Entry ι κ K)) (k : κ) : Prop := ∃ e ∈ es, e.PP k
def allD (es : List (Entry ι κ K)) (x : ι → K) : Prop := ∀ e ∈ es, e.D x

theorem seq_lawful (es : List (Entry ι κ K)) (h : AllLawful es) :
    Lawful (seq (es.map (·.rep))) (unionP es) (unionPP es) (allD es) := by
  induction es with
  | nil =>
    rw [List.map_nil, seq_nil]
    exact idReparam_lawful.congr (fun i => by simp [unionP]) (fun k => by simp [unionPP]) (fun _ _ => trivial)
  | cons e es ih =>
    obtain ⟨hl, hp⟩ := h
    rw [List.pairwise_cons] at hp
    have ih' := ih ⟨fun a ha => hl a (List.mem_cons_of_mem _ ha), hp.2⟩
    have he := hl e List.mem_cons_self
    rw [List.map_cons, seq_cons]
    refine (he.comp ih' ?_ ?_).congr ?_ ?_ ?_
    · rintro i ⟨h1, a, ha, h2⟩; exact (hp.1 a ha).1 i ⟨h1, h2⟩
    · rintro k ⟨h1, a, ha, h2⟩; exact (hp.1 a ha).2 k ⟨h1, h2⟩
    · intro i; simp [unionP]
    · intro k; simp [unionPP]
    · intro x hx; exact ⟨hx e List.mem_cons_self, fun a ha => hx a (List.mem_cons_of_mem _ ha)⟩

theorem allLawful_reverse (es : List (Entry ι κ K)) (h : AllLawful es) : AllLawful es.reverse := by
  refine ⟨fun e he => h.1 e (List.mem_reverse.mp he), ?_⟩
  rw [List.pairwise_reverse]
  exact h.2.imp (fun {a b} hab => ⟨fun i hi => hab.1 i ⟨hi.2, hi.1⟩, fun k hk => hab.2 k ⟨hk.2, hk.1⟩⟩)

/-- `CombinedReparameterisation` of lawful objects is lawful, with either value of `reverse_order` -/
theorem combined_lawful (es : List (Entry ι κ K)) (h : AllLawful es) (rev : Bool) :
    Lawful (combined (es.map (·.rep)) rev) (unionP es) (unionPP es) (allD es) := by
  rw [combined_eq_seq]
  cases rev
  · simpa using seq_lawful es h
  · have := seq_lawful es.reverse (allLawful_reverse es h)
    simp only [if_true, ← List.map_reverse]
    exact this.congr (fun i => by simp [unionP]) (fun k => by simp [unionPP])
      (fun x hx e he => hx e (List.mem_reverse.mp he))

/-! ### one-parameter objects from scalar maps -/

variable [DecidableEq ι] [DecidableEq κ]

omit [Field K] [DecidableEq κ] in
theorem upd_same (f : ι → K) (i : ι) (v : K) : upd f i v i = v := by simp [upd]
omit [Field K] [DecidableEq κ] in
theorem upd_other (f : ι → K) (i j : ι) (v : K) (h : j ≠ i) : upd f i v j = f j := by simp [upd, h]

theorem ofScalar_lawful (p : ι) (pp : κ) (f g : K → K × K) (D : K → Prop)
    (h : ∀ a, D a → (g (f a).1).1 = a ∧ (f a).2 * (g (f a).1).2 = 1) :
    Lawful (ofScalar p pp f g) (fun i => i = p) (fun k => k = pp) (fun x => D (x p)) where
  fwd_x := fun _ => rfl
  fwd_frame := fun s k hk => by simp [ofScalar, upd, hk]
  fwd_local := fun x xp xq j j' k hk => by subst hk; simp [ofScalar, upd]
  fwd_jac := fun x xp xq j => by simp [ofScalar]
  inv_xp := fun _ => rfl
  inv_frame := fun s i hi => by simp [ofScalar, upd, hi]
  inv_local := fun x y xp xq j j' hag i hi => by subst hi; simp [ofScalar, upd, hag pp rfl]
  inv_jac := fun x y xp xq j hag => by simp [ofScalar, hag pp rfl]
  roundtrip := fun x xp j y j' hD i hi => by subst hi; simp [ofScalar, upd, (h _ hD).1]
  jac := fun x xp y hD => by simp [ofScalar, upd, (h _ hD).2]


/-! ### the FlowProposal layer: non-sampling fields are copied across, everything else as above -/

omit [Field K] [DecidableEq κ] in
theorem foldl_upd_not_mem (ns : List ι) (f g : ι → K) (k : ι) (h : k ∉ ns) :
    (ns.foldl (fun a p => upd a p (g p)) f) k = f k := by
  induction ns generalizing f with
  | nil => rfl
  | cons n ns ih =>
    rw [List.foldl_cons, ih _ (fun hk => h (List.mem_cons_of_mem _ hk))]
    exact upd_other f n k _ (fun e => h (e ▸ List.mem_cons_self))

omit [Field K] [DecidableEq κ] in
theorem foldl_upd_mem (ns : List ι) (f g : ι → K) (k : ι) (h : k ∈ ns) :
    (ns.foldl (fun a p => upd a p (g p)) f) k = g k := by
  induction ns generalizing f with
  | nil => cases h
  | cons n ns ih =>
    rw [List.foldl_cons]
    by_cases hk : k ∈ ns
    · exact ih _ hk
    · have : k = n := by
        rcases List.mem_cons.mp h with h | h
        · exact h
        · exact (hk h).elim
      subst this
      rw [foldl_upd_not_mem ns _ g k hk]; exact upd_same f k _

omit [DecidableEq κ] in
theorem proposal_roundtrip (c : Reparam (ι → K) (ι → K) K) (P PP : ι → Prop) (D : (ι → K) → Prop)
    (hc : Lawful c P PP D) (ns : List ι) (hnsP : ∀ p ∈ ns, ¬ P p) (hnsPP : ∀ p ∈ ns, ¬ PP p)
    (e e' x : ι → K) (hD : D x) :
    (∀ i, P i → (proposalInverseRescale c ns e' (proposalRescale c ns e x).1).1 i = x i) ∧
    (∀ p ∈ ns, (proposalRescale c ns e x).1 p = x p ∧
               (proposalInverseRescale c ns e' (proposalRescale c ns e x).1).1 p = x p) ∧
    (proposalRescale c ns e x).2 * (proposalInverseRescale c ns e' (proposalRescale c ns e x).1).2 = 1 := by
  have hx : (c.fwd (x, e, 1)).1 = x := hc.fwd_x _
  set xp1 := (c.fwd (x, e, 1)).2.1 with hxp1
  set xpN := (proposalRescale c ns e x).1 with hxpN
  have hxpN' : xpN = ns.foldl (fun a p => upd a p (x p)) xp1 := by
    simp only [hxpN, proposalRescale, hx]; rfl
  have agree : ∀ k, PP k → xpN k = xp1 k := by
    intro k hk
    rw [hxpN']; exact foldl_upd_not_mem ns xp1 x k (fun h => hnsPP k h hk)
  have hcopy : ∀ p ∈ ns, xpN p = x p := by
    intro p hp; rw [hxpN']; exact foldl_upd_mem ns xp1 x p hp
  have hinvxp : (c.inv (e', xpN, 1)).2.1 = xpN := hc.inv_xp _
  have hback : (proposalInverseRescale c ns e' xpN).1 = ns.foldl (fun a p => upd a p (xpN p)) (c.inv (e', xpN, 1)).1 := by
    simp only [proposalInverseRescale, hinvxp]
  refine ⟨?_, ?_, ?_⟩
  · intro i hi
    rw [hback, foldl_upd_not_mem ns _ xpN i (fun h => hnsP i h hi)]
    rw [hc.inv_local e' e' xpN xp1 1 1 agree i hi]
    exact hc.roundtrip x e 1 e' 1 hD i hi
  · intro p hp
    refine ⟨hcopy p hp, ?_⟩
    rw [hback, foldl_upd_mem ns _ xpN p hp]; exact hcopy p hp
  · have : (proposalRescale c ns e x).2 = (c.fwd (x, e, 1)).2.2 := rfl
    rw [this]
    have : (proposalInverseRescale c ns e' xpN).2 = (c.inv (e', xpN, 1)).2.2 := rfl
    rw [this, hc.inv_jac e' e' xpN xp1 1 agree, one_mul]
    exact hc.jac x e e' hD


/-! ### a concrete two-object list used by the `example`s of Props/C07 -/

/-- halving on parameter 0 (a Rescale with scale 2) and a NullReparameterisation on parameter 1 -/
def exampleEntries : List (Entry Nat Nat Rat) :=
  [⟨ofScalar (0 : Nat) (0 : Nat) (fun x : Rat => (x / 2, 1 / 2)) (fun y => (y * 2, 2)), (· = 0), (· = 0), fun _ => True⟩,
   ⟨nullReparam 1, (· = 1), (· = 1), fun _ => True⟩]

theorem exampleEntries_lawful : AllLawful exampleEntries := by
  refine ⟨?_, ?_⟩
  · intro e he
    simp only [exampleEntries, List.mem_cons, List.not_mem_nil, or_false] at he
    rcases he with rfl | rfl
    · exact ofScalar_lawful (K := Rat) 0 0 (fun x => (x / 2, 1 / 2)) (fun y => (y * 2, 2)) (fun _ => True)
        (fun a _ => ⟨by ring, by norm_num⟩)
    · exact ofScalar_lawful (K := Rat) 1 1 (fun x => (x, 1)) (fun x => (x, 1)) (fun _ => True) (fun a _ => ⟨rfl, by simp⟩)
  · simp only [exampleEntries, List.pairwise_cons, List.mem_cons, List.not_mem_nil, or_false, forall_eq, List.Pairwise.nil,
      and_true, IsEmpty.forall_iff, implies_true]
    exact ⟨fun i h => by omega, fun k h => by omega⟩

end NessaiVerif.Reparam
