"""pylogvec2lean — translates straight-line NumPy code over LOG-WEIGHT VECTORS (posterior resampling, effective sample
size) into the linear-domain Lean definitions of `Model/Resample.lean`, statement by statement, on every run.

Same dictionary as harness/pylog2lean.py (a log-domain number is represented by its exponential, `-inf ↦ 0`), lifted to
vectors:

    type    meaning                                   Lean
    VLOG    array of log-weights                      List K   (the weights themselves)
    VLIN    array of reals (probabilities)            List K
    LOG     a log-domain scalar                       K        (its exponential)
    LIN     a real scalar                             K
    NAT / OPTNAT / IDX / ARR / STR                    Nat / Option Nat / List Nat / List α / String

    expression                                        type   Lean
    np.array(v), np.asarray(v)                        = v    v
    logsumexp(v)                 v : VLOG             LOG    lsum v
    np.max(v)                    v : VLOG             LOG    lmax v
    v - s,  v + s                v : VLOG, s : LOG    VLOG   v.map (fun x => x / s),  … x * s
    a - b,  a + b                both LOG             LOG    a / b,  a * b
    2 * v                        v : VLOG             VLOG   v.map (fun x => x * x)
    -a                           a : LOG              LOG    1 / a
    np.exp(a)                    a : LOG / VLOG       LIN / VLIN    a
    np.log(np.random.rand(nested_samples.size))       VLOG   the uniform draws `u` (an INPUT of the definition)
    np.where(a > b)[0]           a, b : VLOG          IDX    whereGt a b
    nested_samples[idx]                               ARR    takeIdx nested idx
    int(e)                       e : LIN              NAT    intOf e            (`intOf : K → Nat`, a parameter)
    np.random.choice(nested_samples.size, size=n, p=p, replace=True)     IDX    choiceIdx p n u
    f(v)  for a function translated into the same file                   as declared

Statements: assignments, `v -= s`, `if x is None: x = e` (optional count), logging (dropped), `if method == "…"` /
`elif method in […]` / `else: raise ValueError` (string dispatch, the statements after the `if` are continued in every arm
that does not raise), `return e`, and the closing `if return_indices: return samples, indices / else: return samples`
(the definition always returns both).  Everything else raises `TranslationError` (tie downgrade; nothing is guessed).
"""
import ast
import hashlib
from dataclasses import dataclass, field
from pathlib import Path
from typing import Dict, List, Optional, Sequence, Tuple

from .py2lean import TranslationError, find_function

VLOG, VLIN, LOG, LIN, NAT, OPTNAT, IDX, ARR, STR, BOOL, NONE = "VLOG VLIN LOG LIN NAT OPTNAT IDX ARR STR BOOL NONE".split()
LEAN_TY = {"VNAT": "List Nat", VLOG: "List K", VLIN: "List K", LOG: "K", LIN: "K", NAT: "Nat", OPTNAT: "Option Nat", IDX: "List Nat",
           ARR: "List α", STR: "String", BOOL: "Bool"}


@dataclass
class VecSpec:
    source: str
    func: str
    name: str
    params: Sequence[Tuple[str, Optional[str], str]]     # (python parameter, lean name or None = not an input of the model, type)
    result: str                                          # Lean result type
    cls: Optional[str] = None
    prop: bool = False                                   # a @property: `self.<attr>` inputs declared in self_attrs
    self_attrs: Dict[str, Tuple[str, str]] = field(default_factory=dict)    # attribute -> (lean name, type)
    calls: Dict[str, Tuple[str, Sequence[str], str]] = field(default_factory=dict)   # python callee -> (lean name, arg types, result type)
    delegate: Dict[str, str] = field(default_factory=dict)   # exact text of an `if` test -> text that its body must have (arm dropped)
    uses_uniforms: bool = False
    uses_int: bool = False
    nested: str = "nested_samples"
    doc: str = ""
    rec_params: Dict[str, Tuple[str, str]] = field(default_factory=dict)    # record-array parameter -> (lean name of its logL column, of its logW column)
    opt_rec_params: Dict[str, str] = field(default_factory=dict)            # Optional record-array parameter -> lean name (Option (List K × List K))
    result_attrs: Sequence[str] = ()                       # a method without return value: the attributes it leaves, as a tuple
    extra_binders: str = ""                                # binders used by derived attributes
    uses_ex: bool = False                                  # the exponential is needed (a logarithm written out as a real)
    lsum: str = "lsum"                                    # name of the sum primitive in the target namespace
    vec_calls: Dict[str, str] = field(default_factory=dict)   # python callee of two vectors -> Lean binary operator (elementwise)
    given: Dict[str, Tuple[str, Dict[str, Tuple[str, str]]]] = field(default_factory=dict)
    # test text of a leading `if` whose WHOLE statement is pinned by sha256 (first 16 hex digits of its unparsed text) and replaced by
    # parameters: {local name: (type, lean name)} (declared in extra_binders) — the part of a function another model is about
    real_fns: Dict[str, str] = field(default_factory=dict)    # np.sqrt / np.abs -> name of an uninterpreted K → K parameter (extra_binders)


class Unbound(Exception):
    """a local that is assigned on another path only: Python raises UnboundLocalError at this statement"""


class _V:
    def __init__(self, spec: VecSpec):
        self.spec = spec
        self.ver: Dict[str, int] = {}
        self.local_attrs: Dict[str, Tuple[str, str]] = {}
        self.assigned_somewhere = set()

    def fail(self, node, why):
        where = f"{self.spec.cls + '.' if self.spec.cls else ''}{self.spec.func}"
        raise TranslationError(f"{where}: {why}: {ast.unparse(node)[:100]!r}")

    def fresh(self, base):
        k = self.ver.get(base, 0) + 1
        self.ver[base] = k
        return f"{base}{k}"

    # ------------------------------------------------------------------ expressions
    def expr(self, e, env) -> Tuple[str, str]:
        sp = self.spec
        if isinstance(e, ast.Name):
            if e.id in env:
                return env[e.id]
            if e.id in self.assigned_somewhere:
                raise Unbound(e.id)
            self.fail(e, "undeclared name")
        if isinstance(e, ast.Attribute) and isinstance(e.value, ast.Name) and e.value.id == "self" \
                and (e.attr in self.local_attrs or e.attr in sp.self_attrs):
            ln, ty = self.local_attrs.get(e.attr) or sp.self_attrs[e.attr]
            return ty, ln
        if isinstance(e, ast.Constant) and e.value is None:
            return NONE, "none"
        text = ast.unparse(e)
        if isinstance(e, ast.Call) and ast.unparse(e.func) == "np.arange" and len(e.args) == 3 and ast.unparse(e.args[1]) == "0" \
                and ast.unparse(e.args[2]) == "-1" and all(k.arg == "dtype" and ast.unparse(k.value) == "float" for k in e.keywords):
            t, v = self.expr(e.args[0], env)
            if t == NAT:
                return "VNAT", f"(countdown {v})"
            self.fail(e, "np.arange(n, 0, -1) of something that is not a count")
        # shrinkage per live count: -1.0 / n  (the logarithm itself: through `ex`)  and  -np.log1p(1.0 / n)
        if isinstance(e, ast.BinOp) and isinstance(e.op, ast.Div) and ast.unparse(e.left) == "-1.0":
            t, v = self.expr(e.right, env)
            if t == "VNAT":
                return VLOG, f"({v}.map (fun (k : Nat) => ex (-1 / (k : K))))"
        if isinstance(e, ast.UnaryOp) and isinstance(e.op, ast.USub) and isinstance(e.operand, ast.Call) \
                and ast.unparse(e.operand.func) == "np.log1p" and len(e.operand.args) == 1 \
                and isinstance(e.operand.args[0], ast.BinOp) and isinstance(e.operand.args[0].op, ast.Div) \
                and ast.unparse(e.operand.args[0].left) == "1.0":
            t, v = self.expr(e.operand.args[0].right, env)
            if t == "VNAT":
                return VLOG, f"({v}.map (fun (k : Nat) => 1 / (1 + 1 / (k : K))))"
        # log-scalar + cumulative sum of log vector: cumulative product started from the scalar
        if isinstance(e, ast.BinOp) and isinstance(e.op, ast.Add) and isinstance(e.right, ast.Call) \
                and ast.unparse(e.right.func) == "np.cumsum" and len(e.right.args) == 1:
            tl, l = self.expr(e.left, env)
            tr, r = self.expr(e.right.args[0], env)
            if tl == LOG and tr == VLOG:
                return VLOG, f"(cumprodFrom {l} {r})"
            self.fail(e, "cumulative sum outside the fragment")
        if isinstance(e, ast.Subscript) and isinstance(e.value, ast.Name) and isinstance(e.slice, ast.Constant) \
                and e.slice.value in ("logL", "logW"):
            k = 0 if e.slice.value == "logL" else 1
            if e.value.id in sp.rec_params:
                return VLOG, sp.rec_params[e.value.id][k]
            if e.value.id in env and env[e.value.id][0] == "RECPAIR":
                return VLOG, f"{env[e.value.id][1]}.{k + 1}"
            self.fail(e, "column of something that is not a declared record array")
        if isinstance(e, ast.Call) and ast.unparse(e.func) == "np.concatenate" and len(e.args) == 1 and isinstance(e.args[0], ast.List) \
                and len(e.args[0].elts) >= 2 and not e.keywords:
            parts = [self.expr(x, env) for x in e.args[0].elts]
            if all(t == VLOG for t, _ in parts):
                return VLOG, "(" + " ++ ".join(v for _, v in parts) + ")"
            self.fail(e, "np.concatenate of something else than log vectors")
        if isinstance(e, ast.Call) and ast.unparse(e.func) == "len" and len(e.args) == 1 and isinstance(e.args[0], ast.Name) \
                and env.get(e.args[0].id, ("",))[0] in (VLOG, VLIN):
            return NAT, f"{env[e.args[0].id][1]}.length"
        if isinstance(e, ast.BinOp) and isinstance(e.op, ast.Add) and isinstance(e.right, ast.Constant) and isinstance(e.right.value, int) \
                and not isinstance(e.right.value, bool):
            try:
                t, v = self.expr(e.left, env)
            except TranslationError:
                t = None
            if t == NAT:
                return NAT, f"({v} + {e.right.value})"
        if isinstance(e, ast.Call) and ast.unparse(e.func) == "np.zeros" and len(e.args) == 1 and not e.keywords:
            t, v = self.expr(e.args[0], env)
            if t == NAT:
                return VLOG, f"(List.replicate {v} 1)"           # a vector of log-values 0: the reals 1
            self.fail(e, "np.zeros of something that is not a count")
        if isinstance(e, ast.Call) and ast.unparse(e.func) == "np.cumsum" and len(e.args) == 1 and not e.keywords:
            t, v = self.expr(e.args[0], env)
            if t == VLOG:
                return VLOG, f"(cumprodFrom 1 {v})"
            self.fail(e, "np.cumsum of something that is not a log vector")
        if isinstance(e, ast.List) and e.elts:
            parts = [self.expr(x, env) for x in e.elts]
            if all(t == LOG for t, _ in parts):
                return VLOG, "[" + ", ".join(v for _, v in parts) + "]"
            self.fail(e, "list literal of something else than log-domain scalars")
        if isinstance(e, ast.Call) and ast.unparse(e.func) == "len" and len(e.args) == 1 and isinstance(e.args[0], ast.Name) \
                and e.args[0].id in sp.rec_params:
            return NAT, f"{sp.rec_params[e.args[0].id][0]}.length"       # a record array has one row per entry of its columns
        if isinstance(e, ast.Attribute) and e.attr == "size":
            t, v = self.expr(e.value, env)
            if t in (VLOG, VLIN):
                return NAT, f"{v}.length"
            self.fail(e, ".size of something that is not a vector")
        if isinstance(e, ast.Call) and ast.unparse(e.func) == "np.log" and len(e.args) == 1:
            try:
                t, v = self.expr(e.args[0], env)
            except TranslationError:
                t = None
            if t == NAT:
                return LOG, f"(({v} : Nat) : K)"          # the logarithm of a count: as a log-domain number, the count itself
        if text == "-np.inf":
            return LOG, "0"                                  # the log of zero
        if text == "np.log(2)":
            return LOG, "(1 + 1)"
        # `self.xs + [elem]` (Python lists, then np.array): a vector with one more entry
        if isinstance(e, ast.BinOp) and isinstance(e.op, ast.Add) and isinstance(e.right, ast.List) and len(e.right.elts) == 1:
            tl, l = self.expr(e.left, env)
            te, x = self.expr(e.right.elts[0], env)
            if tl == VLOG and te == LOG:
                return VLOG, f"({l} ++ [{x}])"
            self.fail(e, "list concatenation outside the fragment")
        if isinstance(e, ast.Call):
            fn = ast.unparse(e.func)
            if fn in ("np.array", "np.asarray") and len(e.args) == 1 and not e.keywords:
                return self.expr(e.args[0], env)
            if fn == "logsumexp" and len(e.args) == 1 and not e.keywords:
                t, v = self.expr(e.args[0], env)
                if t != VLOG:
                    self.fail(e, "logsumexp of something that is not a log-weight vector")
                return LOG, f"({sp.lsum} {v})"
            if fn == "np.max" and len(e.args) == 1 and not e.keywords:
                t, v = self.expr(e.args[0], env)
                if t != VLOG:
                    self.fail(e, "np.max of something that is not a log-weight vector")
                return LOG, f"(lmax {v})"
            if fn == "np.exp" and len(e.args) == 1 and all(k.arg == "dtype" and ast.unparse(k.value) in ("np.longdouble", "float")
                                                           for k in e.keywords):
                t, v = self.expr(e.args[0], env)
                if t == LOG:
                    return LIN, v
                if t == VLOG:
                    return VLIN, v
                self.fail(e, "np.exp of something that is not log-domain")
            # real-valued (linear-domain) arithmetic on exponentiated quantities: sum, square root, absolute value, float()
            if fn == "np.sum" and len(e.args) == 1 and not e.keywords:
                t, v = self.expr(e.args[0], env)
                if t == VLIN:
                    return LIN, f"({sp.lsum} {v})"
                self.fail(e, "np.sum of something that is not a vector of reals")
            if fn in ("np.sqrt", "np.abs") and len(e.args) == 1 and not e.keywords and fn in sp.real_fns:
                t, v = self.expr(e.args[0], env)
                if t == LIN:
                    return LIN, f"({sp.real_fns[fn]} {v})"
                self.fail(e, f"{fn} of something that is not a real scalar")
            if fn == "float" and len(e.args) == 1 and not e.keywords:
                t, v = self.expr(e.args[0], env)
                if t == LIN:
                    return LIN, v
                self.fail(e, "float() of something that is not a real scalar")
            if text == f"np.log(np.random.rand({sp.nested}.size))":
                if not sp.uses_uniforms:
                    self.fail(e, "uniform draws in a function declared without them")
                return VLOG, "u"
            if fn == "int" and len(e.args) == 1 and not e.keywords:
                t, v = self.expr(e.args[0], env)
                if t != LIN or not sp.uses_int:
                    self.fail(e, "int() of something that is not a real scalar")
                return NAT, f"(intOf {v})"
            if fn == "np.random.choice":
                kw = {k.arg: k.value for k in e.keywords}
                if (len(e.args) == 1 and ast.unparse(e.args[0]) == f"{sp.nested}.size" and set(kw) == {"size", "p", "replace"}
                        and ast.unparse(kw["replace"]) == "True" and sp.uses_uniforms):
                    tn, n = self.expr(kw["size"], env)
                    tp, p = self.expr(kw["p"], env)
                    if tn == NAT and tp == VLIN:
                        return IDX, f"(choiceIdx {p} {n} u)"
                self.fail(e, "np.random.choice in a form outside the fragment")
            if fn == "np.logaddexp" and len(e.args) == 2 and not e.keywords:
                ta, a = self.expr(e.args[0], env)
                tb, b = self.expr(e.args[1], env)
                if ta == VLOG and tb == VLOG:
                    return VLOG, f"(List.zipWith (· + ·) {a} {b})"
                self.fail(e, "np.logaddexp of something else than two log vectors")
            if fn in sp.vec_calls and len(e.args) == 2 and not e.keywords:
                ta, a = self.expr(e.args[0], env)
                tb, b = self.expr(e.args[1], env)
                if ta == VLOG and tb == VLOG:
                    return VLOG, f"(List.zipWith (· {sp.vec_calls[fn]} ·) {a} {b})"
                self.fail(e, "vector callee on something else than two log vectors")
            if fn in sp.calls and not e.keywords:
                ln, atys, rty = sp.calls[fn]
                args = [self.expr(a, env) for a in e.args]
                if [t for t, _ in args] != list(atys):
                    self.fail(e, "call with arguments of other types than declared")
                return rty, "(" + " ".join([ln] + [v for _, v in args]) + ")"
            self.fail(e, "call outside the fragment")
        if isinstance(e, ast.Subscript) and isinstance(e.slice, ast.Slice) and e.slice.step is None:
            t, v = self.expr(e.value, env)
            lo = None if e.slice.lower is None else ast.unparse(e.slice.lower)
            hi = None if e.slice.upper is None else ast.unparse(e.slice.upper)
            if t == VLOG and (lo, hi) in ((None, "-1"), ("1", None), ("1", "-1")):
                return VLOG, {(None, "-1"): f"{v}.dropLast", ("1", None): f"{v}.tail", ("1", "-1"): f"{v}.tail.dropLast"}[(lo, hi)]
            self.fail(e, "slice outside the fragment")
        if isinstance(e, ast.Subscript) and ast.unparse(e.slice) == "-1":
            t, v = self.expr(e.value, env)
            if t == VLOG:
                return LOG, f"({v}.getLastD 0)"
            self.fail(e, "[-1] of something that is not a log vector")
        if isinstance(e, ast.Subscript):
            # np.where(a > b)[0]
            if (isinstance(e.value, ast.Call) and ast.unparse(e.value.func) == "np.where" and ast.unparse(e.slice) == "0"
                    and len(e.value.args) == 1 and isinstance(e.value.args[0], ast.Compare)
                    and len(e.value.args[0].ops) == 1 and isinstance(e.value.args[0].ops[0], ast.Gt)):
                c = e.value.args[0]
                ta, a = self.expr(c.left, env)
                tb, b = self.expr(c.comparators[0], env)
                if ta == VLOG and tb == VLOG:
                    return IDX, f"(whereGt {a} {b})"
                self.fail(e, "np.where on something else than two log-weight vectors")
            if isinstance(e.value, ast.Name) and e.value.id == sp.nested:
                ti, i = self.expr(e.slice, env)
                if ti == IDX:
                    return ARR, f"(takeIdx nested {i})"
            self.fail(e, "subscript outside the fragment")
        if isinstance(e, ast.UnaryOp) and isinstance(e.op, ast.USub):
            t, v = self.expr(e.operand, env)
            if t == LOG:
                return LOG, f"(1 / {v})"
            self.fail(e, "negation of something that is not a log-domain scalar")
        if isinstance(e, ast.BinOp):
            if isinstance(e.op, ast.Pow) and isinstance(e.right, ast.Constant) and e.right.value == 2:
                t, v = self.expr(e.left, env)
                if t == VLIN:
                    return VLIN, f"({v}.map (fun x => x * x))"
                if t == LIN:
                    return LIN, f"({v} * {v})"
                self.fail(e, "square of something that is not real-valued")
            if isinstance(e.op, (ast.Sub, ast.Mult, ast.Div)):
                def _try(x):
                    try:
                        return self.expr(x, env)
                    except TranslationError:
                        return None, None
                (tl, l), (tr, r) = _try(e.left), _try(e.right)
                if isinstance(e.op, ast.Sub) and tl == VLIN and tr == LIN:
                    return VLIN, f"({l}.map (fun x => x - {r}))"
                if isinstance(e.op, ast.Sub) and tl == NAT and isinstance(e.right, ast.Constant) and isinstance(e.right.value, int):
                    return NAT, f"({l} - {e.right.value})"
                if isinstance(e.op, ast.Mult) and tl == NAT and tr == NAT:
                    return NAT, f"({l} * {r})"
                if isinstance(e.op, ast.Div) and tl == LIN and tr == NAT:
                    return LIN, f"({l} / (({r} : Nat) : K))"
                if isinstance(e.op, ast.Div) and tl == LIN and tr == LIN:
                    return LIN, f"({l} / {r})"
            if isinstance(e.op, ast.Mult) and isinstance(e.left, ast.Constant) and e.left.value == 2:
                t, v = self.expr(e.right, env)
                if t == VLOG:
                    return VLOG, f"({v}.map (fun x => x * x))"
                self.fail(e, "2 * something that is not a log-weight vector")
            if isinstance(e.op, (ast.Add, ast.Sub)):
                tl, l = self.expr(e.left, env)
                tr, r = self.expr(e.right, env)
                op = "*" if isinstance(e.op, ast.Add) else "/"
                if tl == VLOG and tr == LOG:
                    return VLOG, f"({l}.map (fun x => x {op} {r}))"
                if tl == VLOG and tr == VLOG:
                    return VLOG, f"(List.zipWith (· {op} ·) {l} {r})"
                if tl == LOG and tr == LOG:
                    return LOG, f"({l} {op} {r})"
            self.fail(e, "arithmetic outside the fragment")
        self.fail(e, "expression outside the fragment")

    # ------------------------------------------------------------------ conditions on strings
    def str_cond(self, c, env) -> Optional[str]:
        if isinstance(c, ast.Compare) and len(c.ops) == 1 and isinstance(c.ops[0], ast.Eq) \
                and isinstance(c.comparators[0], ast.Constant) and isinstance(c.comparators[0].value, str):
            left = ast.unparse(c.left)
            for attr, (ln, ty) in self.spec.self_attrs.items():
                if ty == STR and left == f"self.{attr}.lower()":
                    return f'{ln} = "{c.comparators[0].value}"'   # `ln` stands for the lower-cased option
        if isinstance(c, ast.Compare) and len(c.ops) == 1 and isinstance(c.ops[0], ast.Eq) and isinstance(c.left, ast.Call) \
                and isinstance(c.left.func, ast.Attribute) and c.left.func.attr == "lower" and not c.left.args \
                and isinstance(c.left.func.value, ast.Name) and env.get(c.left.func.value.id, ("",))[0] == STR \
                and isinstance(c.comparators[0], ast.Constant) and isinstance(c.comparators[0].value, str):
            return f'{env[c.left.func.value.id][1]} = "{c.comparators[0].value}"'     # the binder stands for the lower-cased option
        if isinstance(c, ast.Compare) and len(c.ops) == 1 and isinstance(c.left, ast.Name) and env.get(c.left.id, ("",))[0] == STR:
            v = env[c.left.id][1]
            r = c.comparators[0]
            if isinstance(c.ops[0], ast.Eq) and isinstance(r, ast.Constant) and isinstance(r.value, str):
                return f'{v} = "{r.value}"'
            if isinstance(c.ops[0], ast.In) and isinstance(r, (ast.List, ast.Tuple)) and all(
                    isinstance(x, ast.Constant) and isinstance(x.value, str) for x in r.elts):
                return "(" + " ∨ ".join(f'{v} = "{x.value}"' for x in r.elts) + ")"
        return None

    # ------------------------------------------------------------------ statements (continuation style)
    def only_logging(self, body):
        return all(isinstance(s, ast.Expr) and isinstance(s.value, ast.Call) and ast.unparse(s.value.func).startswith("logger.")
                   for s in body)

    def block(self, stmts, env, ind) -> str:
        try:
            return self._block(stmts, env, ind)
        except Unbound:
            if not self.spec.result.startswith("Option"):
                raise TranslationError(f"{self.spec.func}: a local may be unbound but the modelled result has no error value")
            return "  " * ind + "none"

    def _block(self, stmts, env, ind) -> str:
        pad = "  " * ind
        if not stmts:
            if self.spec.result_attrs:
                missing = [a for a in self.spec.result_attrs if a not in self.local_attrs]
                if missing:
                    raise TranslationError(f"{self.spec.func}: attributes {missing} are not assigned on every path")
                return f"{pad}(" + ", ".join(self.local_attrs[a][0] for a in self.spec.result_attrs) + ")"
            raise TranslationError(f"{self.spec.func}: control reaches the end of the function without a return")
        st, rest = stmts[0], stmts[1:]
        if isinstance(st, ast.Expr) and isinstance(st.value, ast.Constant):
            return self.block(rest, env, ind)
        if isinstance(st, ast.Expr) and isinstance(st.value, ast.Call) and ast.unparse(st.value.func).startswith("logger."):
            return self.block(rest, env, ind)
        if isinstance(st, ast.Raise):
            if st.exc is not None and ast.unparse(st.exc).startswith("ValueError("):
                return f"{pad}.error .valueErr"
            self.fail(st, "raise of something else than ValueError")
        if isinstance(st, ast.Return):
            if st.value is None:
                self.fail(st, "bare return")
            if isinstance(st.value, ast.Tuple):
                parts = [self.expr(x, env) for x in st.value.elts]
                return f"{pad}.ok (" + ", ".join(v for _, v in parts) + ")"
            t, v = self.expr(st.value, env)
            if self.spec.result.startswith("Option"):
                return f"{pad}some {v}"
            return f"{pad}{v}" if self.spec.result in ("K", "Nat", "List K") else f"{pad}.ok {v}"
        if isinstance(st, ast.Assign) and len(st.targets) == 1 and isinstance(st.targets[0], ast.Attribute) \
                and isinstance(st.targets[0].value, ast.Name) and st.targets[0].value.id == "self" \
                and ast.unparse(st.value) == "None" and st.targets[0].attr not in self.spec.result_attrs:
            return self.block(rest, env, ind)              # an attribute outside the modelled result reset to None
        if isinstance(st, ast.Assign) and len(st.targets) == 1 and isinstance(st.targets[0], ast.Attribute) \
                and isinstance(st.targets[0].value, ast.Name) and st.targets[0].value.id == "self":
            # an attribute that is only read back by this function: a local
            t, v = self.expr(st.value, env)
            attr = st.targets[0].attr
            ln = self.fresh("self_" + attr)
            self.local_attrs[attr] = (ln, t)
            return f"{pad}let {ln} : {LEAN_TY[t]} := {v}\n" + self.block(rest, env, ind)
        if isinstance(st, ast.Assign) and len(st.targets) == 1 and isinstance(st.targets[0], ast.Name):
            t, v = self.expr(st.value, env)
            name = st.targets[0].id
            ln = self.fresh(name)
            env2 = dict(env)
            env2[name] = (t, ln)
            return f"{pad}let {ln} : {LEAN_TY[t]} := {v}\n" + self.block(rest, env2, ind)
        if isinstance(st, ast.AugAssign) and isinstance(st.target, ast.Name) and isinstance(st.op, (ast.Sub, ast.Add)):
            fake = ast.BinOp(left=ast.Name(id=st.target.id, ctx=ast.Load()), op=st.op, right=st.value)
            t, v = self.expr(fake, env)
            ln = self.fresh(st.target.id)
            env2 = dict(env)
            env2[st.target.id] = (t, ln)
            return f"{pad}let {ln} : {LEAN_TY[t]} := {v}\n" + self.block(rest, env2, ind)
        if isinstance(st, ast.Assign) and len(st.targets) == 1 and isinstance(st.targets[0], ast.Subscript) \
                and isinstance(st.targets[0].value, ast.Name) and env.get(st.targets[0].value.id, ("",))[0] == VLOG:
            name = st.targets[0].value.id
            sl = ast.unparse(st.targets[0].slice)
            t, v = self.expr(st.value, env)
            if sl == "1:-1" and t == VLOG:
                new = f"(setInner {env[name][1]} {v})"
            elif sl == "-1" and t == LOG:
                new = f"({env[name][1]}.dropLast ++ [{v}])"
            else:
                self.fail(st, "item / slice assignment outside the fragment")
            ln = self.fresh(name)
            env2 = dict(env)
            env2[name] = (VLOG, ln)
            return f"{pad}let {ln} : List K := {new}\n" + self.block(rest, env2, ind)
        if isinstance(st, ast.If) and ast.unparse(st.test) in self.spec.given:
            sha, binds = self.spec.given[ast.unparse(st.test)]
            got = hashlib.sha256(ast.unparse(st).encode()).hexdigest()[:16]
            if got != sha:
                self.fail(st, f"the statement handed to another model changed (sha256 {got}, pinned {sha})")
            env2 = dict(env)
            for py, (ty, ln) in binds.items():
                env2[py] = (ty, ln)
            return self.block(rest, env2, ind)
        if isinstance(st, ast.If):
            test = ast.unparse(st.test)
            # an arm that belongs to another model (declared): dropped, its exact text pinned
            if test in self.spec.delegate:
                body_text = "\n".join(ast.unparse(s) for s in st.body)
                if body_text != self.spec.delegate[test]:
                    self.fail(st, f"the delegated arm changed (expected {self.spec.delegate[test]!r})")
                return self.block(list(st.orelse) + rest, env, ind)
            if self.only_logging(st.body) and not st.orelse:
                return self.block(rest, env, ind)
            # `if not len(v): return 0`
            if (test.startswith("not len(") and len(st.body) == 1 and isinstance(st.body[0], ast.Return) and not st.orelse
                    and isinstance(st.test, ast.UnaryOp) and isinstance(st.test.operand, ast.Call)):
                t, v = self.expr(st.test.operand.args[0], env)
                if t in (VLOG, VLIN) and ast.unparse(st.body[0].value) == "0":
                    return (f"{pad}if {v}.isEmpty then 0 else\n" + self.block(rest, env, ind))
                self.fail(st, "emptiness test outside the fragment")
            # `if x is None: x = e`
            if (isinstance(st.test, ast.Compare) and isinstance(st.test.ops[0], ast.Is) and isinstance(st.test.left, ast.Name)
                    and ast.unparse(st.test.comparators[0]) == "None" and not st.orelse and len(st.body) == 1
                    and isinstance(st.body[0], ast.Assign) and ast.unparse(st.body[0].targets[0]) == st.test.left.id
                    and env.get(st.test.left.id, ("",))[0] == OPTNAT):
                x = st.test.left.id
                t, v = self.expr(st.body[0].value, env)
                if t != NAT:
                    self.fail(st, "default of an optional count is not a count")
                ln = self.fresh(x)
                env2 = dict(env)
                env2[x] = (NAT, ln)
                return f"{pad}let {ln} : Nat := ({env[x][1]}).getD {v}\n" + self.block(rest, env2, ind)
            # the closing `if return_indices: return samples, indices else: return samples`
            if (isinstance(st.test, ast.Name) and env.get(st.test.id, ("",))[0] == BOOL and len(st.body) == 1 and len(st.orelse) == 1
                    and isinstance(st.body[0], ast.Return) and isinstance(st.orelse[0], ast.Return)
                    and isinstance(st.body[0].value, ast.Tuple) and len(st.body[0].value.elts) == 2
                    and ast.unparse(st.body[0].value.elts[0]) == ast.unparse(st.orelse[0].value)):
                return self.block([st.body[0]], env, ind)
            if isinstance(st.test, ast.Compare) and len(st.test.ops) == 1 and isinstance(st.test.ops[0], ast.IsNot) \
                    and ast.unparse(st.test.comparators[0]) == "None" and isinstance(st.test.left, ast.Name) \
                    and st.test.left.id in self.spec.opt_rec_params:
                nm = st.test.left.id
                ln = self.spec.opt_rec_params[nm]
                bound = self.fresh(nm)
                env_some = dict(env)
                env_some[nm] = ("RECPAIR", bound)
                saved = dict(self.local_attrs)
                a = self.block(list(st.body) + rest, env_some, ind + 1)
                self.local_attrs = dict(saved)
                b = self.block(list(st.orelse) + rest, env, ind + 1)
                self.local_attrs = saved
                return f"{pad}match {ln} with\n{pad}| some {bound} =>\n{a}\n{pad}| none =>\n{b}"
            # `if <flag>: … else: …` on a boolean parameter
            if isinstance(st.test, ast.Name) and env.get(st.test.id, ("",))[0] == BOOL:
                saved = dict(self.local_attrs)
                a = self.block(list(st.body) + rest, env, ind + 1)
                self.local_attrs = dict(saved)
                b = self.block(list(st.orelse) + rest, env, ind + 1)
                self.local_attrs = saved
                return f"{pad}if {env[st.test.id][1]} then\n{a}\n{pad}else\n{b}"
            c = self.str_cond(st.test, env)
            if c is not None:
                a = self.block(list(st.body) + rest, env, ind + 1)
                b = self.block(list(st.orelse) + rest, env, ind + 1)
                return f"{pad}if {c} then\n{a}\n{pad}else\n{b}"
            self.fail(st, "`if` outside the fragment")
        self.fail(st, "statement outside the fragment")


def translate(repo, spec: VecSpec) -> Tuple[str, dict]:
    text = (Path(repo) / spec.source).read_text()
    fn = find_function(ast.parse(text), spec.func, spec.cls)
    got = [a.arg for a in fn.args.args]
    want = (["self"] if spec.cls else []) + [p for p, _, _ in spec.params] + list(spec.rec_params) + list(spec.opt_rec_params)
    if got != want or fn.args.vararg or fn.args.kwarg or fn.args.kwonlyargs:
        raise TranslationError(f"{spec.func}: signature {got} differs from the modelled one {want}")
    v = _V(spec)
    v.assigned_somewhere = {t.id for n_ in ast.walk(fn) if isinstance(n_, (ast.Assign, ast.AugAssign))
                            for t in (n_.targets if isinstance(n_, ast.Assign) else [n_.target]) if isinstance(t, ast.Name)}
    env = {}
    for py, ln, ty in spec.params:
        if ln is not None:
            env[py] = (ty, ln)
    body = v.block(list(fn.body), env, 1)
    params = []
    if getattr(spec, "uses_ex", False):
        params.append("(ex : K → K)")
    if spec.uses_int:
        params.append("(intOf : K → Nat)")
    for _, (ln, ty) in spec.self_attrs.items():
        if not ln.startswith("("):                         # a derived attribute (a property written as a term over other binders)
            params.append(f"({ln} : {LEAN_TY[ty]})")
    if getattr(spec, "extra_binders", ""):
        params.append(spec.extra_binders)
    for py, ln, ty in spec.params:
        if ln is not None:
            params.append(f"({ln} : {LEAN_TY[ty]})")
    for _, (a_, b_) in spec.rec_params.items():
        params.append(f"({a_} {b_} : List K)")
    for _, ln in spec.opt_rec_params.items():
        params.append(f"({ln} : Option (List K × List K))")
    if spec.uses_uniforms:
        params.append("(u : List K)")
    seg = ast.get_source_segment(text, fn) or ""
    sha = hashlib.sha256(seg.encode()).hexdigest()[:16]
    lean = (f"/-- GENERATED by harness/pylogvec2lean.py from `{spec.source}`, `{(spec.cls + '.') if spec.cls else ''}{spec.func}` "
            f"(lines {fn.lineno}–{fn.end_lineno}, sha256 {sha}).\n{spec.doc} -/\n"
            f"def {spec.name} {' '.join(params)} : {spec.result} :=\n{body}\n")
    return lean, dict(source=spec.source, lines=[fn.lineno, fn.end_lineno], sha256=sha)
