import NessaiVerif.Model.PyDict
import Mathlib.Tactic.Ring
import Mathlib.Tactic.Push
/-
Lemmas about `PyDict.ofList`: a dictionary with consecutive integer keys behaves like the list of its values.
-/
namespace NessaiVerif.PyDict

variable {V : Type}

@[simp] theorem values_ofList (s : Int) (l : List V) : values (ofList s l) = l := by
  induction l generalizing s with
  | nil => rfl
  | cons v vs ih => simp [ofList, values] at *; exact ih (s + 1)

@[simp] theorem length_ofList (s : Int) (l : List V) : (ofList s l).length = l.length := by
  induction l generalizing s with
  | nil => rfl
  | cons v vs ih => simp [ofList, ih]

theorem map_ofList {W : Type} (f : V → W) (s : Int) (l : List V) :
    (ofList s l).map (fun kv => (kv.1, f kv.2)) = ofList s (l.map f) := by
  induction l generalizing s with
  | nil => rfl
  | cons v vs ih => simp [ofList, ih]

theorem has_ofList (s : Int) (l : List V) (k : Int) :
    has (ofList s l) k = decide (s ≤ k ∧ k < s + l.length) := by
  induction l generalizing s with
  | nil => simp [ofList, has]
  | cons v vs ih =>
    have := ih (s + 1)
    simp only [has] at this
    simp only [ofList, has, List.any_cons, this, List.length_cons]
    by_cases h : s = k
    · subst h; simp
    · have hb : (s == k) = false := by simpa using h
      rw [hb, Bool.false_or, decide_eq_decide]
      constructor
      · intro ⟨h1, h2⟩; constructor <;> omega
      · intro ⟨h1, h2⟩; constructor <;> omega

theorem getD_ofList (s : Int) (l : List V) (i : Nat) (d : V) :
    getD (ofList s l) (s + i) d = l.getD i d := by
  induction l generalizing s i with
  | nil => simp [ofList, getD]
  | cons v vs ih =>
    cases i with
    | zero => simp [ofList, getD]
    | succ i =>
      have e : s + ((i + 1 : Nat) : Int) = s + 1 + (i : Int) := by push_cast; ring
      have hb : (s == s + 1 + (i : Int)) = false := by simp; omega
      have := ih (s + 1) i
      simp only [getD] at this
      rw [e]
      simp only [ofList, getD, List.find?_cons, hb, List.getD_cons_succ]
      exact this

theorem set_ofList_lt (s : Int) (l : List V) (i : Nat) (v : V) (h : i < l.length) :
    set (ofList s l) (s + i) v = ofList s (l.set i v) := by
  induction l generalizing s i with
  | nil => simp at h
  | cons x xs ih =>
    cases i with
    | zero => simp [ofList, set]
    | succ i =>
      have e : s + ((i + 1 : Nat) : Int) = s + 1 + (i : Int) := by push_cast; ring
      have hne : ¬ (s = s + 1 + (i : Int)) := by omega
      rw [e]
      simp only [ofList, set, List.set_cons_succ]
      rw [if_neg hne, ih (s + 1) i (by simpa using h)]

theorem set_ofList_eq (s : Int) (l : List V) (v : V) :
    set (ofList s l) (s + l.length) v = ofList s (l ++ [v]) := by
  induction l generalizing s with
  | nil => simp [ofList, set]
  | cons x xs ih =>
    have e : s + (((x :: xs).length : Nat) : Int) = s + 1 + (xs.length : Int) := by simp; ring
    have hne : ¬ (s = s + 1 + (xs.length : Int)) := by omega
    rw [e]
    simp only [ofList, set, List.cons_append]
    rw [if_neg hne, ih (s + 1)]

/-- updating with a dictionary whose keys extend the present ones replaces every value -/
theorem update_ofList (s : Int) (l l' : List V) (h : l.length ≤ l'.length) :
    update (ofList s l) (ofList s l') = ofList s l' := by
  -- generalised: after the first `i` entries the dictionary is `take i l' ++ drop i l`
  have key : ∀ (n i : Nat), n = l'.length - i → i ≤ l'.length →
      (ofList (s + i) (l'.drop i)).foldl (fun acc kv => set acc kv.1 kv.2) (ofList s (l'.take i ++ l.drop i)) = ofList s l' := by
    intro n
    induction n with
    | zero =>
      intro i hn hi
      have : i = l'.length := by omega
      subst this
      have hl : l.drop l'.length = [] := List.drop_eq_nil_of_le h
      simp [hl, ofList]
    | succ n ih =>
      intro i hn hi
      have hi' : i < l'.length := by omega
      rw [List.drop_eq_getElem_cons hi']
      simp only [ofList, List.foldl_cons]
      have step : set (ofList s (l'.take i ++ l.drop i)) (s + i) l'[i] = ofList s (l'.take (i + 1) ++ l.drop (i + 1)) := by
        by_cases hil : i < l.length
        · have hlen : i < (l'.take i ++ l.drop i).length := by simp; omega
          rw [set_ofList_lt s _ i _ hlen]
          congr 1
          have htl : (l'.take i).length = i := by simp; omega
          rw [List.set_append_right _ _ (by omega), htl, Nat.sub_self, List.drop_eq_getElem_cons hil, List.set_cons_zero,
            List.take_succ_eq_append_getElem hi', List.append_assoc]
          rfl
        · have hd : l.drop i = [] := List.drop_eq_nil_of_le (by omega)
          have hd' : l.drop (i + 1) = [] := List.drop_eq_nil_of_le (by omega)
          have hlen : (l'.take i).length = i := by simp; omega
          rw [hd, hd', List.append_nil, List.append_nil]
          have := set_ofList_eq s (l'.take i) l'[i]
          rw [hlen] at this
          rw [this, List.take_succ_eq_append_getElem hi']
      rw [step]
      have e : s + (i : Int) + 1 = s + ((i + 1 : Nat) : Int) := by push_cast; ring
      rw [e]
      exact ih (i + 1) (by omega) (by omega)
  have := key l'.length 0 (by simp) (by simp)
  simpa [update] using this

end NessaiVerif.PyDict
