import NessaiVerif.Driver.Parse
import NessaiVerif.Driver.Quad
import NessaiVerif.Model.Results
import NessaiVerif.Gen.Results
/-
Line protocol of the C05 models (area token `res`).

  res ns <pts:[int,..]> <cmd>;<cmd>;…
      the standard sampler's bookkeeping at `K := Int` (log-likelihoods arrive as the order-preserving
      integer code of their float64 bit pattern: the model only compares them)
        c[<int>,..]                            one `consume_sample` with this candidate stream
        loop:<maxIt|none>:<0|1>:[[<int>,..]:<0|1>,…]   one `nested_sampling_loop` (cap, test now, steps)
      → ok it=<n> fin=<0|1> nlive=<n> nested=[L:it,..] live=none|[L:it,..] logLs=[none|L,..] ns=[..] births=[none|L|err,..]
      → err=<index|shape|starved|scriptEnd>@<cmd index>
  res ins <ws:[num,..]>
      `_INSIntegralState` at `K := Rat` on the linear-domain weights `exp(logL+logW)`
      → ok n=<N> Z=<dy> W=[<dy>,..] var=<dy> relvar=<dy>      (dyadics rounded as in the `quad` driver)
      → err=empty
  res tab <std|ins> <result|exposed> <iid:0|1> <hasFinal:0|1> <key>
      the translated table entry, conditionals resolved under the configuration, as JSON
      → ok <json> | err=nokey
  res keys <std|ins> <result|exposed>   → [key,..]
  res same <std|ins> <iid> <hasFinal> <result key> <exposed key>  → 1 | 0
-/
namespace NessaiVerif.Driver.Results
open NessaiVerif NessaiVerif.Parse NessaiVerif.Results

def showErr : Err → String
  | .indexErr => "index"
  | .shapeErr => "shape"
  | .starved => "starved"
  | .scriptEnd => "scriptEnd"

def showPt (p : Pt Int) : String := s!"{p.logL}:{p.it}"

def showNS (s : NS Int) : String :=
  let births := s.births.map fun b =>
    match b with
    | none => "err"
    | some none => "none"
    | some (some x) => toString x
  s!"ok it={s.iteration} fin={showBool s.finalised} nlive={s.nlive} nested={showList showPt s.nested} " ++
  s!"live={showOpt (showList showPt) s.live} logLs={showList (showOpt toString) s.logLs} " ++
  s!"ns={showList toString s.nliveSeen} births={showList id births}"

/-- `[c,..]:b` -/
def parseStep? (s : String) : Option (List Int × Bool) :=
  match splitTop s ':' with
  | [l, b] => do
      let l ← parseList? parseInt? l
      let b ← parseBool? b
      some (l, b)
  | _ => none

inductive Cmd
  | consume (stream : List Int)
  | loop (maxIt : Option Nat) (below : Bool) (steps : List (List Int × Bool))

def parseCmd? (s : String) : Option Cmd :=
  if s.startsWith "c[" then (parseList? parseInt? (s.drop 1).toString).map Cmd.consume
  else
    match splitTop s ':' with
    | ["loop", m, b, steps] => do
        let m ← parseOpt? parseNat? m
        let b ← parseBool? b
        let steps ← parseList? parseStep? steps
        some (Cmd.loop m b steps)
    | _ => none

def runCmds : NS Int → List Cmd → Nat → Except (Err × Nat) (NS Int)
  | s, [], _ => .ok s
  | s, c :: cs, i =>
    let r := match c with
      | .consume stream => consume s stream
      | .loop m b steps => nestedSamplingLoop m s b steps
    match r with
    | .error e => .error (e, i)
    | .ok s' => runCmds s' cs (i + 1)

def jsonStr (s : String) : String :=
  "\"" ++ String.join (s.toList.map fun c =>
    if c == '"' then "\\\"" else if c == '\\' then "\\\\" else String.singleton c) ++ "\""

def jsonE : E → String
  | .root => "[\"root\"]"
  | .none => "[\"none\"]"
  | .attr e n => s!"[\"attr\",{jsonE e},{jsonStr n}]"
  | .app f e => s!"[\"app\",{jsonStr f},{jsonE e}]"
  | .ite c t e => s!"[\"ite\",{jsonE c},{jsonE t},{jsonE e}]"
  | .notNone e => s!"[\"notNone\",{jsonE e}]"
  | .opaque s => s!"[\"opaque\",{jsonStr s}]"

def table? (sampler which : String) : Option (List (String × E)) :=
  match sampler, which with
  | "std", "result" => some Gen.Results.stdResult
  | "std", "exposed" => some Gen.Results.stdExposed
  | "ins", "result" => some Gen.Results.insResult
  | "ins", "exposed" => some Gen.Results.insExposed
  | _, _ => none

def handle (toks : List String) : String :=
  match toks with
  | ["ns", pts, cmds] =>
    match parseList? parseInt? pts, (splitTop cmds ';').mapM parseCmd? with
    | some pts, some cmds =>
      match runCmds (populate pts) cmds 0 with
      | .ok s => showNS s
      | .error (e, i) => s!"err={showErr e}@{i}"
    | _, _ => "bad-op"
  | ["ns", pts] =>
    match parseList? parseInt? pts with
    | some pts => showNS (populate pts)
    | none => "bad-op"
  | ["ins", ws] =>
    match parseList? Quad.parseNum? ws with
    | some ws =>
      if ws.isEmpty then "err=empty" else
      s!"ok n={ws.length} Z={Quad.showDy (insZ ws)} W={showList Quad.showDy (insPostW ws)} " ++
      s!"var={Quad.showDy (insVar ws)} relvar={Quad.showDy (insRelVar ws)}"
    | none => "bad-op"
  | ["tab", sampler, which, iid, fin, key] =>
    match table? sampler which, parseBool? iid, parseBool? fin with
    | some t, some iid, some fin =>
      match lookup t key with
      | some e => "ok " ++ jsonE (eval ⟨iid, fin⟩ e)
      | none => "err=nokey"
    | _, _, _ => "bad-op"
  | ["keys", sampler, which] =>
    match table? sampler which with
    | some t => showList id (t.map (·.1))
    | none => "bad-op"
  | ["same", sampler, iid, fin, k1, k2] =>
    match table? sampler "result", table? sampler "exposed", parseBool? iid, parseBool? fin with
    | some r, some x, some iid, some fin =>
      match lookup r k1, lookup x k2 with
      | some a, some b => showBool (eval ⟨iid, fin⟩ a == eval ⟨iid, fin⟩ b && eval ⟨iid, fin⟩ a != E.none)
      | _, _ => "err=nokey"
    | _, _, _, _ => "bad-op"
  | _ => "bad-op"

end NessaiVerif.Driver.Results
