import NessaiVerif.Proofs.ReparamRtb
/-
C07 — `determine_rescaled_bounds` (as called by `update_prime_prior_bounds`) is the image of the pre-rescaled prior
interval under the core step of `reparameterise`, in every inversion case the code handles consistently.
-/
namespace NessaiVerif.Reparam

variable {K : Type} [Field K] [LinearOrder K] [IsStrictOrderedRing K]

omit [Field K] [IsStrictOrderedRing K] in
theorem inUniformSupport_iff' (x lo hi : K) : inUniformSupport x lo hi = true ↔ lo ≤ x ∧ x ≤ hi := by
  unfold inUniformSupport; simp

/-- `pre_prior_bounds[p]` -/
def Rtb.P0 (r : Rtb K) : K := (r.preF r.p0).1
def Rtb.P1 (r : Rtb K) : K := (r.preF r.p1).1

/-- `[lo, hi]` is exactly the set of values the core step takes on `[P0, P1]` (over both sign choices) -/
def IsImage (r : Rtb K) (lo hi : K) : Prop :=
  (∀ y neg, r.P0 ≤ y → y ≤ r.P1 → lo ≤ (rtbCore r neg y).1 ∧ (rtbCore r neg y).1 ≤ hi) ∧
  (∀ v, lo ≤ v → v ≤ hi → ∃ y neg, r.P0 ≤ y ∧ y ≤ r.P1 ∧ (rtbCore r neg y).1 = v)

theorem primeBounds_eq (r : Rtb K) (h : r.hasPrimePrior = true) :
    rtbPrimeBounds r = some (determineRescaledBounds r.P0 r.P1 r.b0 r.b1
      (if r.inversion.isSome then r.edge else .unset) r.inversion.isSome r.offset r.r0 r.r1) := by
  unfold rtbPrimeBounds Rtb.P0 Rtb.P1; simp [h]

/-- no inversion configured: any bounds (before or after `update`), any target interval with `r0 < r1` -/
theorem image_plain (r : Rtb K) (hp : r.hasPrimePrior = true) (hinv : r.inversion = none)
    (hb : r.b0 < r.b1) (hr : r.r0 < r.r1) :
    ∃ lo hi, rtbPrimeBounds r = some (some (lo, hi)) ∧ IsImage r lo hi := by
  have hpos : 0 < r.b1 - r.b0 := sub_pos.mpr hb
  have hne : r.b1 - r.b0 ≠ 0 := ne_of_gt hpos
  have hfac : r.factor = r.r1 - r.r0 := by unfold Rtb.factor; exact ptp_of_le hr.le
  have hfpos : 0 < r.r1 - r.r0 := sub_pos.mpr hr
  have hbne : ¬ r.b0 = r.b1 := ne_of_lt hb
  refine ⟨(r.r1 - r.r0) * (r.P0 - r.offset - r.b0) / (r.b1 - r.b0) + r.r0,
          (r.r1 - r.r0) * (r.P1 - r.offset - r.b0) / (r.b1 - r.b0) + r.r0, ?_, ?_, ?_⟩
  · rw [primeBounds_eq r hp]; simp [determineRescaledBounds, hinv, hbne]
  · intro y neg h0 h1
    simp only [rtbCore, hinv, hfac, Rtb.shift]
    have e : ∀ t : K, (r.r1 - r.r0) * ((t - r.offset - r.b0) / (r.b1 - r.b0)) = (r.r1 - r.r0) * (t - r.offset - r.b0) / (r.b1 - r.b0) :=
      fun t => by ring
    rw [e y]
    constructor
    · have : (r.r1 - r.r0) * (r.P0 - r.offset - r.b0) / (r.b1 - r.b0) ≤ (r.r1 - r.r0) * (y - r.offset - r.b0) / (r.b1 - r.b0) := by
        apply div_le_div_of_nonneg_right _ hpos.le
        apply mul_le_mul_of_nonneg_left _ hfpos.le
        linarith
      linarith
    · have : (r.r1 - r.r0) * (y - r.offset - r.b0) / (r.b1 - r.b0) ≤ (r.r1 - r.r0) * (r.P1 - r.offset - r.b0) / (r.b1 - r.b0) := by
        apply div_le_div_of_nonneg_right _ hpos.le
        apply mul_le_mul_of_nonneg_left _ hfpos.le
        linarith
      linarith
  · intro v hlo hhi
    refine ⟨(v - r.r0) * (r.b1 - r.b0) / (r.r1 - r.r0) + r.offset + r.b0, false, ?_, ?_, ?_⟩
    · have h1 : (r.r1 - r.r0) * (r.P0 - r.offset - r.b0) / (r.b1 - r.b0) ≤ v - r.r0 := by linarith
      rw [div_le_iff₀ hpos] at h1
      have h2 : r.P0 - r.offset - r.b0 ≤ (v - r.r0) * (r.b1 - r.b0) / (r.r1 - r.r0) := by
        rw [le_div_iff₀ hfpos]; linarith
      linarith
    · have h1 : v - r.r0 ≤ (r.r1 - r.r0) * (r.P1 - r.offset - r.b0) / (r.b1 - r.b0) := by linarith
      rw [le_div_iff₀ hpos] at h1
      have h2 : (v - r.r0) * (r.b1 - r.b0) / (r.r1 - r.r0) ≤ r.P1 - r.offset - r.b0 := by
        rw [div_le_iff₀ hfpos]; linarith
      linarith
    · simp only [rtbCore, hinv, hfac, Rtb.shift]
      have : r.r1 - r.r0 ≠ 0 := ne_of_gt hfpos
      field_simp; ring


/-- inversion configured but the edge decision is "no inversion" (`False`) or still `None`: the code falls back to
`rescale_minus_one_to_one` and the bounds are `2·lower − 1, 2·upper − 1`; any bounds, before or after `update` -/
theorem image_inversion_off (r : Rtb K) (hp : r.hasPrimePrior = true) (t : InvType) (hinv : r.inversion = some t)
    (he : r.edge = .unset ∨ r.edge = .off) (hb : r.b0 < r.b1) :
    ∃ lo hi, rtbPrimeBounds r = some (some (lo, hi)) ∧ IsImage r lo hi := by
  have hpos : 0 < r.b1 - r.b0 := sub_pos.mpr hb
  have hne : r.b1 - r.b0 ≠ 0 := ne_of_gt hpos
  have hbne : ¬ r.b0 = r.b1 := ne_of_lt hb
  refine ⟨2 * ((r.P0 - r.offset - r.b0) / (r.b1 - r.b0)) - 1, 2 * ((r.P1 - r.offset - r.b0) / (r.b1 - r.b0)) - 1, ?_, ?_, ?_⟩
  · rw [primeBounds_eq r hp]
    rcases he with he | he <;> simp [determineRescaledBounds, hinv, hbne, he, two_eq]
  · intro y neg h0 h1
    have hc : (rtbCore r neg y).1 = 2 * ((y - r.offset - r.b0) / (r.b1 - r.b0)) - 1 := by
      rcases he with he | he <;> simp only [rtbCore, hinv, he, rescaleMinusOneToOne, two_eq] <;> ring
    rw [hc]
    constructor
    · have : (r.P0 - r.offset - r.b0) / (r.b1 - r.b0) ≤ (y - r.offset - r.b0) / (r.b1 - r.b0) :=
        div_le_div_of_nonneg_right (by linarith) hpos.le
      linarith
    · have : (y - r.offset - r.b0) / (r.b1 - r.b0) ≤ (r.P1 - r.offset - r.b0) / (r.b1 - r.b0) :=
        div_le_div_of_nonneg_right (by linarith) hpos.le
      linarith
  · intro v hlo hhi
    refine ⟨(v + 1) / 2 * (r.b1 - r.b0) + r.offset + r.b0, false, ?_, ?_, ?_⟩
    · have h1 : (r.P0 - r.offset - r.b0) / (r.b1 - r.b0) ≤ (v + 1) / 2 := by linarith
      rw [div_le_iff₀ hpos] at h1; linarith
    · have h1 : (v + 1) / 2 ≤ (r.P1 - r.offset - r.b0) / (r.b1 - r.b0) := by linarith
      rw [le_div_iff₀ hpos] at h1; linarith
    · have hc : (rtbCore r false ((v + 1) / 2 * (r.b1 - r.b0) + r.offset + r.b0)).1 =
          2 * (((v + 1) / 2 * (r.b1 - r.b0) + r.offset + r.b0 - r.offset - r.b0) / (r.b1 - r.b0)) - 1 := by
        rcases he with he | he <;> simp only [rtbCore, hinv, he, rescaleMinusOneToOne, two_eq] <;> ring
      rw [hc]; field_simp; ring

/-- reflection about the lower edge, with the lower prior bound sitting on the edge (`P0 − offset = b0`, true before any
`update`): the values `±u`, `u ∈ [0, upper]`, fill `[−upper, upper]` -/
theorem image_lower (r : Rtb K) (hp : r.hasPrimePrior = true) (t : InvType) (hinv : r.inversion = some t)
    (he : r.edge = .lower) (hb : r.b0 < r.b1) (hedge : r.P0 - r.offset = r.b0) :
    ∃ lo hi, rtbPrimeBounds r = some (some (lo, hi)) ∧ IsImage r lo hi := by
  have hpos : 0 < r.b1 - r.b0 := sub_pos.mpr hb
  have hne : r.b1 - r.b0 ≠ 0 := ne_of_gt hpos
  have hbne : ¬ r.b0 = r.b1 := ne_of_lt hb
  have hc : ∀ neg y, (rtbCore r neg y).1 = if neg = true then -((y - r.offset - r.b0) / (r.b1 - r.b0)) else (y - r.offset - r.b0) / (r.b1 - r.b0) := by
    intro neg y; simp only [rtbCore, hinv, he, rescaleZeroToOne, reduceCtorEq, if_false]
  refine ⟨-((r.P1 - r.offset - r.b0) / (r.b1 - r.b0)), (r.P1 - r.offset - r.b0) / (r.b1 - r.b0), ?_, ?_, ?_⟩
  · rw [primeBounds_eq r hp]; simp [determineRescaledBounds, hinv, hbne, he]
  · intro y neg h0 h1
    have hu0 : 0 ≤ (y - r.offset - r.b0) / (r.b1 - r.b0) := div_nonneg (by linarith) hpos.le
    have hu1 : (y - r.offset - r.b0) / (r.b1 - r.b0) ≤ (r.P1 - r.offset - r.b0) / (r.b1 - r.b0) :=
      div_le_div_of_nonneg_right (by linarith) hpos.le
    rw [hc]; cases neg <;> simp <;> constructor <;> linarith
  · intro v hlo hhi
    rcases le_total 0 v with hv | hv
    · refine ⟨v * (r.b1 - r.b0) + r.offset + r.b0, false, ?_, ?_, ?_⟩
      · have : 0 ≤ v * (r.b1 - r.b0) := mul_nonneg hv hpos.le
        linarith
      · rw [le_div_iff₀ hpos] at hhi; linarith
      · rw [hc]; simp; field_simp; ring
    · refine ⟨-v * (r.b1 - r.b0) + r.offset + r.b0, true, ?_, ?_, ?_⟩
      · have : 0 ≤ -v * (r.b1 - r.b0) := mul_nonneg (by linarith) hpos.le
        linarith
      · have h1 : -v ≤ (r.P1 - r.offset - r.b0) / (r.b1 - r.b0) := by linarith
        rw [le_div_iff₀ hpos] at h1; linarith
      · rw [hc]; simp; field_simp; ring

/-- reflection about the upper edge, with the upper prior bound sitting on the edge (`P1 − offset = b1`) -/
theorem image_upper (r : Rtb K) (hp : r.hasPrimePrior = true) (t : InvType) (hinv : r.inversion = some t)
    (he : r.edge = .upper) (hb : r.b0 < r.b1) (hedge : r.P1 - r.offset = r.b1) :
    ∃ lo hi, rtbPrimeBounds r = some (some (lo, hi)) ∧ IsImage r lo hi := by
  have hpos : 0 < r.b1 - r.b0 := sub_pos.mpr hb
  have hne : r.b1 - r.b0 ≠ 0 := ne_of_gt hpos
  have hbne : ¬ r.b0 = r.b1 := ne_of_lt hb
  have hc : ∀ neg y, (rtbCore r neg y).1 = if neg = true then -(1 - (y - r.offset - r.b0) / (r.b1 - r.b0)) else 1 - (y - r.offset - r.b0) / (r.b1 - r.b0) := by
    intro neg y; simp only [rtbCore, hinv, he, rescaleZeroToOne, if_true]
  have hone : (r.P1 - r.offset - r.b0) / (r.b1 - r.b0) = 1 := by rw [hedge]; exact div_self hne
  refine ⟨(r.P0 - r.offset - r.b0) / (r.b1 - r.b0) - 1, 1 - (r.P0 - r.offset - r.b0) / (r.b1 - r.b0), ?_, ?_, ?_⟩
  · rw [primeBounds_eq r hp]; simp [determineRescaledBounds, hinv, hbne, he]
  · intro y neg h0 h1
    have hu0 : (r.P0 - r.offset - r.b0) / (r.b1 - r.b0) ≤ (y - r.offset - r.b0) / (r.b1 - r.b0) :=
      div_le_div_of_nonneg_right (by linarith) hpos.le
    have hu1 : (y - r.offset - r.b0) / (r.b1 - r.b0) ≤ 1 := by
      rw [← hone]; exact div_le_div_of_nonneg_right (by linarith) hpos.le
    rw [hc]; cases neg <;> simp <;> constructor <;> linarith
  · intro v hlo hhi
    rcases le_total 0 v with hv | hv
    · refine ⟨(1 - v) * (r.b1 - r.b0) + r.offset + r.b0, false, ?_, ?_, ?_⟩
      · have h1 : (r.P0 - r.offset - r.b0) / (r.b1 - r.b0) ≤ 1 - v := by linarith
        rw [div_le_iff₀ hpos] at h1; linarith
      · have : v * (r.b1 - r.b0) ≥ 0 := mul_nonneg hv hpos.le
        nlinarith
      · rw [hc]; simp; field_simp; ring
    · refine ⟨(1 + v) * (r.b1 - r.b0) + r.offset + r.b0, true, ?_, ?_, ?_⟩
      · have h1 : (r.P0 - r.offset - r.b0) / (r.b1 - r.b0) ≤ 1 + v := by linarith
        rw [div_le_iff₀ hpos] at h1; linarith
      · have : -v * (r.b1 - r.b0) ≥ 0 := mul_nonneg (by linarith) hpos.le
        nlinarith
      · rw [hc]; simp; field_simp; ring

/-- **prime prior = prior / J up to a constant** for the affine family: with a uniform original prior of density `c` on the
box and no hooks, the Jacobian factor is one positive constant, so `prior / J` is constant on the image; the offered prime
prior (`log_uniform_prior`, value 1 on the stored bounds) equals `k · c / J(x)` at the image of every prior point, with one
constant `k` for all points and sign bits. -/
theorem prime_prior_value (r : Rtb K) (lo hi : K) (himg : IsImage r lo hi) (hb : r.b0 < r.b1) (hf : r.FactorOK)
    (hpre : r.pre = none) (hpost : r.post = none) (c : K) (hc : c ≠ 0) :
    ∃ k : K, ∀ x neg, r.p0 ≤ x → x ≤ r.p1 →
      uniformPriorFactor (rtbFwd r neg x).1 lo hi = k * (c / (rtbFwd r neg x).2) := by
  have hJ0 : 0 < (rtbCore r false 0).2 := rtbCore_jac_pos r false 0 hb hf
  refine ⟨(rtbCore r false 0).2 / c, fun x neg h0 h1 => ?_⟩
  have hP0 : r.P0 = r.p0 := by unfold Rtb.P0 Rtb.preF; rw [hpre]
  have hP1 : r.P1 = r.p1 := by unfold Rtb.P1 Rtb.preF; rw [hpre]
  have hfwd : rtbFwd r neg x = ((rtbCore r neg x).1, 1 * (rtbCore r neg x).2 * 1) := by
    unfold rtbFwd Rtb.preF Rtb.postF; rw [hpre, hpost]
  have hin := himg.1 x neg (by rw [hP0]; exact h0) (by rw [hP1]; exact h1)
  rw [hfwd]
  simp only [one_mul, mul_one]
  have hs : inUniformSupport (rtbCore r neg x).1 lo hi = true := (inUniformSupport_iff' _ _ _).mpr hin
  unfold uniformPriorFactor
  rw [hs, rtbCore_jac_neg r neg x 0]
  have : (rtbCore r false 0).2 ≠ 0 := ne_of_gt hJ0
  simp only [if_true]
  field_simp

omit [Field K] [IsStrictOrderedRing K] in
theorem inUniformSupport_iff (x lo hi : K) : inUniformSupport x lo hi = true ↔ lo ≤ x ∧ x ≤ hi := by
  unfold inUniformSupport; simp

end NessaiVerif.Reparam
