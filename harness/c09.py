"""C09 — proposal pools follow the prior inside the contour and never leave the prior (partial: not the distribution)."""
import contextlib
from . import core  # noqa: E402
import logging
import math
import shutil
import tempfile
import time
from fractions import Fraction
from unittest import mock

import numpy as np

PROPS_MODULE = "NessaiVerif.Props.C09"
MANIFEST = dict(
    text="PARTIAL: the statistical clause (the pool is distributed as the prior restricted to the latent contour) is NOT "
         "claimed as a statement about frequencies; its deterministic core is proved (any ordered field / R): the code's log-space "
         "acceptance test is u < w/w_max, the accepted uniforms are the initial interval [0, w/w_max) of [0,1) and the accepted "
         "mass at a point is q*(p/q)/w_max = p/w_max, the same multiple of the prior everywhere - false for any other normaliser "
         "(accepted_mass_fails_with_other_normaliser); assuming uniform np.random.rand. The enlarged search (and the thorough "
         "tier) tests real rejection pools with an exact-binomial box test. SOURCE TIE: the acceptance step of "
         "RejectionProposal.populate (normalisation by np.nanmax, log-uniforms, np.where((log_w - log_u) >= 0), x[indices]) is "
         "regenerated literally, in the model's NaN/inf arithmetic, from the current source on every run (harness/c09_tx.py -> "
         "Gen/PoolTx.lean) and rejection_accept_source_eq_model proves it selects exactly the pool of populateRejection; the plain arm of the while-loop of FlowProposal.populate (normalisation, uniforms, accept mask, count, slice write, counter) is translated too and plain_batch_step_source_eq_model proves it equal to the step of the model's plainLoop; one batch of the accumulating arm (accumulate_weights=True) likewise (acc_batch_step_source_eq_model = the step of accLoop, the transcendental gate being an input). Lean theorems over a bookkeeping model of the pool code — candidate batches, in-bounds flags, "
         "log-densities, log-uniforms, gate decisions and permutation keys are arbitrary inputs, floats carry NaN/±inf "
         "semantics — for all batch counts/sizes and op sequences: check_prior_bounds keeps exactly the in-bounds rows and "
         "every flow-pool point passed it (backward_pass(rescale=True); the x-prime-prior branch is not modelled); the plain loop of FlowProposal.populate writes exactly N points, every slot once, "
         "in order; the accumulating loop gives exactly N unless left through the max_samples break (counter-example "
         "proved: short and even empty pool), never more; prior-rejection pools hold at most N; the fill loops of "
         "Model._multiple_new_points / INS populate_live_points fill all N slots with finite-prior points; "
         "ImportanceFlowProposal.draw returns n points inside the unit hypercube with finite prior; accept <=> log u < "
         "log w - log w_max in the code's form, hence a point with -inf/NaN prior is never accepted; every likelihood "
         "argument of the populate paths is in bounds with a usable prior; draw never hands out an index twice between "
         "populations and always from the latest pool; radial truncation ||p x/|x| ||^2 = p^2 <= (r fuzz)^2 for a monotone "
         "chi ppf/cdf (any ordered field, Mathlib). Tied on every run by driving the REAL FlowProposal and "
         "AugmentedFlowProposal (marginalised and default mode; populate + draw, plain and accumulating branch, log-q "
         "truncation, max_samples), RejectionProposal and AnalyticProposal objects on a real 2-d Model with a dyadic prior "
         "table, and ImportanceFlowProposal.draw + draw_n_samples / ImportanceNestedSampler.populate_live_points / "
         "Model._multiple_new_points (unbound methods on light stand-ins where a full sampler is not needed) with a "
         "scripted flow, scripted uniforms and a scripted permutation against the Lean driver: pool ids, likelihood-call "
         "ids, handout order, counters. Oracle on the real outputs: in bounds, logP finite and equal to the model's prior, "
         "logL equal to the model's likelihood, exact size, no index twice, likelihood never called outside the support — "
         "also in complete short real runs of the standard sampler (flow / augmented / accumulating / truncated / n-ball "
         "latent priors, prior with a hole) and the importance sampler, and the norms of the real radially truncated "
         "latent draws.",
    note="Assumed: np.random.permutation returns a permutation, np.random.rand lies in [0,1), SciPy chi cdf/ppf monotone and "
         "mutually inverse (radial bound checked on the real functions under a 1e-9 tolerance). The gate decisions of the "
         "accumulating branch (logsumexp >= log N) are observed from the implementation and are inputs of the model (the "
         "theorems hold for every gate sequence). Default-mode augmented sessions use uniforms at least 1e-6 away (in log) "
         "from the dyadic decision lattice because the Gaussian augment prior is not dyadic (it cancels in log w - log "
         "w_max). NOT MODELLED and not driven: the x-prime-prior branch (use_x_prime_prior, GW reparameterisations), where populate calls "
         "backward_pass(rescale=False) and the bounds are not checked there — pool_in_bounds / "
         "likelihood_args_in_support are stated for the rescale=True branch only "
         "(backward_pass_without_rescale_keeps_out_of_bounds shows the difference); flow densities themselves are C08. Model.in_bounds "
         "treats NaN coordinates as inside; NaN coordinates are outside the generated domain.",
    technique="Lean 4 proof (loop invariants by induction over batch / op sequences) + source-to-Lean translation of the "
              "acceptance step of RejectionProposal.populate re-proved equal to the model on every run + scripted-flow differential "
              "correspondence with the real proposal classes + oracle on real runs",
    ref="5/C09")

OUT_SENTINEL = 999999
# Before fix c6b6530 FlowProposal.backward_pass dropped rows with a non-finite log_prob from x / log_prob but not from z
# and then indexed z with the shorter mask: IndexError in populate.  The Lean model keeps that behaviour behind a switch
# (strictZ, theorems flow_population_aborts / flow_population_completes); the fixed code is driven with strictZ = 0 and
# the oracle REQUIRES that such rows are simply dropped (a regression is reported under KEY_Z with the failing input).
FLOW_STRICT_Z = False
KEY_Z = "FlowProposal.backward_pass:discard_nans:z-not-filtered"
KEY_MAXS = "FlowProposal.populate:accumulate_weights:max_samples-break"


FLOW_KINDS = ("flow", "aug", "augd")   # FlowProposal, AugmentedFlowProposal marginalised / default mode


class ScriptExhausted(Exception):
    pass


# ----------------------------------------------------------------------------------------------- values

def ev_tok(v):
    """exact token of a float64 for the Lean driver"""
    v = float(v)
    if math.isnan(v):
        return "nan"
    if math.isinf(v):
        return "inf" if v > 0 else "-inf"
    f = Fraction(v)
    return str(f.numerator) if f.denominator == 1 else f"{f.numerator}/{f.denominator}"


def b01(b):
    return "1" if b else "0"


X_LO, X_HI, Y_LO, Y_HI = 0.0, 1.0, -0.5, 0.5


def x_in(i):
    return (2 * i + 1) / 2048.0


def y_in(i):
    return (2 * i - 1023) / 2048.0


POS = {
    "in": lambda i: (x_in(i), y_in(i)),
    "edge_x0": lambda i: (0.0, y_in(i)),
    "edge_x1": lambda i: (1.0, y_in(i)),
    "edge_y0": lambda i: (x_in(i), -0.5),
    "edge_y1": lambda i: (x_in(i), 0.5),
    "out_xlo": lambda i: (x_in(i) - 1.0, y_in(i)),
    "out_xhi": lambda i: (x_in(i) + 1.0, y_in(i)),
    "out_ylo": lambda i: (x_in(i), y_in(i) - 1.0),
    "out_yhi": lambda i: (x_in(i), y_in(i) + 1.0),
    "just_xlo": lambda i: (-2.0 ** -30, y_in(i)),
    "just_xhi": lambda i: (1.0 + 2.0 ** -30, y_in(i)),
    "just_yhi": lambda i: (x_in(i), 0.5 + 2.0 ** -30),
    "both_out": lambda i: (x_in(i) + 2.0, y_in(i) - 2.0),
}
IN_POS = ["in", "edge_x0", "edge_x1", "edge_y0", "edge_y1"]
OUT_POS = [k for k in POS if k not in IN_POS]


def ref_in_bounds(x, y):
    """the property's notion: inside the closed prior box"""
    return (X_LO <= x <= X_HI) and (Y_LO <= y <= Y_HI)


def make_model():
    from nessai.model import Model

    class PM(Model):
        """2-d model: box prior on dyadic bounds with a table of dyadic log-prior values (default 0 inside, -inf outside),
        exactly rounded likelihood; records every likelihood argument"""

        def __init__(self):
            self.names = ["x", "y"]
            self.bounds = {"x": [X_LO, X_HI], "y": [Y_LO, Y_HI]}
            self.table = {}
            self.ll_args = []

        def prior_of(self, x, y):
            if (x, y) in self.table:
                return self.table[(x, y)]
            return 0.0 if ref_in_bounds(x, y) else -np.inf

        def log_prior(self, x):
            xs, ys = np.atleast_1d(x["x"]), np.atleast_1d(x["y"])
            out = np.array([self.prior_of(float(a), float(b)) for a, b in zip(xs, ys)], dtype=float)
            return out if np.ndim(x["x"]) else float(out[0])

        @staticmethod
        def ll_of(x, y):
            return x * 3.0 - 7.0 + y

        def log_likelihood(self, x):
            xs, ys = np.atleast_1d(x["x"]), np.atleast_1d(x["y"])
            self.ll_args.append([(float(a), float(b)) for a, b in zip(xs, ys)])
            out = xs * 3.0 - 7.0 + ys
            return out if np.ndim(x["x"]) else float(out[0])

        def to_unit_hypercube(self, x):
            y = x.copy()
            y["y"] = x["y"] + 0.5
            return y

        def from_unit_hypercube(self, x):
            y = x.copy()
            y["y"] = x["y"] - 0.5
            return y

    m = PM()
    # no vectorisation probes (they evaluate prior/likelihood on Model.new_point() draws, which the scripts replace)
    m.vectorised_likelihood = True
    m.vectorised_prior = True
    m.vectorised_prior_unit_hypercube = True
    return m


# ----------------------------------------------------------------------------------------------- scripts

class Cand:
    __slots__ = ("id", "pos", "x", "y", "lq", "lp", "inb")

    def __init__(self, id_, pos, lq, lp=None):
        self.id, self.pos, self.lq = id_, pos, float(lq)
        self.x, self.y = POS[pos](id_)
        self.inb = ref_in_bounds(self.x, self.y)
        self.lp = lp  # None = table default

    def prior(self):
        if self.lp is not None:
            return float(self.lp)
        return 0.0 if self.inb else -np.inf

    def tok(self):
        return f"{self.id}:{b01(self.inb)}:{ev_tok(self.lq)}:{ev_tok(self.prior())}"

    def js(self):
        return [self.id, self.pos, self.lq, self.lp]


def cand_from_js(j):
    return Cand(j[0], j[1], j[2], j[3])


LQ_OK = [0.0, 0.0, -1.0, 1.5, -3.0, 0.5, 2.0]
LQ_BAD = [np.inf, -np.inf, np.nan]
LP_FIN = [None, None, None, -1.0, -2.5, 0.5, 3.0]
U_ALPH = [0.0, 2.0 ** -53, 2.0 ** -20, 0.125, 0.25, 0.5, 0.75, 1.0 - 2.0 ** -53, math.exp(-1.0), math.exp(-0.5),
          0.3, 0.9, 0.05]


def gen_cand(rng, ids, malformed):
    i = next(ids)
    r = rng.random()
    if r < 0.62:
        pos = "in"
    elif r < 0.72:
        pos = rng.choice(IN_POS[1:])
    else:
        pos = rng.choice(OUT_POS)
    lq = rng.choice(LQ_OK) if rng.random() < 0.85 else rng.choice(LQ_BAD)
    lp = rng.choice(LP_FIN)
    r = rng.random()
    if r < 0.12:
        lp = -np.inf           # zero prior inside the box: the prior support is smaller than the bounds
    elif malformed and r < 0.2:
        lp = np.nan
    if pos in OUT_POS and lp is not None and not (malformed and rng.random() < 0.3):
        lp = None              # a sane prior is -inf outside its bounds
    return Cand(i, pos, lq, lp)


def gen_uniforms(rng, n, robust=False):
    if not robust:
        return [rng.choice(U_ALPH) if rng.random() < 0.8 else rng.random() for _ in range(n)]
    # at least 1e-6 away (in log) from every multiple of 1/2: the decision lattice of the dyadic weights
    out = []
    while len(out) < n:
        u = rng.choice([0.0, 0.3, 0.9, 0.05, 0.6, 0.45]) if rng.random() < 0.7 else rng.random()
        if u == 0.0:
            out.append(u)
            continue
        l = 2.0 * math.log(u)
        if abs(l - round(l)) > 1e-6:
            out.append(u)
    return out


def gen_flow_spec(rng, ids, acc, malformed, N=None, nb=None, bsize=None, robust=False):
    """one population script for the flow proposals"""
    N = N if N is not None else rng.choice([1, 2, 3, 4, 5, 8])
    bsize = bsize if bsize is not None else rng.choice([1, 2, 3, 4, 6, 10])
    nb = nb if nb is not None else rng.randint(1, 6) + (4 * N) // max(1, bsize)
    batches = []
    for _ in range(nb):
        n = bsize if not (malformed and rng.random() < 0.15) else rng.choice([0, 1, bsize + 1])
        batches.append([gen_cand(rng, ids, malformed) for _ in range(n)])
    total = sum(len(b) for b in batches)
    ncalls = nb + 2
    us = [gen_uniforms(rng, total, robust) for _ in range(ncalls)]
    trunc = None
    if rng.random() < 0.25:
        trunc = rng.choice([-1.0, 0.0, -3.0, 1.5, -10.0])
    max_s = 10 ** 6
    if rng.random() < 0.15:
        # the plain branch ignores max_samples: a small value must change nothing there (seeded change C09-hA moved the
        # `n_proposed > max_samples: break` guard in front of both branches, leaving unwritten NaN rows in the plain pool)
        max_s = rng.choice([0, 1, bsize, 2 * bsize, total // 2 + 1, total])
    return dict(kind="acc" if acc else "plain", N=N, trunc=trunc, max_samples=max_s,
                batches=[[c.js() for c in b] for b in batches], us=us)


def spec_cands(spec):
    return [[cand_from_js(j) for j in b] for b in spec["batches"]]


def us_tok(us):
    with np.errstate(divide="ignore"):
        return "[" + ",".join("[" + ",".join(ev_tok(np.log(np.float64(u))) for u in call) + "]" for call in us) + "]"


def batches_tok(bs):
    return "[" + ",".join("[" + ",".join(c.tok() for c in b) + "]" for b in bs) + "]"


def spec_token(spec, gates=None, strict_z=False):
    t = "none" if spec.get("trunc") is None else ev_tok(spec["trunc"])
    z = b01(strict_z)
    if spec["kind"] == "plain":
        return "~".join(["plain", z, str(spec["N"]), t, batches_tok(spec_cands(spec)), us_tok(spec["us"])])
    if spec["kind"] == "acc":
        g = "[" + ",".join(b01(x) for x in (gates or [])) + "]"
        return "~".join(["acc", z, str(spec["N"]), str(spec["max_samples"]), t, batches_tok(spec_cands(spec)), g,
                         us_tok(spec["us"])])
    if spec["kind"] == "rej":
        cs = [cand_from_js(j) for j in spec["cands"]]
        with np.errstate(divide="ignore"):
            u = "[" + ",".join(ev_tok(np.log(np.float64(v))) for v in spec["us"][0]) + "]"
        return "~".join(["rej", "[" + ",".join(c.tok() for c in cs) + "]", u])
    if spec["kind"] == "ana":
        cs = [cand_from_js(j) for j in spec["cands"]]
        return "~".join(["ana", "[" + ",".join(c.tok() for c in cs) + "]"])
    raise ValueError(spec["kind"])


# ----------------------------------------------------------------------------------------------- scripted environment

class Script:
    """stand-ins for everything random around one proposal object"""

    def __init__(self, keys):
        self.keys = keys
        self.spec = None
        self.batches = []
        self.bi = 0
        self.cur = None
        self.us = []
        self.ui = 0
        self.nprop = 0
        self.gates = []
        self.broke = False
        self.perms = []
        self.N = None
        self.coords = {}

    def load(self, spec, model):
        self.spec = spec
        if spec["kind"] in ("plain", "acc"):
            self.batches = spec_cands(spec)
            cands = [c for b in self.batches for c in b]
        else:
            self.batches = [[cand_from_js(j) for j in spec["cands"]]]
            cands = self.batches[0]
        self.bi = self.ui = self.nprop = 0
        self.us = spec.get("us", [])
        self.gates, self.broke = [], False
        self.N = spec.get("N")
        for c in cands:
            self.coords[(c.x, c.y)] = c.id
            if c.lp is not None:
                model.table[(c.x, c.y)] = float(c.lp)

    # FlowProposal.draw_latent_prior
    def draw_latent(self, n):
        if self.bi >= len(self.batches):
            raise ScriptExhausted()
        self.cur = self.batches[self.bi]
        self.bi += 1
        self.nprop += len(self.cur)
        return np.zeros((len(self.cur), 2))

    # flow.sample_and_log_prob
    def sample_and_log_prob(self, z=None, alt_dist=None, N=None):
        b = self.cur
        extra = self.extra_dims
        x = np.array([[c.x, c.y] + [0.0] * extra for c in b], dtype=float).reshape(len(b), 2 + extra)
        return x, np.array([c.lq for c in b], dtype=float)

    extra_dims = 0

    def rand(self, *shape):
        if len(shape) != 1:
            raise RuntimeError(f"unscripted np.random.rand{shape}")
        n = int(shape[0])
        if self.ui >= len(self.us):
            raise ScriptExhausted()
        u = self.us[self.ui]
        self.ui += 1
        if len(u) < n:
            raise RuntimeError("uniform script too short")
        return np.array(u[:n], dtype=float)

    def permutation(self, n):
        n = int(n)
        p = sorted(range(n), key=lambda i: self.keys[i])
        self.perms.append(p)
        return np.array(p, dtype=int)

    def logsumexp(self, a, *args, **kw):
        from scipy.special import logsumexp
        v = logsumexp(a, *args, **kw)
        self.gates.append(bool(v >= np.log(self.N)))
        return v

    def warning(self, msg, *a, **k):
        if "max samples" in str(msg):
            self.broke = True


@contextlib.contextmanager
def scripted(script, flow_module=True):
    import nessai.proposal.flowproposal as fp
    with contextlib.ExitStack() as st:
        st.enter_context(mock.patch("numpy.random.rand", side_effect=script.rand))
        st.enter_context(mock.patch("numpy.random.permutation", side_effect=script.permutation))
        if flow_module:
            st.enter_context(mock.patch.object(fp, "logsumexp", side_effect=script.logsumexp))
            st.enter_context(mock.patch.object(fp.logger, "warning", side_effect=script.warning))
        with np.errstate(all="ignore"):
            yield


# ----------------------------------------------------------------------------------------------- oracle

def sample_ids(script, samples):
    return [script.coords.get((float(s["x"]), float(s["y"])), OUT_SENTINEL) for s in np.atleast_1d(samples)]


def oracle_pool(ctx, site, case, model, script, samples, ll_args, N, exact, broke=False):
    """the property's non-statistical predicates on a real pool"""
    samples = np.atleast_1d(samples)
    for s in samples:
        x, y = float(s["x"]), float(s["y"])
        if not ref_in_bounds(x, y):
            ctx.oracle_fail(site + ":out-of-bounds", f"pool point ({x},{y}) lies outside the prior bounds", case)
        want = model.prior_of(x, y)
        got = float(s["logP"])
        if not (math.isfinite(got) and got == want):
            ctx.oracle_fail(site + ":logP", f"pool point ({x},{y}) stored logP={got}, model log-prior={want} "
                            "(must be finite and equal)", case)
        if float(s["logL"]) != model.ll_of(x, y):
            ctx.oracle_fail(site + ":logL", f"pool point ({x},{y}) stored logL={float(s['logL'])}, "
                            f"model log-likelihood={model.ll_of(x, y)}", case)
    if exact and len(samples) != N:
        if broke:
            ctx.oracle_fail(KEY_MAXS,
                            f"population left through `if n_proposed > max_samples: break` holds {len(samples)} points, "
                            f"{N} requested", case)
        else:
            ctx.oracle_fail(site + ":size", f"flow pool holds {len(samples)} points, {N} requested", case)
    if not exact and len(samples) > N:
        ctx.oracle_fail(site + ":size", f"prior-rejection pool holds {len(samples)} > {N} points", case)
    oracle_ll_args(ctx, site, case, model, ll_args)


def oracle_ll_args(ctx, site, case, model, ll_args):
    for call in ll_args:
        for (x, y) in call:
            if not ref_in_bounds(x, y):
                ctx.oracle_fail(site + ":likelihood-out-of-support",
                                f"log_likelihood called at ({x},{y}) outside the prior bounds", case)
            elif not math.isfinite(model.prior_of(x, y)):
                ctx.oracle_fail(site + ":likelihood-out-of-support",
                                f"log_likelihood called at ({x},{y}) where the log-prior is {model.prior_of(x, y)}", case)


# ----------------------------------------------------------------------------------------------- flow sessions

_TMP = []


def tmpdir():
    d = tempfile.mkdtemp(prefix="c09_")
    _TMP.append(d)
    return d


def cleanup():
    while _TMP:
        shutil.rmtree(_TMP.pop(), ignore_errors=True)


def build_flow_proposal(model, augmented, acc, marginalise=True):
    import torch
    torch.set_num_threads(1)
    from nessai.proposal.flowproposal import FlowProposal
    from nessai.proposal.augmented import AugmentedFlowProposal
    kw = dict(output=tmpdir(), poolsize=4, drawsize=4, plot=False, update_poolsize=False, accumulate_weights=acc,
              reparameterisations={"null": {"parameters": ["x", "y"]}},
              flow_config=dict(n_blocks=1, n_neurons=2, n_layers=1))
    if augmented:
        # marginalise_augment=True: augmented_prior is 0.0 and the log-density comes from _marginalise_augment, which the
        # session scripts; the default mode is probed separately (aug_default_probe)
        p = AugmentedFlowProposal(model, augment_dims=1, marginalise_augment=marginalise, **kw)
    else:
        p = FlowProposal(model, **kw)
    p.initialise()
    return p


def pop_string(ids, ll_ids, nacc, nprop, batches, rands, broke):
    f = lambda v: "[" + ",".join(str(i) for i in v) + "]"
    return f"pool={f(ids)} ll={f(ll_ids)} nacc={nacc} nprop={nprop} batches={batches} rands={rands} broke={b01(broke)}"


def run_session(ctx, kind, ops, specs, keys, case, proposals):
    """drive a REAL proposal through draw / invalidate ops with scripted populations.
    Returns (per-op canonical outputs, gates observed per population)."""
    model = make_model()
    script = Script(keys)
    first = specs[0]["kind"]
    if kind in FLOW_KINDS:
        acc = first == "acc"
        p = build_flow_proposal(model, kind != "flow", acc, marginalise=(kind == "aug"))
        script.extra_dims = 0 if kind == "flow" else 1
        p.draw_latent_prior = script.draw_latent
        p.flow.sample_and_log_prob = script.sample_and_log_prob
        if kind == "aug":
            p._marginalise_augment = lambda x: np.array([c.lq for c in script.cur], dtype=float)
        p.forward_pass = lambda *a, **k: (None, np.array([script.spec["trunc"], script.spec["trunc"] + 1.0]))
        p.training_data = np.zeros(1)
        site = ("FlowProposal" if kind == "flow" else "AugmentedFlowProposal") + ".populate"
    elif kind == "rej":
        from nessai.proposal.rejection import RejectionProposal
        p = RejectionProposal(model, poolsize=4)
        site = "RejectionProposal.populate"
    else:
        from nessai.proposal.analytic import AnalyticProposal
        p = AnalyticProposal(model, poolsize=4)
        site = "AnalyticProposal.populate"
    pending = list(specs)
    outs, all_gates = [], []
    worst = np.zeros(1, dtype=[("x", "f8"), ("y", "f8"), ("logP", "f8"), ("logL", "f8"), ("it", "i4")])
    npop = 0
    handed = set()
    with scripted(script, flow_module=kind in FLOW_KINDS):
        for op in ops:
            if op == "i":
                p.populated = False
                outs.append("ok")
                continue
            populating = not p.populated
            spec = None
            if populating:
                if not pending:
                    outs.append("exhausted")
                    break
                spec = pending.pop(0)
                script.load(spec, model)
                model.ll_args = []
                nperm = len(script.perms)
                if kind in FLOW_KINDS:
                    p.accumulate_weights = spec["kind"] == "acc"
                    p.truncate_log_q = spec["trunc"] is not None
                    p._poolsize = spec["N"]
                    ms = spec["max_samples"]
                    orig = type(p).populate
                    p.populate = (lambda w, N=None, _o=orig, _ms=ms, **k: _o(p, w, N=N, max_samples=_ms, **k))
                else:
                    p._poolsize = len(spec["cands"])
                    cs = script.batches[0]
                    arr = np.zeros(len(cs), dtype=worst.dtype)
                    arr["x"] = [c.x for c in cs]
                    arr["y"] = [c.y for c in cs]
                    model.new_point = lambda N=1, _a=arr: _a.copy()
                    model.new_point_log_prob = lambda x, _c=cs: np.array([c.lq for c in _c], dtype=float)
            idx_before = p.indices[-1] if (not populating and p.indices) else None
            try:
                s = p.draw(worst)
            except ScriptExhausted:
                all_gates.append(list(script.gates))
                outs.append("exhausted")
                break
            except IndexError as e:
                res = "err=index"
                s = None
                if populating and len(script.perms) == nperm:
                    # raised inside populate, before the pool was installed
                    all_gates.append(list(script.gates))
                    bad = [c.id for c in (script.cur or []) if not math.isfinite(c.lq)]
                    if kind == "flow" and bad:
                        ctx.oracle_fail(KEY_Z, "FlowProposal.populate raised IndexError: the flow returned a non-finite "
                                        f"log-density for candidate(s) {bad} of the drawn batch ({e})", case)
                    else:
                        ctx.oracle_fail(site + ":raised-IndexError", f"populate raised IndexError: {e}", case)
                    outs.append(f"crash batches={script.bi}")
                    ctx.hist[f"pop:{spec['kind']}:crash"] += 1
                    continue
            pre = ""
            if populating:
                npop += 1
                handed = set()
                all_gates.append(list(script.gates))
                if len(script.perms) != nperm + 1:
                    ctx.disagree("population did not draw exactly one permutation", case)
                    outs.append("noperm")
                    break
                perm = script.perms[-1]
                ids = sample_ids(script, p.samples)
                ll_ids = [script.coords.get(xy, OUT_SENTINEL) for call in model.ll_args for xy in call]
                if kind in FLOW_KINDS:
                    nprop = script.nprop
                    acc_ratio = p.population_acceptance
                    nacc = int(round(acc_ratio * nprop)) if nprop else 0
                    batches, rands = script.bi, script.ui
                    N = spec["N"]
                else:
                    nprop = len(spec["cands"])
                    nacc = len(ids) if kind == "rej" else nprop
                    batches, rands = 1, script.ui
                    N = nprop
                pre = "pop(" + pop_string(ids, ll_ids, nacc, nprop, batches, rands, script.broke) + ")>"
                oracle_pool(ctx, site, case, model, script, p.samples, model.ll_args, N,
                            exact=kind in FLOW_KINDS + ("ana",), broke=script.broke)
                if kind != "flow" and kind in FLOW_KINDS and len(p.x) and not np.all(np.isfinite(p.x["e_0"])):
                    ctx.oracle_fail(KEY_AUG, f"pool with non-finite augment parameters {p.x['e_0']}", case)
                if sorted(perm) != list(range(len(ids))):
                    ctx.oracle_fail(site + ":indices", "index list is not a permutation of the pool", case)
                idx_before = perm[-1] if perm else None
                ctx.hist[f"pop:{spec['kind']}" + (":broke" if script.broke else "")] += 1
                ctx.traces += 1
            if s is not None:
                sid = sample_ids(script, s)[0]
                count = npop
                res = f"h:{count}:{idx_before}:{sid}"
                if idx_before in handed:
                    ctx.oracle_fail(site.replace("populate", "draw") + ":handed-twice",
                                    f"index {idx_before} of population {count} handed out twice", case)
                handed.add(idx_before)
                x, y = float(s["x"]), float(s["y"])
                if not ref_in_bounds(x, y) or not math.isfinite(float(s["logP"])) or float(s["logP"]) != model.prior_of(x, y) \
                        or float(s["logL"]) != model.ll_of(x, y):
                    ctx.oracle_fail(site.replace("populate", "draw") + ":point", f"draw returned an unusable point {s}", case)
            outs.append(pre + res)
    return outs, all_gates


def session_line(keys, ops, specs, gates, n_out, strict_z=False):
    toks = []
    for k, spec in enumerate(specs):
        toks.append(spec_token(spec, gates[k] if k < len(gates) else [], strict_z))
    return "pool sess [" + ",".join(str(k) for k in keys) + "] " + ops[:n_out] + " " + " ".join(toks)


def gen_session(rng, kind, malformed):
    import itertools
    ids = itertools.count(0)
    npops = rng.choice([1, 1, 2, 3])
    specs = []
    for _ in range(npops):
        if kind in FLOW_KINDS:
            specs.append(gen_flow_spec(rng, ids, rng.random() < 0.5, malformed, robust=(kind == "augd")))
        else:
            n = rng.choice([2, 3, 4, 6, 9])
            cs = []
            for _ in range(n):
                c = gen_cand(rng, ids, malformed)
                # Model.new_point contract: points inside the bounds; new_point_log_prob finite (non-finite: malformed)
                pos = c.pos if c.pos in IN_POS else "in"
                lq = c.lq if (malformed and rng.random() < 0.3) else rng.choice(LQ_OK)
                lp = c.lp
                if kind == "ana" and lp is not None and not math.isfinite(lp):
                    lp = None      # AnalyticProposal assumes new_point samples the prior itself
                c = Cand(c.id, pos, lq, lp)
                cs.append(c)
            specs.append(dict(kind=kind, cands=[c.js() for c in cs], us=[gen_uniforms(rng, n)]))
    nops = rng.randint(1, 4 * npops + 6)
    ops = "".join("d" if rng.random() < 0.88 else "i" for _ in range(nops))
    keys = list(range(64))
    rng.shuffle(keys)
    return ops, specs, keys


def do_session(ctx, kind, ops, specs, keys, lines, impls, cases, label):
    case = dict(layer="session", kind=kind, ops=ops, specs=specs, keys=keys)
    outs, gates = run_session(ctx, kind, ops, specs, keys, case, None)
    cleanup()            # the session's proposal output directory (one per session: tens of thousands in the thorough tier)
    lines.append(session_line(keys, ops, specs, gates, len(outs), strict_z=(kind == "flow" and FLOW_STRICT_Z)))
    impls.append("|".join(outs))
    cases.append(case)
    nontriv = any(o.startswith("pop(") for o in outs) and len(outs) >= 2
    small = case if sum(len(b) for s in specs for b in s.get("batches", [s.get("cands", [])])) <= 8 else None
    ctx.case(lines[-1], nontriv, small, kind=label)


KEY_AUG = "AugmentedFlowProposal.inverse_rescale:augment-parameters-nan"


def aug_marginal_locality(ctx):
    """AugmentedFlowProposal._marginalise_augment (marginalise_augment=True, n_marg > 1) with a real (tiny, perturbed) flow:
    the marginal density attached to point i is a function of point i and of ITS n_marg augment draws only — changing the
    other points of the batch must not change it, and it equals log mean_k q(x_i, e_ik)/N(e_ik) recomputed point by point
    (seeded change C09-eB: the batch of realisations was built with np.tile while the reduction assumes np.repeat, so every
    point was weighted by the densities of other points and the pool no longer follows the prior in the contour)"""
    import torch
    from scipy import stats
    from scipy.special import logsumexp
    model = make_model()
    for n_marg in (2, 5):
        p = build_flow_proposal(model, True, False, marginalise=True)
        p.n_marg = n_marg
        with torch.no_grad():
            g = torch.Generator().manual_seed(11 + n_marg)
            for prm in p.flow.model.parameters():
                prm.add_(0.3 * torch.randn(prm.shape, generator=g))
        p.flow.model.eval()
        rng = np.random.default_rng(5)
        d = p.rescaled_dims if hasattr(p, "rescaled_dims") else 3
        X = rng.normal(size=(6, d))
        state = np.random.get_state()
        try:
            np.random.seed(123)
            out1 = np.asarray(p._marginalise_augment(X.copy()), dtype=float)
            X2 = X.copy()
            X2[1:] = rng.normal(size=(5, d)) * 3.0 + 2.0          # every point but the first replaced
            np.random.seed(123)
            out2 = np.asarray(p._marginalise_augment(X2.copy()), dtype=float)
            # point-by-point recomputation with the same draws, one point per call (no batch layout involved)
            np.random.seed(123)
            E = np.random.randn(6 * n_marg, p.augment_dims)
            want = []
            for i in range(6):
                rows = np.repeat(X[i:i + 1], n_marg, axis=0)
                rows[:, -p.augment_dims:] = E[i * n_marg:(i + 1) * n_marg]
                _, lp = p.flow.forward_and_log_prob(rows)
                le = np.sum(stats.norm.logpdf(rows[:, -p.augment_dims:]), axis=1)
                want.append(-np.log(n_marg) + logsumexp(np.asarray(lp, dtype=float) - le))
        finally:
            np.random.set_state(state)
        case = dict(layer="aug-marginal", n_marg=n_marg)
        if out1.shape != (6,) or not np.isfinite(out1).all():
            ctx.oracle_fail("AugmentedFlowProposal._marginalise_augment:shape", f"returned {out1!r} for 6 points", case)
        else:
            if abs(out1[0] - out2[0]) > 1e-6 * max(1.0, abs(out1[0])):
                ctx.oracle_fail("AugmentedFlowProposal._marginalise_augment:locality",
                                f"the marginal log-density of a point changed from {out1[0]!r} to {out2[0]!r} when only the OTHER points of "
                                "the batch were replaced (same augment draws)", case)
            if not np.allclose(out1, want, rtol=1e-5, atol=1e-5):
                i = int(np.argmax(np.abs(out1 - np.array(want))))
                ctx.oracle_fail("AugmentedFlowProposal._marginalise_augment:value",
                                f"point {i}: marginal log-density {out1[i]!r}, recomputed from its own {n_marg} realisations {want[i]!r}", case)
        ctx.case(("aug-marginal", n_marg), True, case, kind="aug-marginal")


def aug_default_probe(ctx):
    """AugmentedFlowProposal in its default mode (marginalise_augment=False) on three identical good batches: the
    property needs a population of N=1 to complete"""
    model = make_model()
    script = Script(list(range(64)))
    script.extra_dims = 1
    p = build_flow_proposal(model, True, False, marginalise=False)
    p.draw_latent_prior = script.draw_latent
    p.flow.sample_and_log_prob = script.sample_and_log_prob
    spec = dict(kind="plain", N=1, trunc=None, max_samples=10 ** 6,
                batches=[[[0, "in", 0.0, None], [1, "in", 0.0, None]], [[2, "in", 0.0, None], [3, "in", 0.0, None]],
                         [[4, "in", 0.0, None], [5, "in", 0.0, None]]], us=[[0.5, 0.5]] * 4)
    script.load(spec, model)
    p._poolsize = 1
    worst = np.zeros(1, dtype=[("x", "f8"), ("y", "f8"), ("logP", "f8"), ("logL", "f8"), ("it", "i4")])
    case = dict(layer="aug-default", spec=spec)
    try:
        with scripted(script):
            s = p.draw(worst)
        ok = len(p.samples) == 1 and ref_in_bounds(float(s["x"]), float(s["y"]))
        if not ok:
            ctx.oracle_fail("AugmentedFlowProposal.populate:size", f"pool of {len(p.samples)} for N=1", case)
        if not np.all(np.isfinite(p.x["e_0"])) or not math.isfinite(float(s["logP"])):
            ctx.oracle_fail(KEY_AUG, f"pool point with augment parameter {p.x['e_0']} / logP {float(s['logP'])}", case)
    except ScriptExhausted:
        ctx.oracle_fail(KEY_AUG, "AugmentedFlowProposal (marginalise_augment=False) accepted none of 6 in-bounds candidates "
                        "with equal weights and u=0.5: inverse_rescale leaves the augment parameters e_i NaN, so "
                        "augmented_prior and every log-weight is NaN and populate never terminates", case)
    ctx.case(("aug-default",), True, case, kind="aug-default")


# ----------------------------------------------------------------------------------------------- primitives

def prim_lines(ctx, lines, impls, cases):
    """the float semantics of the model against NumPy / Python"""
    vals = [np.nan, -np.inf, np.inf, 0.0, -1.0, 1.5, -2.5, 3.0]
    with np.errstate(all="ignore"):
        for a in vals:
            for b in vals:
                fa, fb = np.float64(a), np.float64(b)
                for op, r in (("sub", ev_tok(fa - fb)), ("gt", b01(bool(fa > fb))), ("ge", b01(bool(fa >= fb))),
                              ("fmax", ev_tok(np.maximum(fa, fb))), ("pymax", ev_tok(max(fa, fb)))):
                    lines.append(f"pool ev {op} {ev_tok(a)} {ev_tok(b)}")
                    impls.append(r)
                    cases.append(dict(layer="prim", op=op, a=str(a), b=str(b)))
                    ctx.case(("prim", op, str(a), str(b)), True, kind="prim")
        rng = ctx.rng
        import warnings
        for _ in range(ctx.scale(150, 1500)):
            l = [rng.choice(vals) for _ in range(rng.randint(1, 5))]
            arr = np.array(l, dtype=float)
            with warnings.catch_warnings():
                warnings.simplefilter("ignore")
                for op, r in (("npmax", ev_tok(arr.max())), ("nanmax", ev_tok(np.nanmax(arr)))):
                    lines.append(f"pool ev {op} [" + ",".join(ev_tok(v) for v in l) + "]")
                    impls.append(r)
                    cases.append(dict(layer="prim", op=op, l=[str(v) for v in l]))
                    ctx.case(("prim", op, tuple(str(v) for v in l)), True, kind="prim")
        for _ in range(ctx.scale(30, 200)):
            n = rng.randint(0, 12)
            keys = list(range(16))
            rng.shuffle(keys)
            lines.append(f"pool perm [" + ",".join(map(str, keys)) + f"] {n}")
            impls.append("[" + ",".join(str(i) for i in sorted(range(n), key=lambda i: keys[i])) + "]")
            cases.append(dict(layer="prim", op="perm", keys=keys, n=n))
            ctx.case(("perm", tuple(keys), n), n >= 2, kind="prim")


# ----------------------------------------------------------------------------------------------- check_prior_bounds / new_point

def direct_calls(ctx, lines, impls, cases):
    """FlowProposal.check_prior_bounds / Model.in_bounds and Model._multiple_new_points on scripted points"""
    import itertools
    rng = ctx.rng
    from nessai.livepoint import numpy_array_to_live_points
    model = make_model()
    p = build_flow_proposal(model, False, False)
    for _ in range(ctx.scale(60, 600)):
        ids = itertools.count(0)
        cs = [gen_cand(rng, ids, True) for _ in range(rng.randint(0, 8))]
        arr = numpy_array_to_live_points(np.array([[c.x, c.y] for c in cs], dtype=float).reshape(len(cs), 2), model.names)
        tag = np.array([c.id for c in cs], dtype=int)
        x, t = p.check_prior_bounds(arr, tag)
        got = [int(v) for v in t]
        case = dict(layer="check_prior_bounds", cands=[c.js() for c in cs])
        want = [c.id for c in cs if c.inb]
        if got != want or len(x) != len(want):
            ctx.oracle_fail("FlowProposal.check_prior_bounds", f"kept rows {got}, rows inside the prior bounds {want}", case)
        for s in x:
            if not ref_in_bounds(float(s["x"]), float(s["y"])):
                ctx.oracle_fail("FlowProposal.check_prior_bounds", "returned a point outside the prior bounds", case)
        # via the plain model with N larger than the batch can give: compare the survivors through a 1-batch population
        ctx.case(("cpb", tuple(c.tok() for c in cs)), len(cs) >= 2, kind="check_prior_bounds")
    # Model._multiple_new_points: np.random.uniform scripted
    for _ in range(ctx.scale(40, 400)):
        ids = itertools.count(0)
        m = make_model()
        N = rng.choice([2, 3, 4, 5])
        nb = rng.randint(1, 5)
        batches = []
        for _ in range(nb):
            b = []
            for _ in range(N):
                i = next(ids)
                r = rng.random()
                lp = None if r < 0.6 else (-np.inf if r < 0.85 else rng.choice([-1.0, 2.0]))
                b.append(Cand(i, "in" if rng.random() < 0.9 else rng.choice(IN_POS), 0.0, lp))
            batches.append(b)
        sc = Script(list(range(64)))
        sc.load(dict(kind="plain", batches=[[c.js() for c in b] for b in batches], us=[]), m)
        it = iter(batches)

        def unif(lo, hi, size, _it=it):
            try:
                b = next(_it)
            except StopIteration:
                raise ScriptExhausted()
            return np.array([[c.x, c.y] for c in b], dtype=float)
        case = dict(layer="new_points", N=N, batches=[[c.js() for c in b] for b in batches])
        try:
            with mock.patch("numpy.random.uniform", side_effect=unif):
                pts = m.new_point(N=N)
            ids_out = sample_ids(sc, pts)
            impl = "pts=[" + ",".join(map(str, ids_out)) + "]"
            for s in pts:
                xx, yy = float(s["x"]), float(s["y"])
                if not ref_in_bounds(xx, yy) or not math.isfinite(m.prior_of(xx, yy)):
                    ctx.oracle_fail("Model._multiple_new_points", f"new point ({xx},{yy}) outside the prior support", case)
            if len(pts) != N:
                ctx.oracle_fail("Model._multiple_new_points", f"{len(pts)} points for N={N}", case)
        except ScriptExhausted:
            impl = "exhausted"
        lines.append(f"pool newpts {N} {batches_tok(batches)}")
        impls.append(impl)
        cases.append(case)
        ctx.case(lines[-1], impl != "exhausted", case if nb <= 2 else None, kind="new_points")


# ----------------------------------------------------------------------------------------------- importance sampler

class ICand:
    FIELDS = ("id", "pos", "fin_check", "fin_prime", "fin_j", "fin_jinv", "lp", "lq", "qnan", "qpinf")

    def __init__(self, id_, pos, fin_check=True, fin_prime=True, fin_j=True, fin_jinv=True, lp=None, lq=0.0,
                 qnan=False, qpinf=False):
        self.id, self.pos = id_, pos
        self.fin_check, self.fin_prime, self.fin_j, self.fin_jinv = fin_check, fin_prime, fin_j, fin_jinv
        self.lp, self.lq, self.qnan, self.qpinf = lp, float(lq), qnan, qpinf
        x, y = POS[pos](id_)
        self.ux, self.uy = x, y + 0.5          # unit-hypercube coordinates
        self.px, self.py = x, (y + 0.5) - 0.5  # what from_unit_hypercube gives
        self.in_cube = (0.0 <= self.ux <= 1.0) and (0.0 <= self.uy <= 1.0)
        self.log_u = 0.0 if (0.0 <= self.ux < 1.0 and 0.0 <= self.uy < 1.0) else -np.inf

    def prior(self):
        if self.lp is not None:
            return float(self.lp)
        return 0.0 if ref_in_bounds(self.px, self.py) else -np.inf

    def js(self):
        return [getattr(self, f) for f in self.FIELDS]

    def tok(self):
        return ":".join([str(self.id), b01(self.in_cube), b01(self.fin_check), b01(self.fin_prime), b01(self.fin_j),
                         b01(self.fin_jinv), ev_tok(self.prior()), ev_tok(self.log_u), ev_tok(self.lq),
                         b01(self.qnan), b01(self.qpinf)])


def gen_icand(rng, ids):
    i = next(ids)
    r = rng.random()
    pos = "in" if r < 0.65 else (rng.choice(IN_POS[1:]) if r < 0.75 else rng.choice(OUT_POS))
    flags = [rng.random() > 0.06 for _ in range(4)]
    r = rng.random()
    lp = None if r < 0.6 else (-np.inf if r < 0.8 else rng.choice([-1.0, 2.0, -0.5]))
    r = rng.random()
    lq = rng.choice(LQ_OK) if r < 0.85 else (-np.inf if r < 0.95 else np.inf)
    return ICand(i, pos, *flags, lp=lp, lq=lq, qnan=rng.random() < 0.05, qpinf=rng.random() < 0.05)


def run_ins_draw(ctx, n, batches, case):
    """real ImportanceFlowProposal.draw + ImportanceNestedSampler.draw_n_samples on light stand-ins"""
    from nessai.livepoint import get_dtype, numpy_array_to_live_points
    from nessai.proposal.importance import ImportanceFlowProposal
    from nessai.samplers.importancesampler import ImportanceNestedSampler
    import datetime
    model = make_model()
    by_prime = {}
    for b in batches:
        for c in b:
            by_prime[(c.ux, c.uy)] = c
            if c.lp is not None:
                model.table[(c.px, c.py)] = float(c.lp)
    state = dict(k=0, cur=None)

    class Obj:
        pass

    prop = Obj()
    prop.level_count = 0
    prop.model = model
    prop.dtype = get_dtype(model.names)
    prop.n_proposals = 2
    prop.flow = Obj()

    def sample_ith(i=None, N=None):
        if state["k"] >= len(batches):
            raise ScriptExhausted()
        state["cur"] = batches[state["k"]]
        state["k"] += 1
        return np.array([[c.ux if c.fin_prime else np.nan, c.uy] for c in state["cur"]], dtype=float).reshape(-1, 2)

    def inverse_rescale(xp):
        b = state["cur"]
        x = numpy_array_to_live_points(np.array([[c.ux, c.uy] for c in b], dtype=float).reshape(-1, 2), model.names)
        return x, np.array([0.0 if c.fin_jinv else np.inf for c in b])

    def rescale(x):
        b = state["cur"]
        chk = np.array([[c.ux if c.fin_check else np.inf, c.uy] for c in b], dtype=float).reshape(-1, 2)
        return chk, np.array([0.0 if c.fin_j else np.nan for c in b])

    def compute_log_Q(xp, log_j=None):
        cs = [by_prime[(float(r[0]), float(r[1]))] for r in xp]
        allq = np.array([[np.nan, np.nan] if c.qnan else ([np.inf, np.inf] if c.qpinf else [0.0, c.lq]) for c in cs],
                        dtype=float).reshape(-1, 2)
        return np.array([c.lq for c in cs], dtype=float), allq

    prop.flow.sample_ith = sample_ith
    prop.inverse_rescale = inverse_rescale
    prop.rescale = rescale
    prop.compute_log_Q = compute_log_Q
    prop.draw = lambda n, **kw: ImportanceFlowProposal.draw(prop, n, **kw)
    sampler = Obj()
    sampler.proposal = prop
    sampler.model = model
    sampler.draw_samples_time = datetime.timedelta()
    key = "ImportanceFlowProposal.draw"
    try:
        with np.errstate(all="ignore"):
            pts, log_q = ImportanceNestedSampler.draw_n_samples(sampler, n)
    except ScriptExhausted:
        return "exhausted"
    ids = []
    for s in pts:
        c = by_prime.get((float(s["x"]), float(s["y"])))
        ids.append(c.id if c else OUT_SENTINEL)
        ux, uy = float(s["x"]), float(s["y"])
        if not (0.0 <= ux <= 1.0 and 0.0 <= uy <= 1.0):
            ctx.oracle_fail(key + ":out-of-cube", f"returned point ({ux},{uy}) outside the unit hypercube", case)
        want = model.prior_of(ux, uy - 0.5)
        if not (math.isfinite(float(s["logP"])) and float(s["logP"]) == want):
            ctx.oracle_fail(key + ":logP", f"returned point has logP={float(s['logP'])}, model log-prior {want}", case)
        if float(s["logL"]) != model.ll_of(ux, uy - 0.5):
            ctx.oracle_fail(key + ":logL", "stored logL differs from the model's log-likelihood", case)
    if len(pts) != n or len(log_q) != n:
        ctx.oracle_fail(key + ":size", f"draw({n}) returned {len(pts)} points", case)
    oracle_ll_args(ctx, "ImportanceNestedSampler.draw_n_samples", case, model, model.ll_args)
    n_ll = sum(len(c) for c in model.ll_args)
    if n_ll != len(pts):
        ctx.oracle_fail("ImportanceNestedSampler.draw_n_samples:count", f"{n_ll} likelihood arguments for {len(pts)} points", case)
    return "ret=[" + ",".join(map(str, ids)) + f"] batches={state['k']}"


def run_ins_populate(ctx, N, batches, case):
    """real ImportanceNestedSampler.populate_live_points (unbound, stand-in sampler) with scripted unit-cube draws"""
    from nessai.samplers.importancesampler import ImportanceNestedSampler
    model = make_model()
    coords = {}
    for b in batches:
        for c in b:
            coords[(c.ux, c.uy)] = c.id
            if c.lp is not None:
                model.table[(c.px, c.py)] = float(c.lp)
    it = iter(batches)

    def rand(*shape):
        try:
            b = next(it)
        except StopIteration:
            raise ScriptExhausted()
        return np.array([[c.ux, c.uy] for c in b], dtype=float).reshape(-1, 2)

    class Obj:
        pass

    got = {}
    s = Obj()
    s.draw_iid_live = False
    s.n_initial = N
    s.model = model
    s.training_samples = Obj()
    s.training_samples.add_initial_samples = lambda lp, lq: got.update(lp=lp.copy(), lq=lq)
    s.sample_counts = {}
    key = "ImportanceNestedSampler.populate_live_points"
    try:
        with mock.patch("numpy.random.rand", side_effect=rand), np.errstate(all="ignore"):
            ImportanceNestedSampler.populate_live_points(s)
    except ScriptExhausted:
        return "exhausted"
    pts = got["lp"]
    ids = [coords.get((float(p["x"]), float(p["y"])), OUT_SENTINEL) for p in pts]
    if len(pts) != N:
        ctx.oracle_fail(key + ":size", f"{len(pts)} initial points for n_initial={N}", case)
    for p in pts:
        ux, uy = float(p["x"]), float(p["y"])
        want = model.prior_of(ux, uy - 0.5)
        if not (0 <= ux <= 1 and 0 <= uy <= 1) or not math.isfinite(float(p["logP"])) or float(p["logP"]) != want:
            ctx.oracle_fail(key + ":point", f"initial point ({ux},{uy}) logP={float(p['logP'])} (model {want})", case)
        if float(p["logL"]) != model.ll_of(ux, uy - 0.5):
            ctx.oracle_fail(key + ":logL", "stored logL differs from the model's log-likelihood", case)
    oracle_ll_args(ctx, key, case, model, model.ll_args)
    return "pts=[" + ",".join(map(str, ids)) + "]"


def ins_cases(ctx, lines, impls, cases):
    import itertools
    from nessai.livepoint import reset_extra_live_points_parameters
    from nessai.samplers.importancesampler import ImportanceNestedSampler
    rng = ctx.rng
    ImportanceNestedSampler.add_fields()
    try:
        for _ in range(ctx.scale(400, 4000)):
            ids = itertools.count(0)
            n = rng.choice([1, 2, 3, 5, 8, 100, 120])
            nb = rng.randint(1, 5)
            batches = [[gen_icand(rng, ids) for _ in range(int(1.01 * n))] for _ in range(nb)]
            case = dict(layer="ins_draw", n=n, batches=[[c.js() for c in b] for b in batches])
            impl = run_ins_draw(ctx, n, batches, case)
            lines.append(f"pool ins {n} [" + ",".join("[" + ",".join(c.tok() for c in b) + "]" for b in batches) + "]")
            impls.append(impl)
            cases.append(case)
            ctx.case(lines[-1], impl != "exhausted", case if nb == 1 else None, kind="ins_draw" + (":exhausted" if impl == "exhausted" else ""))
        for _ in range(ctx.scale(150, 1500)):
            ids = itertools.count(0)
            N = rng.choice([2, 3, 4, 6, 9])
            nb = rng.randint(1, 4)
            batches = []
            for _ in range(nb):
                b = []
                for _ in range(N):
                    i = next(ids)
                    r = rng.random()
                    lp = None if r < 0.55 else (-np.inf if r < 0.85 else rng.choice([-1.0, 2.0]))
                    b.append(ICand(i, "in" if rng.random() < 0.9 else rng.choice(["edge_x0", "edge_y0"]), lp=lp))
                batches.append(b)
            case = dict(layer="ins_populate", N=N, batches=[[c.js() for c in b] for b in batches])
            impl = run_ins_populate(ctx, N, batches, case)
            toks = "[" + ",".join("[" + ",".join(f"{c.id}:1:0:{ev_tok(c.prior())}" for c in b) + "]" for b in batches) + "]"
            lines.append(f"pool newpts {N} {toks}")
            impls.append(impl)
            cases.append(case)
            ctx.case(lines[-1], impl != "exhausted", case if nb == 1 else None, kind="ins_populate")
    finally:
        reset_extra_live_points_parameters()


def bound_shapes(ctx):
    """Model.in_bounds and FlowProposal.check_prior_bounds for every SHAPE of prior bound — finite, half-infinite on either
    side, doubly infinite — on points below / at / above each finite end (seeded change C09-d: an 'optimisation' of
    in_bounds that skips parameters with ANY infinite bound lets points beyond the finite end of [0, inf) into the pool)"""
    from nessai.model import Model
    from nessai.livepoint import numpy_array_to_live_points
    from nessai.proposal.flowproposal import FlowProposal
    inf = float("inf")
    shapes = {"finite": [-1.0, 2.0], "lower-only": [0.0, inf], "upper-only": [-inf, 3.0], "unbounded": [-inf, inf]}

    class BM(Model):
        def __init__(self, bx, by):
            self.names = ["x", "y"]
            self.bounds = {"x": list(bx), "y": list(by)}

        def new_point(self, N=1):
            return numpy_array_to_live_points(np.random.uniform(0.0, 1.0, (N, 2)), self.names)

        def new_point_log_prob(self, x):
            return np.zeros(x.size)

        def log_prior(self, x):
            return np.log(self.in_bounds(x), dtype=float)

        def log_likelihood(self, x):
            return np.zeros(x.size)

    def probes(b):
        lo, hi = b
        vals = [0.5, -7.0, 11.0, -1e300, 1e300]
        for e in (lo, hi):
            if math.isfinite(e):
                vals += [e, np.nextafter(e, -inf), np.nextafter(e, inf), e - 1.0, e + 1.0]
        return vals

    for nx, bx in shapes.items():
        for ny, by in shapes.items():
            m = BM(bx, by)
            pts = [(a, b) for a in probes(bx) for b in probes(by)]
            arr = numpy_array_to_live_points(np.array(pts, dtype=float), m.names)
            want = np.array([(bx[0] <= a <= bx[1]) and (by[0] <= b <= by[1]) for a, b in pts])
            case = dict(layer="bound-shapes", x=nx, y=ny, bounds=dict(x=[repr(v) for v in bx], y=[repr(v) for v in by]))
            try:
                got = np.asarray(m.in_bounds(arr), dtype=bool)
            except Exception as e:  # noqa
                ctx.oracle_fail("Model.in_bounds:raised", f"{type(e).__name__}: {e}", case)
                continue
            if got.shape != want.shape or not np.array_equal(got, want):
                i = int(np.flatnonzero(got != want)[0]) if got.shape == want.shape else -1
                ctx.oracle_fail("Model.in_bounds", f"point {pts[i]} reported {'inside' if got[i] else 'outside'} the prior bounds "
                                f"x in {bx}, y in {by}", dict(case, point=[repr(v) for v in pts[i]]))
            fp = FlowProposal.__new__(FlowProposal)
            fp.model = m
            try:
                kept, tag = FlowProposal.check_prior_bounds(fp, arr.copy(), np.arange(len(pts)))
                if sorted(int(t) for t in tag) != [int(i) for i in np.flatnonzero(want)] or len(kept) != int(want.sum()):
                    ctx.oracle_fail("FlowProposal.check_prior_bounds", f"kept {len(kept)} of {len(pts)} points, {int(want.sum())} lie inside "
                                    f"the prior bounds x in {bx}, y in {by}", case)
            except Exception as e:  # noqa
                ctx.oracle_fail("FlowProposal.check_prior_bounds:raised", f"{type(e).__name__}: {e}", case)
            ctx.case(("bound-shapes", nx, ny), True, case if (nx, ny) == ("lower-only", "finite") else None, kind="bound-shapes")


# ----------------------------------------------------------------------------------------------- radial draws (oracle)

def radial_oracle(ctx):
    """norm of the real radially truncated latent draws never exceeds r*fuzz (1e-9 relative tolerance)"""
    from nessai.utils.sampling import NDimensionalTruncatedGaussian, draw_truncated_gaussian, draw_nsphere
    rng = ctx.rng
    tol = 1e-9
    edge = [0.0, 1.0 - 2.0 ** -53, 0.5, 2.0 ** -30]
    state = np.random.get_state()
    try:
        for k in range(ctx.scale(40, 400)):
            dims = rng.choice([1, 2, 3, 5, 8, 16])
            r = rng.choice([0.1, 1.0, 2.447746830680816, 4.0, 10.0, 37.5])
            fuzz = rng.choice([1.0, 1.0, 1.05, 2.0])
            n = rng.choice([1, 7, 64])
            np.random.seed(rng.getrandbits(32))
            case = dict(layer="radial", dims=dims, r=r, fuzz=fuzz, n=n, k=k)
            real_rand = np.random.rand
            real_unif = np.random.uniform

            def rand(*shape):
                out = real_rand(*shape)
                if len(shape) == 1:
                    for j, e in enumerate(edge[:len(out)]):
                        out[j] = e
                return out

            def unif(lo, hi, size=None):
                out = real_unif(lo, hi, size)
                if np.ndim(out) == 1:
                    for j, e in enumerate(edge[:len(out)]):
                        out[j] = lo + (hi - lo) * e
                return out
            with mock.patch("numpy.random.rand", side_effect=rand), mock.patch("numpy.random.uniform", side_effect=unif):
                z1 = NDimensionalTruncatedGaussian(dims, r, fuzz=fuzz).sample(n)
                z2 = draw_truncated_gaussian(dims, r, N=n, fuzz=fuzz)
                z3 = draw_nsphere(dims, r=r, N=n, fuzz=fuzz)
            for name, z in (("NDimensionalTruncatedGaussian.sample", z1), ("draw_truncated_gaussian", z2),
                            ("draw_nsphere", z3)):
                if z.shape != (n, dims):
                    ctx.oracle_fail(name + ":shape", f"shape {z.shape} for N={n}, dims={dims}", case)
                    continue
                nr = np.sqrt(np.sum(z ** 2, axis=1))
                if not np.all(np.isfinite(nr)) or np.any(nr > r * fuzz * (1 + tol)):
                    ctx.oracle_fail(name + ":outside-contour",
                                    f"latent point with radius {float(np.nanmax(nr))} > r*fuzz = {r * fuzz}", case)
            ctx.case(("radial", dims, r, fuzz, n, k), True, case if k < 2 else None, kind="radial")
        # the proposal's own preparation step, over SEQUENCES of radii on one object (a population with a new worst point
        # gets a new radius; a latent sampler that keeps anything from the previous radius draws outside the new contour —
        # seeded change C09-c)
        from nessai.proposal.flowproposal import FlowProposal
        for k in range(ctx.scale(30, 200)):
            lp = rng.choice(["truncated_gaussian", "uniform_nball", "uniform_nsphere"])
            dims = rng.choice([1, 2, 3, 8])
            fuzz = rng.choice([1.0, 1.05, 1.5])
            radii = [rng.choice([0.3, 1.0, 1.3545, 2.5, 4.0, 9.0]) for _ in range(rng.randint(2, 5))]
            np.random.seed(rng.getrandbits(32))
            fp = FlowProposal.__new__(FlowProposal)
            fp.latent_prior, fp.parameters, fp.fuzz = lp, [f"p{i}" for i in range(dims)], fuzz
            try:
                fp.configure_latent_prior()
            except Exception as e:  # noqa
                ctx.oracle_fail("FlowProposal.configure_latent_prior:raised", repr(e), dict(layer="radial-seq", latent_prior=lp))
                continue
            case = dict(layer="radial-seq", latent_prior=lp, dims=dims, fuzz=fuzz, radii=radii)
            for j, r in enumerate(radii):
                fp.r = r
                fp.prep_latent_prior()
                z = np.asarray(fp.draw_latent_prior(400))
                nr = np.sqrt(np.sum(z ** 2, axis=1))
                if z.shape != (400, dims) or not np.all(np.isfinite(nr)) or np.any(nr > r * fuzz * (1 + tol)):
                    ctx.oracle_fail("FlowProposal.prep_latent_prior:outside-contour",
                                    f"population #{j} (r={r}, previous radii {radii[:j]}): {int(np.sum(nr > r * fuzz * (1 + tol)))} of "
                                    f"{len(nr)} latent draws have radius up to {float(np.nanmax(nr))} > r*fuzz = {r * fuzz}", case)
                    break
            ctx.case(("radial-seq", lp, dims, fuzz, tuple(radii)), True, case if k < 2 else None, kind="radial-seq:" + lp)
    finally:
        np.random.set_state(state)


# ----------------------------------------------------------------------------------------------- real runs (oracle)

def real_runs(ctx):
    """short real runs: every likelihood argument inside the prior support, every pool sound"""
    import torch
    torch.set_num_threads(1)
    from nessai.model import Model
    from nessai.flowsampler import FlowSampler
    from nessai.proposal.flowproposal import FlowProposal
    from nessai.livepoint import reset_extra_live_points_parameters
    logging.getLogger("nessai").setLevel(logging.CRITICAL)

    class G(Model):
        def __init__(self, holes):
            self.names = ["x", "y"]
            self.bounds = {"x": [-4.0, 4.0], "y": [-2.0, 6.0]}
            self.holes = holes
            self.bad = []
            self.n_ll = 0

        def support(self, x):
            ok = self.in_bounds(x) & ~np.isnan(x["x"]) & ~np.isnan(x["y"])
            if self.holes:
                ok = ok & (x["x"] + x["y"] > -3.0)
            return ok

        def log_prior(self, x):
            with np.errstate(divide="ignore"):
                return np.log(self.support(x), dtype=float) - np.log(64.0)

        def log_likelihood(self, x):
            xx = np.atleast_1d(x)
            self.n_ll += xx.size
            ok = np.atleast_1d(self.support(xx))
            if not ok.all():
                self.bad.extend([(float(a), float(b)) for a, b in zip(xx["x"][~ok], xx["y"][~ok])])
            return -0.5 * (x["x"] ** 2 + (x["y"] - 1.0) ** 2)

        def to_unit_hypercube(self, x):
            y = x.copy()
            y["x"] = (x["x"] + 4.0) / 8.0
            y["y"] = (x["y"] + 2.0) / 8.0
            return y

        def from_unit_hypercube(self, x):
            y = x.copy()
            y["x"] = x["x"] * 8.0 - 4.0
            y["y"] = x["y"] * 8.0 - 2.0
            return y

    import signal
    import traceback

    class RunTimeout(Exception):
        pass

    def on_alarm(signum, frame):
        raise RunTimeout("".join(traceback.format_stack(frame, limit=4))[-600:])

    limit = ctx.scale(120, 300)
    pools = []
    orig_populate = FlowProposal.populate

    cur = {}

    def spy_populate(self, worst_point, N=10000, **kw):
        if cur.get("max_samples"):
            kw.setdefault("max_samples", cur["max_samples"])
        orig_populate(self, worst_point, N=N, **kw)
        pools.append((N, self.samples.copy(), list(self.indices), bool(self.accumulate_weights)))

    latent_bad = []
    orig_draw_latent = FlowProposal.draw_latent_prior

    def spy_draw_latent(self, n):
        z = orig_draw_latent(self, n)
        if self.latent_prior in ("truncated_gaussian", "uniform_nball", "uniform_nsphere") and self.r is not None \
                and np.isfinite(self.r):
            nr = np.sqrt(np.sum(np.asarray(z) ** 2, axis=1))
            lim = self.r * self.fuzz * (1 + 1e-9)
            if np.any(nr > lim):
                latent_bad.append((float(nr.max()), float(self.r * self.fuzz), int(np.sum(nr > lim)), len(nr)))
        return z

    configs = [dict(kind="ns", holes=False, kw=dict()),
               dict(kind="ns", holes=True, kw=dict(latent_prior="truncated_gaussian", constant_volume_mode=False)),
               dict(kind="ns-acc", holes=False, kw=dict(accumulate_weights=True)),
               dict(kind="ns-aug", holes=False, kw=dict(flow_proposal_class="AugmentedFlowProposal", augment_dims=1))]
    if not ctx.quick:
        configs += [dict(kind="ns", holes=True, kw=dict(latent_prior="uniform_nball", constant_volume_mode=False)),
                    dict(kind="ns", holes=False, kw=dict(truncate_log_q=True)),
                    dict(kind="ns", holes=True, kw=dict(analytic_priors=False, latent_prior="gaussian", constant_volume_mode=False)),
                    # max_samples lowered from 10^6 (where one population takes minutes) so that the documented
                    # short-pool case of the accumulating branch shows up quickly in a real run
                    dict(kind="ns-acc", holes=True, max_samples=20000,
                         kw=dict(accumulate_weights=True, constant_volume_mode=False))]
    configs.append(dict(kind="ins", holes=False, kw=dict()))
    for k, cfg in enumerate(configs):
        model = G(cfg["holes"])
        out = tmpdir()
        seed = ctx.rng.getrandbits(20)
        case = dict(layer="real-run", config={k_: v for k_, v in cfg.items()}, seed=seed)
        t0 = time.time()
        pools.clear()
        latent_bad.clear()
        cur["max_samples"] = cfg.get("max_samples")
        old_handler = signal.signal(signal.SIGALRM, on_alarm)
        signal.setitimer(signal.ITIMER_REAL, limit)
        try:
            with mock.patch.object(FlowProposal, "populate", spy_populate), \
                    mock.patch.object(FlowProposal, "draw_latent_prior", spy_draw_latent), np.errstate(all="ignore"):
                if cfg["kind"] == "ins":
                    fs = FlowSampler(model, output=out, importance_nested_sampler=True, nlive=120, min_samples=30,
                                     max_iteration=ctx.scale(5, 10), plot=False, resume=False, seed=seed, log_on_iteration=False,
                                     flow_config=dict(n_blocks=2, n_neurons=8), training_config=dict(max_epochs=15),
                                     checkpointing=False, signal_handling=False)
                else:
                    fs = FlowSampler(model, output=out, nlive=ctx.scale(60, 150), plot=False, resume=False, seed=seed, poolsize=ctx.scale(60, 150),
                                     max_iteration=ctx.scale(800, 3000), maximum_uninformed=60, checkpointing=False,
                                     flow_config=dict(n_blocks=2, n_neurons=8), training_config=dict(max_epochs=15, patience=5),
                                     proposal_plots=False, signal_handling=False, **cfg["kw"])
                fs.run(plot=False, save=False)
        except RunTimeout as e:
            ctx.oracle_fail("real-run:" + cfg["kind"] + ":no-termination",
                            f"the run did not finish within {limit} s (a population that never completes); stuck at: {e}", case)
        except Exception as e:  # noqa: a crash of the run is C20's business; the arguments seen so far still count
            ctx.hist["real-run:raised:" + type(e).__name__] += 1
            ctx.extra.setdefault("real_run_exceptions", []).append(f"{cfg['kind']}: {type(e).__name__}: {str(e)[:120]}")
        finally:
            signal.setitimer(signal.ITIMER_REAL, 0)
            signal.signal(signal.SIGALRM, old_handler)
            reset_extra_live_points_parameters()
        site = "real-run:" + cfg["kind"]
        if latent_bad:
            ctx.oracle_fail(site + ":latent-outside-contour",
                            f"{len(latent_bad)} latent batches of the run contain points outside the current contour, first: "
                            f"radius {latent_bad[0][0]} > r*fuzz = {latent_bad[0][1]} ({latent_bad[0][2]} of {latent_bad[0][3]} draws)", case)
        if model.bad:
            ctx.oracle_fail(site + ":likelihood-out-of-support",
                            f"log_likelihood called on {len(model.bad)} point(s) outside the prior support, first {model.bad[0]}", case)
        for (N, smp, idx, acc_w) in pools:
            ok = np.atleast_1d(model.support(smp))
            if not ok.all():
                ctx.oracle_fail(site + ":pool-out-of-support", "pool point outside the prior support", case)
            if len(smp) != N:
                if acc_w and len(smp) < N:
                    ctx.oracle_fail(KEY_MAXS, f"real run, accumulate_weights=True: pool of {len(smp)} for N={N} "
                                    "(population left through the max_samples break)", case)
                else:
                    ctx.oracle_fail(site + ":pool-size", f"pool of {len(smp)} for N={N}", case)
            if sorted(idx) != list(range(len(smp))):
                ctx.oracle_fail(site + ":indices", "indices are not a permutation of the pool", case)
            lp = model.log_prior(smp)
            if not np.array_equal(lp, smp["logP"]) or not np.all(np.isfinite(smp["logP"])):
                ctx.oracle_fail(site + ":logP", "stored logP differs from the model's log-prior or is not finite", case)
            n0 = model.n_ll
            ll = -0.5 * (smp["x"] ** 2 + (smp["y"] - 1.0) ** 2)
            if not np.array_equal(ll, smp["logL"]):
                ctx.oracle_fail(site + ":logL", "stored logL differs from the model's log-likelihood", case)
        ctx.case(("real", k, seed), model.n_ll > 100, dict(case, n_likelihood=model.n_ll, pools=len(pools),
                                                            wall=round(time.time() - t0, 1)), kind="real-run:" + cfg["kind"])
        ctx.hist["real-run:likelihood-args"] += model.n_ll
        ctx.hist["real-run:pools"] += len(pools)
        ctx.traces += 1


# ----------------------------------------------------------------------------------------------- corpus / driver

def corpus():
    """committed regression / boundary sessions (corpus/C09/sessions.json), run first"""
    import json
    from .core import VERIF
    f = VERIF / "corpus" / "C09" / "sessions.json"
    return json.loads(f.read_text()) if f.exists() else []


def gen(ctx):
    """regenerate Gen/PoolTx.lean from the current source of RejectionProposal.populate (harness/c09_tx.py)"""
    from . import c09_tx
    c09_tx.gen(ctx)


def correspond(ctx):
    ctx.rule = ("scripted sessions (draw / invalidate op strings over 1-3 scripted populations) on REAL FlowProposal and "
                "AugmentedFlowProposal objects (plain + accumulating branch, optional log-q truncation and max_samples), "
                "RejectionProposal and AnalyticProposal objects; ImportanceFlowProposal.draw + draw_n_samples and "
                "ImportanceNestedSampler.populate_live_points as unbound methods on stand-ins; Model._multiple_new_points; "
                "check_prior_bounds; float primitives. Candidates: 62% interior, 10% exactly on a bound, 28% outside "
                "(incl. 2^-30 outside), 15% non-finite log_q, 12% -inf prior inside the box; a malformed stream adds NaN "
                "priors, finite priors outside the box and ragged/empty batches. non-trivial = a distinct session with at "
                "least one completed population and a second op")
    ctx.assume("np.random.permutation returns a permutation; np.random.rand in [0,1)",
               "gate decisions log_n_expected >= log_n of the accumulating branch are observed from the implementation "
               "(spy on logsumexp) and fed to the model as inputs — the theorems hold for every gate sequence",
               "SciPy chi cdf / ppf (gammaincinv) monotone and mutually inverse (radial bound checked with 1e-9 tolerance)",
               "x-prime priors (use_x_prime_prior, GW reparameterisations) and the flow's own densities are outside this check (C07/C08)")
    ctx.trust("hand-written model Model/Pool.lean; tie = this correspondence (scripted flow, uniforms, permutation)",
              "unittest.mock stand-ins for flow.sample_and_log_prob, draw_latent_prior, np.random.rand/permutation/uniform")
    lines, impls, cases = [], [], []
    try:
        prim_lines(ctx, lines, impls, cases)
        for c in corpus():
            do_session(ctx, c["kind"], c["ops"], c["specs"], c["keys"], lines, impls, cases, "corpus")
        rng = ctx.rng
        plan = [("flow", False, ctx.scale(700, 8000)), ("flow", True, ctx.scale(200, 2500)),
                ("aug", False, ctx.scale(150, 1500)), ("aug", True, ctx.scale(50, 500)),
                ("augd", False, ctx.scale(200, 2000)), ("augd", True, ctx.scale(50, 500)),
                ("rej", False, ctx.scale(300, 3000)), ("rej", True, ctx.scale(100, 1000)),
                ("ana", False, ctx.scale(100, 1000))]
        for kind, malformed, n in plan:
            for _ in range(n):
                ops, specs, keys = gen_session(rng, kind, malformed)
                do_session(ctx, kind, ops, specs, keys, lines, impls, cases, kind + (":malformed" if malformed else ""))
        direct_calls(ctx, lines, impls, cases)
        aug_default_probe(ctx)
        aug_marginal_locality(ctx)
        ins_cases(ctx, lines, impls, cases)
        ctx.diff_model(lines, impls, cases)
        radial_oracle(ctx)
        bound_shapes(ctx)
        real_runs(ctx)
        if not ctx.quick:
            # extra evidence only (the statistical clause is not claimed): exact-binomial box test of real rejection pools
            rejection_pool_distribution(ctx)
    finally:
        cleanup()


def binom_two_sided_log10(k, n, p):
    """log10 of the exact two-sided binomial tail probability P(|X - np| >= |k - np|), X ~ Bin(n, p) (upper bound: twice
    the smaller one-sided tail)"""
    from scipy.stats import binom
    lo = binom.logcdf(k, n, p)
    hi = binom.logsf(k - 1, n, p)
    return float(min(0.0, (min(lo, hi) + math.log(2.0)) / math.log(10.0)))


def rejection_pool_distribution(ctx, n=40000):
    """STATISTICAL failing-input search for the clause 'the pool is distributed as the prior': the real
    RejectionProposal.populate on models whose own new_point / new_point_log_prob propose from a density that is NOT the
    prior (the only case in which the acceptance weights matter).  Judged by exact binomial bounds on the prior mass of
    fixed boxes, at false-alarm probability < 1e-12 per box (a correct sampler fails with probability < 1e-10 overall)."""
    from scipy.stats import norm
    from nessai.model import Model
    from nessai.proposal.rejection import RejectionProposal
    from nessai.livepoint import numpy_array_to_live_points

    def trunc_logpdf(v, sd, b):
        z = norm.cdf(b / sd) - norm.cdf(-b / sd)
        return norm.logpdf(v, scale=sd) - math.log(z)

    for sd_prop, sd_prior in ((2.0, 1.0), (1.0, 1.5), (3.0, 0.75)):
        class M(Model):
            names = ["x", "y"]
            bounds = {"x": [-5.0, 5.0], "y": [-5.0, 5.0]}

            def log_prior(self, x):
                lp = np.log(self.in_bounds(x), dtype="float")
                for nm in self.names:
                    lp = lp + trunc_logpdf(x[nm], sd_prior, 5.0)
                return lp

            def log_likelihood(self, x):
                return np.zeros(x.size)

            def new_point(self, N=1):
                out = np.empty((0, 2))
                while len(out) < N:
                    c = np.random.randn(2 * N, 2) * sd_prop
                    out = np.concatenate([out, c[(np.abs(c) < 5.0).all(axis=1)]])
                return numpy_array_to_live_points(out[:N], self.names)

            def new_point_log_prob(self, x):
                return trunc_logpdf(x["x"], sd_prop, 5.0) + trunc_logpdf(x["y"], sd_prop, 5.0)

        np.random.seed(ctx.rng.getrandbits(31))
        m = M()
        p = RejectionProposal(m, poolsize=n)
        p.initialise() if hasattr(p, "initialise") else None
        p.populate(N=n)
        pool = np.asarray(p.samples)
        case = {"kind": "rejection-pool-distribution", "proposal_sd": sd_prop, "prior_sd": sd_prior, "drawn": n, "pool": int(pool.size)}
        if pool.size < 200:
            ctx.case(("rej-dist", sd_prop, sd_prior), False, case, kind="rejection-dist:tiny-pool")
            continue
        z = norm.cdf(5.0 / sd_prior) - norm.cdf(-5.0 / sd_prior)
        for q in (0.25, 0.5, 0.75):
            half = norm.ppf(0.5 + q * z / 2.0) * sd_prior          # P_prior(|x| < half) = q for one coordinate
            for nm in ("x", "y"):
                k = int(np.count_nonzero(np.abs(pool[nm]) < half))
                l10 = binom_two_sided_log10(k, int(pool.size), q)
                if l10 < -12:
                    ctx.oracle_fail("RejectionProposal.populate:pool-not-distributed-as-the-prior",
                                    f"prior N(0,{sd_prior}^2), own proposal N(0,{sd_prop}^2): {k} of {pool.size} pool points have "
                                    f"|{nm}| < {half:.4f}, a region of prior mass {q} (two-sided binomial tail 1e{l10:.0f})",
                                    {**case, "coord": nm, "q": q, "k": k})
        ctx.case(("rej-dist", sd_prop, sd_prior), True, case, kind="rejection-dist")


def search(ctx):
    """enlarged failing-input search with the oracle only (called when a proof / the tie broke)"""
    try:
        rejection_pool_distribution(ctx)
    except core.Infra:
        raise
    except Exception as e:  # noqa
        ctx.extra["rejection_pool_distribution_error"] = repr(e)[:300]
    lines, impls, cases = [], [], []
    t0 = time.time()
    budget = ctx.scale(60, 600)
    rng = ctx.rng
    try:
        while time.time() - t0 < budget and not ctx.fails:
            for kind in ("flow", "aug", "augd", "rej", "ana"):
                ops, specs, keys = gen_session(rng, kind, rng.random() < 0.3)
                do_session(ctx, kind, ops, specs, keys, lines, impls, cases, "search:" + kind)
    finally:
        cleanup()


def replay(ctx, obj):
    c = obj["case"]
    if "case" in c and "line" in c:
        c = c["case"]
    lines, impls, cases = [], [], []
    try:
        if c.get("layer") == "session":
            do_session(ctx, c["kind"], c["ops"], c["specs"], c["keys"], lines, impls, cases, "replay")
            ctx.diff_model(lines, impls, cases)
        elif c.get("layer") == "aug-default":
            aug_default_probe(ctx)
        elif c.get("layer") == "radial":
            radial_oracle(ctx)
        elif c.get("layer") == "real-run":
            real_runs(ctx)
        else:
            correspond(ctx)
    finally:
        cleanup()
