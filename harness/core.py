"""Common machinery for every property check.

A check module (harness/cXX.py) provides
    PROPS_MODULE = "NessaiVerif.Props.CXX"       (Lean module holding the property theorems)
    gen(ctx)          optional: regenerate lean/NessaiVerif/Gen/*.lean from /repo
    correspond(ctx)   run the real code and the Lean model on the same cases + the oracle
    search(ctx)       optional: enlarged failing-input search (called when a tie/proof broke)
    replay(ctx, obj)  re-run one recorded case

and reports through the Check object:
    ctx.case(key, nontrivial, sample)            one explored case (evidence)
    ctx.oracle_fail(key, what, case)             the REAL code breaks the property on `case`
    ctx.disagree(what, case)                     model and implementation differ on `case`
    ctx.broken(name, detail)                     a proof obligation / translation no longer checks
"""
import collections
import fcntl
import hashlib
import json
import os
import random
import re
import subprocess
import sys
import time
from pathlib import Path

VERIF = Path(__file__).resolve().parent.parent
LEAN = VERIF / "lean"
REPO = Path(os.environ.get("NESSAI_REPO", "/repo"))
MODEL_BIN = LEAN / ".lake" / "build" / "bin" / "nessai_model"
ALLOWED_AXIOMS = {"propext", "Classical.choice", "Quot.sound"}
FORBIDDEN = re.compile(
    r"\bsorry\b|\badmit\b|^\s*axiom\s|native_decide|bv_decide|implemented_by|\bunsafe\s|maxHeartbeats\s+0\b|@\[extern|@\[csimp"
)


def in_box(model, x):
    """is every parameter of the structured point(s) `x` inside the closed prior interval the model declares FOR THAT NAME?
    Independent of nessai's own Model.in_bounds (which the checks must be able to judge)."""
    import numpy as np
    ok = np.ones(np.shape(x[model.names[0]]), dtype=bool)
    for n in model.names:
        lo, hi = model.bounds[n]
        ok = ok & (x[n] >= lo) & (x[n] <= hi)
    return ok


class Infra(Exception):
    """Infrastructure failure (not a verdict): exit code 2."""


def _strip_comments(text):
    # remove /- ... -/ (nested) and -- ... comments
    out, depth, i, n = [], 0, 0, len(text)
    while i < n:
        if text.startswith("/-", i):
            depth += 1
            i += 2
        elif depth and text.startswith("-/", i):
            depth -= 1
            i += 2
        elif depth:
            if text[i] == "\n":
                out.append("\n")
            i += 1
        elif text.startswith("--", i):
            while i < n and text[i] != "\n":
                i += 1
        else:
            out.append(text[i])
            i += 1
    return "".join(out)


def theorems_of(path):
    """(qualified name, first line, last line) for each `theorem` in a Props file."""
    text = _strip_comments(Path(path).read_text())
    ns, res = [], []
    lines = text.split("\n")
    starts = []
    for ln, line in enumerate(lines, 1):
        m = re.match(r"\s*namespace\s+(\S+)", line)
        if m:
            ns.append(m.group(1))
        m = re.match(r"\s*end\s+(\S+)\s*$", line)
        if m and ns and ns[-1] == m.group(1):
            ns.pop()
        m = re.match(r"\s*(?:@\[[^\]]*\]\s*)?(?:private\s+|protected\s+)?theorem\s+(\S+)", line)
        if m:
            starts.append((".".join(ns + [m.group(1)]), ln))
        elif re.match(r"\s*(example|def|lemma|instance|structure|inductive|abbrev)\b", line):
            starts.append((None, ln))
    for k, (name, ln) in enumerate(starts):
        end = starts[k + 1][1] - 1 if k + 1 < len(starts) else len(lines)
        if name:
            res.append((name, ln, end))
    return res


class Probe:
    """throw-away stand-in for a Check: collects oracle failures without recording them (used by shrinkers)"""

    def __init__(self):
        self.keys = []
        self.hist = collections.Counter()

    def oracle_fail(self, key, what, case):
        self.keys.append(key)

    def disagree(self, *a, **k):
        pass

    def case(self, *a, **k):
        pass


def shrink_list(items, still_fails, max_steps=400):
    """greedy delta debugging: drop chunks, then single items, while `still_fails(items)`"""
    items = list(items)
    steps = 0
    chunk = max(1, len(items) // 2)
    while chunk >= 1 and steps < max_steps:
        i, changed = 0, False
        while i < len(items) and steps < max_steps:
            cand = items[:i] + items[i + chunk:]
            steps += 1
            if cand != items and still_fails(cand):
                items, changed = cand, True
            else:
                i += chunk
        if chunk == 1 and not changed:
            break
        chunk = max(1, chunk // 2) if chunk > 1 else (1 if changed else 0)
    return items


class Check:
    def __init__(self, prop, tier, seed):
        self.prop, self.tier, self.seed = prop, tier, seed
        self.rng = random.Random((seed, prop).__repr__())
        self.t0 = time.time()
        self.evaluations = 0
        self.distinct = set()
        self.samples = []
        self.hist = collections.Counter()
        self._sampled = collections.Counter()
        self.extra = {}
        self.assumptions = []
        self.trusted = [
            "Lean 4.33.0 kernel",
            "axioms: propext, Classical.choice, Quot.sound only (audited with #print axioms on every run)",
        ]
        self.rule = ""
        self.obligations, self.discharged = [], []
        self.fails, self.disagreements, self.brokens = [], [], []
        # translations that could not be PRODUCED from the current source (unknown shape): the generated Lean file is left as
        # it was, so the theorems are about the last translatable source and the tie to the current code rests on the
        # correspondence alone (tie (H) of DESIGN.md).  Not a broken obligation by itself — see `broken`.
        self.downgrades = []
        self.strict_tie = os.environ.get("VERIF_STRICT_TIE", "") == "1"
        self.known_hits = []
        self.model_ok = False
        self.checker_cmd = ""
        self.traces = 0
        kf = VERIF / "known_findings.json"
        self.findings = json.loads(kf.read_text())["findings"] if kf.exists() else []

    # ------------------------------------------------------------------ evidence
    @property
    def quick(self):
        return self.tier == "quick"

    def scale(self, quick, thorough):
        return quick if self.quick else thorough

    def case(self, key, nontrivial=True, sample=None, kind=None):
        self.evaluations += 1
        if kind:
            self.hist[kind] += 1
        if nontrivial:
            h = hashlib.sha1(repr(key).encode()).digest()[:10]
            self.distinct.add(h)
        if sample is not None and len(self.samples) < 10:
            k = kind or "case"
            if self._sampled[k] < 2:
                self._sampled[k] += 1
                self.samples.append(sample)

    def assume(self, *texts):
        for t in texts:
            if t not in self.assumptions:
                self.assumptions.append(t)

    def trust(self, *texts):
        for t in texts:
            if t not in self.trusted:
                self.trusted.append(t)

    # ------------------------------------------------------------------ outcomes
    def oracle_fail(self, key, what, case):
        """The real implementation violates the property on `case`.
        `key` identifies call site + input class for known-finding matching."""
        for f in self.findings:
            if f.get("status") == "known" and f["property"] == self.prop and f["key"] == key:
                if key not in [k for k, _ in self.known_hits]:
                    self.known_hits.append((key, f["what"]))
                return
        self.fails.append({"key": key, "what": what, "case": case})

    def disagree(self, what, case):
        self.disagreements.append({"what": what, "case": case})

    def broken(self, name, detail=""):
        """a proof obligation / the model driver / the correspondence no longer checks.
        A translator that cannot MAP the current source (`translator: …` — a construct outside its fragment, typically after
        a refactoring) is different from a translation whose theorems fail: nothing was re-proved, but nothing was refuted
        either, and the frozen generated model is still tied to the code by the correspondence.  It is recorded as a
        DOWNGRADE of the tie (T+H -> H): the enlarged failing-input search runs, and the verdict is a violation only if the
        correspondence or the oracle then disagree.  `VERIF_STRICT_TIE=1` restores 'every lost tie is a violation'."""
        if name.startswith("translator:") and not self.strict_tie:
            self.downgrades.append({"name": name, "detail": detail[-4000:]})
            return
        self.brokens.append({"name": name, "detail": detail[-4000:]})

    def needs_search(self):
        return bool(self.brokens or self.disagreements or self.downgrades) and not self.fails

    # ------------------------------------------------------------------ Lean
    def _run(self, cmd, timeout=1800, **kw):
        return subprocess.run(cmd, cwd=LEAN, capture_output=True, text=True, timeout=timeout, **kw)

    def hygiene(self):
        bad = []
        for p in list((LEAN / "NessaiVerif").rglob("*.lean")) + [LEAN / "Main.lean"]:
            body = _strip_comments(p.read_text())
            for ln, line in enumerate(body.split("\n"), 1):
                if FORBIDDEN.search(line):
                    bad.append(f"{p.relative_to(LEAN)}:{ln}: {line.strip()[:80]}")
        return bad

    def prove(self, props_module, extra_targets=()):
        """Build the property module + driver and audit axioms.  Fills obligations/discharged."""
        props_path = LEAN / (props_module.replace(".", "/") + ".lean")
        thms = theorems_of(props_path)
        self.obligations = [t[0] for t in thms]
        targets = [props_module, "nessai_model", *extra_targets]
        self.checker_cmd = (
            f"cd lean && lake build {' '.join(targets)} && lake env lean .audit/{self.prop}.lean"
            "  (#print axioms for every theorem of " + props_module + ")"
        )
        pinned = LEAN / "obligations.json"
        if pinned.exists():
            want = json.loads(pinned.read_text()).get(self.prop, [])
            for name in want:
                if name not in self.obligations:
                    self.obligations.append(name)
                    self.broken(f"theorem {name} is pinned as an obligation of {self.prop} but is no longer in {props_path.name}")
        bad = self.hygiene()
        if bad:
            self.broken("hygiene: forbidden token in Lean sources", "\n".join(bad))
        lock = open(LEAN / ".build.lock", "a")
        fcntl.flock(lock, fcntl.LOCK_EX)
        try:
            exe = self._run(["lake", "build", "nessai_model"])
            self.model_ok = exe.returncode == 0 and MODEL_BIN.exists()
            if not self.model_ok:
                self.broken("model-driver: nessai_model no longer builds", exe.stdout + exe.stderr)
            r = self._run(["lake", "build", props_module, *extra_targets])
        finally:
            fcntl.flock(lock, fcntl.LOCK_UN)
            lock.close()
        if r.returncode != 0:
            out = r.stdout + r.stderr
            rel = str(props_path.relative_to(LEAN))
            hit = set()
            for line in out.split("\n"):
                m = re.search(re.escape(rel) + r":(\d+):\d+:", line)
                if m and "error" in line:
                    ln = int(m.group(1))
                    for name, a, b in thms:
                        if a <= ln <= b:
                            hit.add(name)
            if not hit:
                hit = set(self.obligations)  # failure upstream of the property file
            for name in sorted(hit):
                self.broken(f"theorem {name} no longer checks", out)
            # the module did not compile to an .olean, so nothing of it is counted as audited
            self.discharged = []
            return False
        # audit
        adir = LEAN / ".audit"
        adir.mkdir(exist_ok=True)
        afile = adir / f"{self.prop}.lean"
        afile.write_text(
            f"import {props_module}\n" + "".join(f"#print axioms {n}\n" for n in self.obligations)
        )
        a = self._run(["lake", "env", "lean", str(afile)])
        text = (a.stdout + a.stderr).replace("\n", " ")
        ok = []
        for name in self.obligations:
            m = re.search(r"'" + re.escape(name) + r"' (does not depend on any axioms|depends on axioms: \[([^\]]*)\])", text)
            if not m:
                self.broken(f"theorem {name}: axiom audit produced no result", text[-2000:])
                continue
            axs = set(x.strip() for x in (m.group(2) or "").split(",") if x.strip())
            if axs - ALLOWED_AXIOMS:
                self.broken(f"theorem {name} depends on non-standard axioms {sorted(axs - ALLOWED_AXIOMS)}")
                continue
            ok.append(name)
        self.discharged = ok
        return len(ok) == len(self.obligations)

    def leanchecker(self, modules):
        """thorough tier: independent re-check of the compiled modules."""
        r = self._run(["lake", "env", "leanchecker", *modules], timeout=3000)
        if r.returncode != 0:
            self.broken("leanchecker rejected " + " ".join(modules), r.stdout + r.stderr)
        self.extra["leanchecker"] = {"modules": list(modules), "ok": r.returncode == 0}

    def model(self, lines):
        """Run the compiled Lean model on protocol lines; one output line per input line."""
        if not self.model_ok:
            if not MODEL_BIN.exists():
                raise Infra("nessai_model not built")
        lines = list(lines)
        if not lines:
            return []
        # shared lock: the driver is never relinked (exclusive lock in prove()) while it is running
        lock = open(LEAN / ".build.lock", "a")
        fcntl.flock(lock, fcntl.LOCK_SH)
        try:
            for attempt in range(3):
                try:
                    r = subprocess.run([str(MODEL_BIN)], input="\n".join(lines) + "\n", capture_output=True, text=True, timeout=1800)
                    break
                except OSError:
                    if attempt == 2:
                        raise Infra("nessai_model could not be executed")
                    time.sleep(1.0)
        finally:
            fcntl.flock(lock, fcntl.LOCK_UN)
            lock.close()
        out = r.stdout.split("\n")
        if out and out[-1] == "":
            out.pop()
        if r.returncode != 0 or len(out) != len(lines):
            raise Infra(f"model driver returned {len(out)} lines for {len(lines)} inputs (rc={r.returncode}): {r.stderr[-500:]}")
        return out

    def diff_model(self, lines, impl_outs, cases, what="model != implementation"):
        """Compare model outputs with implementation outputs (already canonical strings)."""
        outs = self.model(lines)
        n = 0
        for line, mo, io, c in zip(lines, outs, impl_outs, cases):
            if mo != io:
                n += 1
                if n <= 20:
                    self.disagree(what, {"line": line, "model": mo, "impl": io, "case": c})
        return n

    # ------------------------------------------------------------------ verdict
    def finish(self):
        wall = time.time() - self.t0
        replay_dir = VERIF / "replay"
        replay_dir.mkdir(exist_ok=True)
        lines, code = [], 0
        for key, what in self.known_hits:
            lines.append(f"KNOWN-FINDING: property={self.prop} {key}: {what}")
        for d in self.downgrades:
            lines.append(f"TIE-DOWNGRADED: property={self.prop} {d['name']} — the generated model was left as it was; the "
                         "verdict rests on the correspondence (model == implementation on every explored case) and the oracle")
        if self.fails:
            code = 1
            seen = set()
            for f in self.fails:
                if f["key"] in seen:
                    continue
                seen.add(f["key"])
                body = {"property": self.prop, "seed": self.seed, "tier": self.tier, "kind": "failing-input",
                        "key": f["key"], "what": f["what"], "case": f["case"],
                        "broken": (self.brokens + self.downgrades)[:5], "disagreements": self.disagreements[:5]}
                h = hashlib.sha1(json.dumps(body, sort_keys=True, default=str).encode()).hexdigest()[:10]
                path = replay_dir / f"{self.prop}-{h}.json"
                path.write_text(json.dumps(body, indent=1, default=str))
                lines.append(f"VIOLATION property={self.prop} replay={path.relative_to(VERIF)}")
        elif self.brokens or self.disagreements:
            code = 1
            body = {"property": self.prop, "seed": self.seed, "tier": self.tier, "kind": "no-failing-input-found",
                    "no_longer_checks": [b["name"] for b in self.brokens + self.downgrades]
                    + (["correspondence model<->implementation"] if self.disagreements else []),
                    "broken": (self.brokens + self.downgrades)[:10], "disagreements": self.disagreements[:10]}
            h = hashlib.sha1(json.dumps(body, sort_keys=True, default=str).encode()).hexdigest()[:10]
            path = replay_dir / f"{self.prop}-{h}.json"
            path.write_text(json.dumps(body, indent=1, default=str))
            lines.append(f"VIOLATION property={self.prop} replay={path.relative_to(VERIF)} no-failing-input-found")
        cov = {
            "obligations": len(self.obligations),
            "discharged": len(self.discharged),
            "checker_cmd": self.checker_cmd or "n/a",
            "trusted_base": self.trusted,
            "theorems": self.obligations,
            "evaluations": self.evaluations,
            "distinct_nontrivial": len(self.distinct),
            "rule": self.rule,
            "samples": self.samples or ["(no case generated)"],
            "traces_validated_against_impl": self.traces,
            "histogram": dict(self.hist),
            "model_impl_disagreements": len(self.disagreements),
            "broken_obligations": [b["name"] for b in self.brokens],
            "tie_downgraded": [d["name"] for d in self.downgrades],
            "known_findings_reproduced": [k for k, _ in self.known_hits],
        }
        cov.update(self.extra)
        ev = {
            "property_id": self.prop, "tier": self.tier, "seed": self.seed, "level": "proof",
            "coverage": cov, "assumptions": self.assumptions, "wall_s": round(wall, 2),
            "violations": len({f["key"] for f in self.fails}) + (1 if code and not self.fails else 0),
        }
        (VERIF / "evidence").mkdir(exist_ok=True)
        (VERIF / "evidence" / f"{self.prop}.json").write_text(json.dumps(ev, indent=1, default=str) + "\n")
        for ln in lines:
            print(ln)
        print(f"[{self.prop}] tier={self.tier} seed={self.seed} obligations={len(self.discharged)}/{len(self.obligations)} "
              f"cases={self.evaluations} distinct={len(self.distinct)} disagreements={len(self.disagreements)} "
              f"fails={len(self.fails)} known={len(self.known_hits)} wall={wall:.1f}s -> exit {code}")
        return code
