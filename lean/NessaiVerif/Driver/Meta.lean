import NessaiVerif.Model.MetaProposal
import NessaiVerif.Driver.Parse
/-
`mp run <useIid 0/1> op;op;…` at K = Rat.  Ops:
  `pop [id:U,…] [id:U,…]`            populate (training, independent)
  `w j n`                             add_new_proposal_weight(j, n)
  `t it [id:U:[q,…],…] [id:q,…]`      training half of add_and_update_points (new samples, new column)
  `i it [id:U:[q,…],…] [id:q,…]`      independent half
  `dump`                              → `counts=[..] weights=[..] train=[id:Q:W,…] iid=[…]`
Result: one `|`-separated field per op (`ok`, `err=<kind>` or the dump).
-/
namespace NessaiVerif.Driver.Meta
open NessaiVerif NessaiVerif.Parse NessaiVerif.Meta

def showErr : Err → String
  | .runtimeErr => "err=runtime"
  | .valueErr => "err=value"
  | .shapeErr => "err=shape"

def parsePair? (s : String) : Option (Nat × Rat) :=
  match splitTop s ':' with
  | [a, b] => do some ((← parseNat? a), (← parseRat? b))
  | _ => none

def parseNew? (s : String) : Option (Nat × Rat × List Rat) :=
  match splitTop s ':' with
  | [a, b, c] => do some ((← parseNat? a), (← parseRat? b), (← parseList? parseRat? c))
  | _ => none

def showMS (s : MS Rat) : String := s!"{s.id}:{showRat s.Q}:{showRat s.W}:{showList showRat s.row}"

def dump (s : St Rat) : String :=
  s!"counts={showList toString s.counts} weights={showList showRat s.weights} " ++
  s!"train={showList showMS s.train} iid={showList showMS s.iid}"

def stepOp (s : St Rat) (op : String) : Option (St Rat × String) :=
  match (op.splitOn " ").filter (· ≠ "") with
  | ["pop", a, b] => do
      let a ← parseList? parsePair? a
      let b ← parseList? parsePair? b
      some (populate s.useIid a b, "ok")
  | ["w", j, n] => do
      let j ← parseNat? j
      let n ← parseNat? n
      match addProposalWeight s j n with
      | .ok s' => some (s', "ok")
      | .error e => some (s, showErr e)
  | ["t", it, a, b] => do
      let it ← parseInt? it
      let a ← parseList? parseNew? a
      let b ← parseList? parsePair? b
      match addAndUpdateTrain s it a b with
      | .ok s' => some (s', "ok")
      | .error e => some (s, showErr e)
  | ["i", it, a, b] => do
      let it ← parseInt? it
      let a ← parseList? parseNew? a
      let b ← parseList? parsePair? b
      match addAndUpdateIid s it a b with
      | .ok s' => some (s', "ok")
      | .error e => some (s, showErr e)
  | ["dump"] => some (s, dump s)
  | _ => none

def runOps (s : St Rat) : List String → List String
  | [] => []
  | op :: ops =>
    match stepOp s op with
    | some (s', out) => out :: runOps s' ops
    | none => ["bad-op"]

def handle (toks : List String) : String :=
  match toks with
  | "run" :: ui :: rest =>
    match parseBool? ui with
    | some ui => "|".intercalate (runOps { useIid := ui } ((" ".intercalate rest).splitOn ";"))
    | none => "bad-op"
  | _ => "bad-op"

end NessaiVerif.Driver.Meta
