"""C11 — a process kill during checkpointing never leaves the run unresumable."""
import hashlib
import os
import pickle
import shutil
import tempfile
import time
import traceback

from . import core
from . import c11_gen

PROPS_MODULE = "NessaiVerif.Props.C11"
F3_KEY = "FlowModel.save_weights:torn-weights-file"
# residual defects of the weights protocol (the resume returns, but with an untrained flow)
K_TWO = "FlowModel.save_weights:two-consecutive-killed-saves:untrained-weights-after-resume"
K_GAP = "FlowModel.save_weights:killed-between-move-and-save:untrained-weights-after-resume"
K_DRIFT = "FlowModel.load_weights:weights-path-drifted-to-old:untrained-weights-after-resume"
MANIFEST = dict(
    text="Lean theorems over a file-system model (path -> absent | complete v | torn k; bytes written through a handle are "
         "pending until its close) of the checkpoint protocol: the statement lists of safe_file_dump (both save_existing "
         "values) and FlowModel.save_weights, the except tuples / file order of FlowSampler.check_resume/_resume_from_file "
         "and the weights-reload shape of FlowProposal.resume are GENERATED from the source with ast on every run "
         "(Gen/CrashFS.lean) and the theorems are about these generated definitions. Proved for EVERY history (any number of "
         "checkpoints in either mode and weight saves, each completed or killed at any operation boundary, after any number "
         "of bytes of a write, or with any flushed prefix of an unclosed file, with restarts in between), both samplers: the "
         "checkpoint file and its .old are never torn (reachable_wellformed); resume never raises and the checkpoint VERSION "
         "it loads is the previous or the new one, or a fresh start when none completed (crash_safe_state; weights_crash_safe "
         "and ins_levels_safe are its two instances; weights_crash_safe_of_handler gives the reason for any reload shape "
         "passing WeightsHandler.safe, weights_crash_safe_of_handler_fails_without / weights_torn_witness the counter-example "
         "for the pre-82a3f13 shape, finding F3, fixed). That conclusion does NOT say which flow weights come back: "
         "weights_back_partial proves that one weights save killed ANYWHERE (between the move and the save included) from a "
         "state whose previous save completed comes back with the last completely saved (or the new) weights and records "
         "model.pt again; weights_path_never_drifts proves for every history that neither the flow nor any checkpoint on disk "
         "ever records model.pt.old; weights_back_two_kills_witness PROVES that after two consecutive killed saves the code "
         "as it is resumes with an UNTRAINED flow (known finding, FlowModel.save_weights unchanged); "
         "weights_back_missing_file_witness / weights_back_path_drift_witness record, against the earlier reload shapes, the "
         "two defects repaired by e1ff52c / d143089 — all three reproduced "
         "on the real code by the fault injector. Oracle-only (no theorem): the unpickled object equals the pickled state, "
         "and sampling can continue (every resumed object is driven on; killed real runs are run to their end). Tie: the "
         "real safe_file_dump / BaseNestedSampler.checkpoint / FlowModel.save_weights are killed by fault injection "
         "(BaseException from wrappers on os.path.exists, shutil.move, os.replace/rename, open/close, pickle.dump, torch.save "
         "before the j-th operation or after k bytes of a write; the kill does not flush user-space buffers) for every j and "
         "a byte ladder (dense offsets in the thorough tier); after each kill the directory listing, the executed operation "
         "sequence and the outcome of the real resume path — Fresh / Loaded(checkpoint version, recorded weights path, "
         "weights version that came back, path now in memory) / Raises(type) — are compared with the model (stand-in "
         "BaseNestedSampler subclass; real NestedSampler/ImportanceNestedSampler pickles with the real "
         "FlowSampler(resume=True), also in a forked child; short real runs of both samplers killed and continued).",
    note="Assumed: rename (shutil.move/os.replace within a directory) is atomic; a killed writer leaves a prefix of the bytes; "
         "bytes written through a handle are only on disk once the handle is closed (model: `write` leaves the file pending "
         "under whatever name it has, a kill keeps an arbitrary prefix; injection: the kill does not flush — the on-disk "
         "size is read through the file system at the kill and the file is truncated back to it after unwinding; the real "
         "pickle.dump runs through the real BufferedWriter); unpickling/torch.load of a prefix raises (the class torch.load "
         "raises is observed and handed to the model as an input). pickle/torch byte formats abstracted to complete/torn. "
         "Importance-sampler level weights carry no version in the model (only complete/torn).",
    technique="Lean 4 proof (invariant + induction over histories) over source-generated protocol lists + fault-injection "
              "correspondence with the real functions",
    ref="5/C11")

GEN_PATH = core.LEAN / "NessaiVerif" / "Gen" / "CrashFS.lean"
_gen_info = {}


# ----------------------------------------------------------------------------- translator
def gen(ctx):
    try:
        text, info = c11_gen.generate(core.REPO)
    except c11_gen.Untranslatable as e:
        ctx.broken("translator: " + str(e), "the source no longer has the shape the C11 translator maps; "
                   "Gen/CrashFS.lean was left as it was (theorems are about the last translatable source)")
        return
    except SyntaxError as e:
        ctx.broken("translator: source does not parse: " + str(e))
        return
    _gen_info.update(info)
    old = GEN_PATH.read_text() if GEN_PATH.exists() else None
    if old != text:
        GEN_PATH.write_text(text)
    ctx.extra["generated"] = {k: info[k] for k in ("dump_true", "dump_false", "save_weights", "handler", "resume",
                                                    "temp_suffix")}
    ctx.extra["generated_from"] = info["headers"]
    ctx.trust("translator harness/c11_gen.py (ast -> Stmt/Op lists, except tuples, reload shape; wiring facts checked)")


# ----------------------------------------------------------------------------- nessai-side fixtures
_cache = {}


def nessai_bits():
    if _cache:
        return _cache
    import logging
    import numpy as np
    import torch  # noqa
    from nessai.flowsampler import FlowSampler
    from nessai.model import Model
    from nessai.samplers.base import BaseNestedSampler
    logging.disable(logging.CRITICAL)

    class Gauss(Model):
        def __init__(self):
            self.names = ["x", "y"]
            self.bounds = {"x": [-5, 5], "y": [-5, 5]}

        def log_prior(self, x):
            return np.log(self.in_bounds(x), dtype=float) - np.log(100.0)

        def log_likelihood(self, x):
            return -0.5 * (x["x"] ** 2 + x["y"] ** 2)

        def to_unit_hypercube(self, x):
            y = x.copy()
            y["x"] = (x["x"] + 5) / 10
            y["y"] = (x["y"] + 5) / 10
            return y

        def from_unit_hypercube(self, x):
            y = x.copy()
            y["x"] = x["x"] * 10 - 5
            y["y"] = x["y"] * 10 - 5
            return y

    _cache.update(np=np, FlowSampler=FlowSampler, Gauss=Gauss, BaseNestedSampler=BaseNestedSampler)
    return _cache


def payload_for(v, size):
    h = hashlib.sha256(f"payload-{v}".encode()).digest()
    return (h * (size // len(h) + 1))[:size]


def _stub_class():
    if "Stub" in _cache:
        return _cache["Stub"]
    Base = nessai_bits()["BaseNestedSampler"]
    global StubSampler

    class StubSampler(Base):
        """small picklable stand-in sampler: everything that touches files is inherited from BaseNestedSampler
        (checkpoint -> safe_file_dump, resume -> open + pickle.load, resume_from_pickled_sampler)"""
        payload = b""

        @property
        def posterior_effective_sample_size(self):
            return 0.0

        def log_state(self):
            pass

        def nested_sampling_loop(self):
            pass

        @classmethod
        def resume_from_pickled_sampler(cls, sampler, model, flow_config=None, weights_path=None, **kwargs):
            return super().resume_from_pickled_sampler(sampler, model, **kwargs)

    StubSampler.__module__ = __name__
    StubSampler.__qualname__ = "StubSampler"
    _cache["Stub"] = StubSampler
    return StubSampler


def classify_exc(e):
    """exception -> canonical name; an unpickling failure of the resume pickle itself is `torn-pickle`"""
    name = type(e).__name__
    if name in ("EOFError", "UnpicklingError"):
        tb = e.__traceback__
        last = None
        while tb is not None:
            last = tb
            tb = tb.tb_next
        if last is not None:
            co = last.tb_frame.f_code
            if co.co_name == "resume" and co.co_filename.replace("\\", "/").endswith("nessai/samplers/base.py"):
                return "torn-pickle"
    return name


def exc_involves_weights(e):
    for fr in traceback.extract_tb(e.__traceback__):
        if fr.name in ("reload_weights", "load_weights", "load_all_weights", "update_weights_path"):
            return True
    return False


STD_KW = dict(nlive=20, plot=False, resume_file="ckpt.pkl", signal_handling=False, seed=1234,
              flow_config=dict(n_blocks=1, n_neurons=4, n_layers=1))


def wcode(path):
    """code of a recorded weights path: 0 none, 1 model.pt, 2 model.pt.old (the model's `primary`)"""
    if path is None:
        return 0
    return 2 if os.path.basename(str(path)).endswith(".old") else 1


def weights_back_fail(ctx, layer, out, listing, killed_saves, last_saved, attempted, case):
    """oracle for WHICH weights come back: a checkpoint that recorded weights must come back with trained ones —
    the last completely saved version or one whose save was attempted after it"""
    v, n, w, m = out[1:5]
    if n == 0:
        return
    if w == 0:
        ws = listing.split(" ")[1][len("w="):].split(",")
        if n == 2:
            key, why = K_DRIFT, ("the checkpoint recorded `model.pt.old` (after an earlier fallback FlowModel.load_weights set "
                                 "weights_file to the .old file), a later save rotated a torn file over it")
        elif ws[0] == "-" and ws[1].startswith("C"):
            key, why = K_GAP, ("the process died between the move of model.pt to model.pt.old and torch.save; "
                               "FlowProposal.resume skips the reload when model.pt is missing although .old is complete")
        elif killed_saves >= 2:
            key, why = K_TWO, ("two consecutive weights saves were killed: the second moved the torn model.pt over the good "
                               "model.pt.old before being killed itself, reload and fallback both failed and were swallowed")
        else:
            key, why = f"FlowProposal.resume:untrained-weights-after-resume:{layer}", "no weights were reloaded"
        ctx.oracle_fail(key, f"resume loaded checkpoint {v} (which recorded flow weights) but the flow came back UNTRAINED: "
                        f"{why} (directory: {listing})", case)
    elif w is not True and w not in [last_saved] + attempted:
        ctx.oracle_fail("resume:stale-weights", f"resume came back with weights version {w}, neither the last completely saved "
                        f"({last_saved}) nor a later attempted one {attempted} (directory: {listing})", case)


def exc_letter(e):
    """what torch.load raised on a torn file -> the model's input letter"""
    if isinstance(e, EOFError):
        return "E"
    if isinstance(e, pickle.UnpicklingError):
        return "U"
    if isinstance(e, FileNotFoundError):
        return "F"
    if isinstance(e, OSError):
        return "O"
    if isinstance(e, RuntimeError):
        return "R"
    return "?" + type(e).__name__


def describe_weights(path, versions=True):
    import torch
    if not os.path.exists(path):
        return "-"
    try:
        sd = torch.load(path)
    except Exception as e:  # noqa
        return f"T{os.path.getsize(path)}{exc_letter(e)}"
    if not versions:
        return "C"
    key = _cache.get("stamp_key")
    first = sd[key] if key in sd else next(iter(sd.values()))
    return f"C{int(round(float(first.flatten()[0])))}.0"


class Backend:
    """a scratch run directory + the real objects living in it"""
    kind = "std"

    def __init__(self, layer):
        from .c11_inject import Injector
        self.layer = layer
        self.dir = tempfile.mkdtemp(prefix="c11-")
        self.inj = Injector(self.dir)
        self.cur = None
        self.model = nessai_bits()["Gauss"]()

    def close(self):
        shutil.rmtree(self.dir, ignore_errors=True)

    # -- files
    def ckpt_path(self, suffix=""):
        return os.path.join(self.dir, "ckpt.pkl" + suffix)

    def weights_path(self, suffix=""):
        return os.path.join(self.dir, "proposal", "model.pt" + suffix)

    def pickle_n(self, obj):
        return 0

    def describe_pickle(self, path):
        if not os.path.exists(path):
            return "-"
        data = open(path, "rb").read()
        try:
            obj = pickle.loads(data)
            return f"C{int(obj.iteration)}.{self.pickle_n(obj)}"
        except Exception:  # noqa
            return f"T{len(data)}"

    def describe_weights(self, path, versions=True):
        return describe_weights(path, versions)

    def listing(self):
        ck = ",".join(self.describe_pickle(self.ckpt_path(s)) for s in ("", ".old", ".temp"))
        w = ",".join(self.describe_weights(self.weights_path(s)) for s in ("", ".old", ".temp"))
        return f"ckpt={ck} w={w}"


class StubBackend(Backend):
    def __init__(self, payload_size=64):
        super().__init__("stub")
        self.payload_size = payload_size
        self.shell = object.__new__(nessai_bits()["FlowSampler"])
        self.shell.output = os.path.join(self.dir, "")

    def start(self):
        out, obj = self.resume()
        return out

    def fresh(self):
        Stub = _stub_class()
        return Stub(self.model, nlive=10, output=self.dir, resume_file="ckpt.pkl", seed=1234)

    def resume(self, child=False):
        """the real FlowSampler.check_resume + _resume_from_file on the stand-in class"""
        Stub = _stub_class()
        try:
            if self.shell.check_resume("ckpt.pkl", None):
                obj = self.shell._resume_from_file(Stub, "ckpt.pkl", self.model, None, None)
                out = ("loaded", int(obj.iteration), 0, 0, 0)
                if obj.payload != payload_for(obj.iteration, len(obj.payload)) or not obj.resumed:
                    out = ("loaded-corrupt", int(obj.iteration), 0, 0, 0)
            else:
                obj = self.fresh()
                out = ("fresh",)
        except BaseException as e:  # noqa
            self.cur = None
            return ("raises", classify_exc(e), exc_involves_weights(e)), None
        self.cur = obj
        return out, obj

    def ckpt(self, se, v):
        self.cur.iteration = v
        self.cur.payload = payload_for(v, self.payload_size)
        self.cur.checkpoint(periodic=True, force=True, save_existing=se)

    def ckpt_n(self):
        return 0


class StdBackend(Backend):
    """real NestedSampler + FlowProposal + FlowModel, real FlowSampler(resume=True)"""

    def __init__(self):
        super().__init__("std")

    def pickle_n(self, obj):
        return wcode(getattr(obj._flow_proposal, "weights_file", None))

    def _construct(self):
        FlowSampler = nessai_bits()["FlowSampler"]
        fs = FlowSampler(nessai_bits()["Gauss"](), output=self.dir, resume=True, **STD_KW)
        ns = fs.ns
        if ns.resumed:
            fp = ns._flow_proposal
            m = wcode(fp.flow.weights_file)          # what the flow actually loaded (None: nothing -> untrained)
            w = 0
            if m:
                sd = fp.flow.model.state_dict()
                key = _cache.get("stamp_key")
                t = sd[key] if key in sd else next(iter(sd.values()))
                w = int(round(float(t.detach().flatten()[0])))
            return ("loaded", int(ns.iteration), wcode(fp.weights_file), w, m), ns
        return ("fresh",), ns

    def start(self):
        out, _ = self.resume()
        return out

    def resume(self, child=False):
        if child:
            from .c11_inject import run_in_child

            def job():
                try:
                    return self._construct()[0]
                except BaseException as e:  # noqa
                    return ("raises", classify_exc(e), exc_involves_weights(e))
            ok, res = run_in_child(job)
            self.child = res if ok else None
        try:
            out, ns = self._construct()
        except BaseException as e:  # noqa
            self.cur = None
            return ("raises", classify_exc(e), exc_involves_weights(e)), None
        if out[0] == "fresh":
            ns._flow_proposal.initialise()
        self.cur = ns
        return out, ns

    def ckpt(self, se, v):
        self.cur.iteration = v
        self.cur.checkpoint(periodic=True, force=True, save_existing=se)

    def ckpt_n(self):
        return wcode(self.cur._flow_proposal.flow.weights_file)

    def train(self, w):
        import torch
        flow = self.cur._flow_proposal.flow
        name, par = next(iter(flow.model.named_parameters()))
        _cache["stamp_key"] = name
        with torch.no_grad():
            par.fill_(float(w))
        flow.save_weights(os.path.join(self.cur._flow_proposal.output, "model.pt"))


# ----------------------------------------------------------------------------- scripted histories
def cp_token(rec, cp, nops):
    """model token for the crash point actually realised (`~f`: on-disk size of a written, unclosed file)"""
    if cp is None:
        return "-"
    j = cp[0]
    if rec.get("crashed"):
        fl = "" if rec.get("flushed") is None else f"~{rec['flushed']}"
        if rec["k"] is None:
            return str(rec["j"]) + fl
        return f"{rec['j']}.{rec['k']}" + fl
    return str(j)      # the protocol completed and the process died afterwards (j >= number of operations)


def run_scripted(be, events, child_every=0):
    """drive the real code through `events`; -> list of step records (stops when a resume raises)"""
    from .c11_inject import Kill
    steps = []
    out0 = be.start()
    if out0[0] != "fresh":
        steps.append(dict(ev=None, error=f"empty directory did not start afresh: {out0}"))
        return steps
    for i, ev in enumerate(events):
        cp = ev.get("cp")
        idx = len(be.inj.calls)
        if cp is not None:
            be.inj.arm(idx, cp[0], cp[1])
        else:
            be.inj.disarm()
        n = be.ckpt_n() if ev["t"] == "c" else 0
        killed = False
        err = None
        try:
            with be.inj.instrument():
                if ev["t"] == "c":
                    be.ckpt(bool(ev["se"]), int(ev["v"]))
                else:
                    be.train(int(ev["w"]))
        except Kill:
            killed = True
        except BaseException as e:  # noqa
            err = f"{type(e).__name__}: {e}"
        be.inj.disarm()
        rec = be.inj.calls[idx] if len(be.inj.calls) > idx else dict(ops=[], crashed=False, j=None, k=None, len=None)
        length = rec.get("len")
        if length is None:
            p = be.ckpt_path() if ev["t"] == "c" else be.weights_path()
            length = os.path.getsize(p) if os.path.exists(p) else 1
        cpt = cp_token(rec, cp, len(rec["ops"]))
        if ev["t"] == "c":
            tok = f"c:{int(bool(ev['se']))}:{int(ev['v'])}:{n}:{length}:{cpt}"
        else:
            wd = describe_weights(be.weights_path())
            letter = wd.lstrip("T0123456789") if wd.startswith("T") else "R"
            tok = f"t:{int(ev['w'])}:{length}:{letter}:{cpt}"
        st = dict(ev=ev, tok=tok, ops=list(rec["ops"]), killed=killed, crashed=cp is not None, error=err,
                  listing=be.listing(),
                  inside=bool(rec.get("crashed") and rec.get("k") is not None and not rec.get("atomic_inside")),
                  op_at=(rec["ops"][-1] if rec.get("crashed") and rec.get("k") is not None and rec["ops"]
                         and not rec.get("atomic_inside") else None))
        if err is not None:
            steps.append(st)
            break
        if cp is not None:
            use_child = bool(child_every) and (len(steps) % child_every == 0)
            be.child = None
            out, _ = be.resume(child=use_child)
            st["outcome"] = out
            if use_child:
                st["child"] = be.child
            steps.append(st)
            if out[0] == "raises":
                break
        else:
            steps.append(st)
    return steps


def fmt_outcome(out):
    if out[0] == "fresh":
        return "fresh"
    if out[0] == "loaded":
        return ":".join(["loaded"] + [str(int(x)) for x in out[1:5]])
    if out[0] == "raises":
        return f"raises:{out[1]}"
    return ":".join(str(x) for x in out)


def oracle_scripted(ctx, layer, steps, case):
    """the property, evaluated on what the REAL code did (independent of the Lean model)"""
    allowed = [None]
    last_saved, attempted, killed_saves = 0, [], 0
    for st in steps:
        ev = st["ev"]
        if ev is None or st.get("error"):
            ctx.oracle_fail(f"{layer}:protocol-error", f"write protocol or start-up failed: {st.get('error')}", case)
            return
        if ev["t"] == "c":
            allowed = ([ev["v"]] + allowed) if st["crashed"] else [ev["v"]]
        else:
            if st["crashed"]:
                attempted.append(ev["w"])
                killed_saves += 1
            else:
                last_saved, attempted, killed_saves = ev["w"], [], 0
        ck = st["listing"].split(" ")[0][len("ckpt="):].split(",")
        if ck[0].startswith("T") or ck[1].startswith("T"):
            ctx.oracle_fail("safe_file_dump:torn-checkpoint-file",
                            f"the checkpoint file or its .old is torn after a kill: {st['listing']}", case)
        if not st["crashed"]:
            continue
        out = st["outcome"]
        if st.get("child") is not None and fmt_outcome(st["child"]) != fmt_outcome(out):
            ctx.oracle_fail(f"{layer}:resume-differs-in-fresh-process",
                            f"resume in a forked child gave {st['child']} but in-process {out}", case)
        if out[0] == "raises":
            w = st["listing"].split(" ")[1][len("w="):].split(",")
            if w[0].startswith("T"):
                ctx.oracle_fail(F3_KEY, f"after a kill the run cannot be resumed: {out[1]} while loading the flow weights "
                                f"(directory: {st['listing']})", case)
            elif len(out) > 2 and out[2]:
                ctx.oracle_fail(f"FlowProposal.resume:weights-{'missing' if w[0] == '-' else 'complete'}:{out[1]}",
                                f"after a kill the run cannot be resumed: {out[1]} while loading the flow weights although "
                                f"the weights file is not torn (directory: {st['listing']})", case)
            else:
                ctx.oracle_fail(f"resume-raises:{('save_existing' if ev.get('se') else 'replace') if ev['t'] == 'c' else 'weights-save'}:{out[1]}",
                                f"after a kill the run cannot be resumed: {out[1]} (directory: {st['listing']})", case)
            return
        if out[0] == "fresh":
            if None not in allowed:
                ctx.oracle_fail("resume:fresh-despite-completed-checkpoint",
                                f"a checkpoint had completed but the run started afresh (directory: {st['listing']})", case)
        elif out[0] == "loaded":
            if out[1] not in allowed:
                w = st["listing"].split(" ")[1][len("w="):].split(",")
                if w[0].startswith("T"):
                    ctx.oracle_fail(F3_KEY, f"the flow weights file is torn and resume silently fell back to the older checkpoint "
                                    f"{out[1]} instead of {allowed} (directory: {st['listing']})", case)
                else:
                    ctx.oracle_fail("resume:loaded-unexpected-version",
                                    f"resume loaded version {out[1]}, neither the previous nor the new checkpoint {allowed}", case)
            if layer == "std":
                weights_back_fail(ctx, layer, out, st["listing"], killed_saves, last_saved, attempted, case)
        else:
            ctx.oracle_fail("resume:loaded-corrupt-state", f"resume returned a damaged state: {out}", case)


def model_lines_scripted(kind, steps):
    """protocol lines + expected implementation strings for every step"""
    lines, impls, tags = [], [], []
    toks = []
    for i, st in enumerate(steps):
        if st.get("ev") is None or st.get("error"):
            break
        # operations executed by this event
        lines.append("fs ops " + kind + " " + st["tok"] + (" " if toks else "") + " ".join(toks))
        impls.append(list(st["ops"]))
        tags.append(("ops", i))
        toks.append(st["tok"])
        lines.append("fs hist " + kind + " " + " ".join(toks))
        impls.append((st["listing"], fmt_outcome(st["outcome"]) if st["crashed"] else None))
        tags.append(("hist", i))
    return lines, impls, tags


def compare_scripted(ctx, kind, steps, case, norm=None):
    lines, impls, tags = model_lines_scripted(kind, steps)
    if not lines:
        return
    outs = ctx.model(lines)
    for line, mo, io, (tag, i) in zip(lines, outs, impls, tags):
        if tag == "ops":
            mops = [t.split(":")[0] for t in mo.split(" ") if t]
            st = steps[i]
            want = mops if not st["killed"] else mops[:len(io)]
            if io != want or (st["crashed"] and not st["killed"] and int(st["tok"].rsplit(":", 1)[1].split("~")[0].split(".")[0]) < len(mops)):
                ctx.disagree("operation sequence of the real protocol differs from the generated statement list",
                             {"line": line, "model": mo, "impl": " ".join(io), "case": case, "step": i})
        else:
            listing, out = io
            mparts = dict(p.split("=", 1) for p in mo.split(" ") if "=" in p)
            mlist = f"ckpt={mparts.get('ckpt')} w={mparts.get('w')}"
            if norm:
                mlist, listing = norm(mparts), listing
            if mlist != listing:
                ctx.disagree("directory listing after the step differs from the model's file system",
                             {"line": line, "model": mlist, "impl": listing, "case": case, "step": i})
            if out is not None and mparts.get("out") != out:
                ctx.disagree("outcome of the real resume differs from the model's resume",
                             {"line": line, "model": mparts.get("out"), "impl": out, "case": case, "step": i})


def scripted_case(ctx, layer, events, child_every=0, payload=64, record=True):
    be = StubBackend(payload) if layer == "stub" else StdBackend()
    case = dict(layer=layer, events=events, payload=payload)
    try:
        steps = run_scripted(be, events, child_every)
    finally:
        be.close()
    oracle_scripted(ctx, layer, steps, case)
    compare_scripted(ctx, "std", steps, case)
    if record:
        last = steps[-1] if steps else {}
        ncomplete = sum(1 for s in steps if s.get("ev") and s["ev"]["t"] == "c" and not s["crashed"])
        kind = f"{layer}:" + (last.get("ev", {}) or {}).get("t", "?") + ":" + \
            ("inside-" + str(last.get("op_at")) if last.get("inside") else ("kill-before-op" if last.get("crashed") else "completed"))
        key = (layer, tuple(s.get("tok") for s in steps))
        ctx.case(key, ncomplete >= 1 or bool(last.get("inside")),
                 dict(layer=layer, history=[s.get("tok") for s in steps], listing=last.get("listing"),
                      outcome=fmt_outcome(last["outcome"]) if last.get("outcome") else None), kind=kind)
        if any(s.get("crashed") for s in steps):
            ctx.traces += 1
    return steps


def model_ops(ctx, kind, tok, prefix_toks):
    out = ctx.model(["fs ops " + kind + " " + tok + (" " if prefix_toks else "") + " ".join(prefix_toks)])[0]
    return [t.split(":")[0] for t in out.split(" ") if t]


def crash_points(nops_kinds, ladder):
    """every crash point of an operation list: before each op, after the last, inside each write/save on the ladder"""
    pts = []
    for j, kind in enumerate(nops_kinds):
        pts.append([j, None])
        if kind in ("W", "S"):
            for k in ladder:
                pts.append([j, k])
    pts.append([len(nops_kinds), None])
    return pts


PREFIXES_STUB = [
    [],
    [dict(t="c", se=True, v=1)],
    [dict(t="c", se=True, v=1), dict(t="c", se=True, v=2)],
    [dict(t="c", se=False, v=1), dict(t="c", se=False, v=2), dict(t="c", se=False, v=3)],
    [dict(t="c", se=True, v=1), dict(t="c", se=False, v=2), dict(t="c", se=True, v=3)],
]
PREFIXES_STD = [
    [],
    [dict(t="c", se=True, v=1)],
    [dict(t="t", w=1), dict(t="c", se=True, v=1)],
    [dict(t="c", se=True, v=1), dict(t="t", w=1), dict(t="c", se=True, v=2)],
    [dict(t="t", w=1), dict(t="c", se=True, v=1), dict(t="c", se=True, v=2)],
    [dict(t="t", w=1), dict(t="c", se=False, v=1), dict(t="t", w=2), dict(t="c", se=False, v=2)],
    [dict(t="t", w=1), dict(t="c", se=True, v=1), dict(t="t", w=2), dict(t="c", se=True, v=2), dict(t="c", se=True, v=3)],
]


def ops_for_last(ctx, prefix, last):
    """operation kinds of the last event after `prefix`, asked from the model (the generated statement lists);
    only existence of files matters, so sizes / counts in the tokens are dummies"""
    def tok(e):
        if e["t"] == "c":
            return f"c:{int(bool(e['se']))}:{int(e.get('v', 1))}:0:9:-"
        return f"t:{int(e.get('w', 1))}:9:R:-"
    return model_ops(ctx, "std", tok(last), [tok(e) for e in prefix])


def structured(ctx, layer, prefixes, lasts, ladder, child_every=0, payload=64, budget=None):
    t0 = time.time()
    for prefix in prefixes:
        vmax = max([e.get("v", 0) for e in prefix] + [0])
        wmax = max([e.get("w", 0) for e in prefix] + [0])
        for last in lasts:
            ev = dict(last)
            if ev["t"] == "c":
                ev["v"] = vmax + 1
            else:
                ev["w"] = wmax + 1
            # the op list is what the model says the event does here; a wrong guess only changes which points are tried
            for cp in crash_points(ops_for_last(ctx, prefix, ev), ladder):
                e2 = dict(ev)
                e2["cp"] = cp
                scripted_case(ctx, layer, [dict(e) for e in prefix] + [e2], child_every, payload)
                if budget and time.time() - t0 > budget:
                    return


def random_history(rng, layer, length):
    evs, v, w = [], 0, 0
    for _ in range(length):
        if layer == "std" and rng.random() < 0.4:
            w += 1
            ev = dict(t="t", w=w)
            nops = 3
        else:
            v += 1
            ev = dict(t="c", se=rng.random() < 0.6, v=v)
            nops = 6
        r = rng.random()
        if r < 0.45:
            j = rng.randrange(0, nops + 1)
            k = None
            if rng.random() < 0.6:
                k = rng.choice([0, 1, 2, 3, 4, 5, "half", "last", "full", rng.randrange(0, 200)])
            ev["cp"] = [j, k]
        evs.append(ev)
    return evs


# ----------------------------------------------------------------------------- arbitrary directory states
def malformed(ctx):
    """boundary stream: hand-made (mostly unreachable) directory states; the real resume vs the model's `resume`"""
    import torch
    be = StdBackend()
    sb = StubBackend(48)
    lines, impls, cases = [], [], []
    try:
        # material: complete pickles (with and without a weights reference) and a complete weights file
        be.start()
        be.ckpt(True, 1)
        p0 = open(be.ckpt_path(), "rb").read()
        be.train(1)
        be.ckpt(True, 2)
        p1 = open(be.ckpt_path(), "rb").read()
        wdata = open(be.weights_path(), "rb").read()
        sb.start()
        sb.ckpt(True, 1)
        s0 = open(sb.ckpt_path(), "rb").read()
        torn_p = [0, 1, 2, 3, len(p1) // 2, len(p1) - 1]
        torn_w = [0, 1, 3, 4, 100, 4096, 4097, len(wdata) // 2, len(wdata) - 1]

        def contents(kind, real):
            res = [("-", None)]
            if real:
                res += [("C1.0", p0), ("C2.1", p1)] + [(f"T{k}", p1[:k]) for k in torn_p]
            else:
                res += [("C1.0", s0)] + [(f"T{k}", s0[:k]) for k in (0, 1, 2, 3, len(s0) // 2, len(s0) - 1)]
            return res

        def write(path, data):
            if data is None:
                if os.path.exists(path):
                    os.remove(path)
            else:
                os.makedirs(os.path.dirname(path), exist_ok=True)
                with open(path, "wb") as fh:
                    fh.write(data)

        wstates = [("-", None), ("C1.0", wdata)]
        for k in torn_w:
            write(be.weights_path(".probe"), wdata[:k])
            wstates.append((describe_weights(be.weights_path(".probe")), wdata[:k]))
        write(be.weights_path(".probe"), None)
        combos = []
        for b in contents("b", True):
            for o in contents("o", True):
                for w in wstates:
                    combos.append((be, b, o, w))
        ctx.rng.shuffle(combos)
        combos = combos[:ctx.scale(160, 10 ** 6)]
        for b in contents("b", False):
            for o in contents("o", False):
                combos.append((sb, b, o, ("-", None)))
        for bk, b, o, w in combos:
            write(bk.ckpt_path(), b[1])
            write(bk.ckpt_path(".old"), o[1])
            write(bk.ckpt_path(".temp"), None)
            write(bk.weights_path(), w[1])
            write(bk.weights_path(".old"), None)
            out, _ = bk.resume()
            case = dict(layer="state:" + bk.layer, ckpt=b[0], old=o[0], weights=w[0])
            lines.append(f"fs resume std 0 ckpt.base={b[0]} ckpt.old={o[0]} w.base={w[0]}")
            impls.append(fmt_outcome(out))
            cases.append(case)
            reachable = not (b[0].startswith("T") or o[0].startswith("T"))
            ctx.case(("state", bk.layer, b[0], o[0], w[0]), True, case if not reachable else None,
                     kind="state:" + ("reachable" if reachable else "torn-checkpoint(unreachable)") + ":" + out[0])
    finally:
        be.close()
        sb.close()
    ctx.diff_model(lines, impls, cases, what="resume on a hand-made directory state: model != implementation")


# ----------------------------------------------------------------------------- real runs, killed
def level_listing(dirpath, top=None):
    import torch
    base = os.path.join(dirpath, "levels")
    idx = []
    if os.path.isdir(base):
        for name in os.listdir(base):
            if name.startswith("level_") and name[6:].isdigit():
                idx.append(int(name[6:]))
    n = (max(idx) + 1) if idx else 0
    parts = []
    for i in range(n):
        row = []
        for suf in ("", ".old"):
            p = os.path.join(base, f"level_{i}", "model.pt" + suf)
            if not os.path.exists(p):
                row.append("-")
            else:
                row.append(describe_weights(p, versions=False))
        parts.append(f"{i}:{row[0]}/{row[1]}")
    return "[" + ";".join(parts) + "]"


def norm_levels(s):
    import re
    return re.sub(r"C\d+\.\d+", "C", s)


def torn_letter(listing):
    """exception letter of the (single) torn weights/level file in a listing, default R"""
    import re
    m = re.search(r"T\d+([A-Z])", listing.split(" ", 1)[1] if " " in listing else "")
    return m.group(1) if m else "R"


class RealRun:
    """a real FlowSampler run (standard or importance sampler) with kills injected inside real checkpoints /
    weight saves; after each kill the run is resumed with FlowSampler(resume=True) and continued"""

    def __init__(self, ins, seed, se_ckpt, max_it):
        from .c11_inject import Injector
        self.ins = ins
        self.dir = tempfile.mkdtemp(prefix="c11-run-")
        self.inj = Injector(self.dir)
        common = dict(plot=False, resume_file="ckpt.pkl", signal_handling=False, seed=seed,
                      flow_config=dict(n_blocks=1, n_neurons=4, n_layers=1), checkpoint_on_iteration=True,
                      max_iteration=max_it)
        if ins:
            self.kw = dict(common, nlive=100, min_samples=10, importance_nested_sampler=True, checkpoint_interval=1,
                           training_config=dict(max_epochs=2, patience=1), plotting_frequency=10 ** 6,
                           save_existing_checkpoint=se_ckpt)
        else:
            self.kw = dict(common, nlive=50, checkpoint_interval=40, maximum_uninformed=60, training_frequency=60,
                           training_config=dict(max_epochs=3, patience=2), cooldown=20)
        self.se = se_ckpt if ins else True

    def close(self):
        shutil.rmtree(self.dir, ignore_errors=True)

    def construct(self):
        b = nessai_bits()
        fs = b["FlowSampler"](b["Gauss"](), output=self.dir, resume=True, **self.kw)
        ns = fs.ns
        if not ns.resumed:
            return ("fresh",), fs
        if self.ins:
            n = int(ns.proposal.flow.n_models)
            return ("loaded", int(ns.iteration), n, 0, n), fs
        fp = ns._flow_proposal
        m = wcode(fp.flow.weights_file)
        # real trainings cannot be stamped with a version: w is only "some weights were loaded" (1) or none (0)
        return ("loaded", int(ns.iteration), wcode(fp.weights_file), int(bool(m)), m), fs

    def resume(self, child=True):
        self.child = None
        if child:
            from .c11_inject import run_in_child

            def job():
                try:
                    return self.construct()[0]
                except BaseException as e:  # noqa
                    return ("raises", classify_exc(e), exc_involves_weights(e))
            ok, res = run_in_child(job)
            self.child = res if ok else None
        try:
            return self.construct()
        except BaseException as e:  # noqa
            return ("raises", classify_exc(e), exc_involves_weights(e)), None

    def ckpt_meta(self, data):
        if self.ins:
            n = len(data.proposal.flow.models) if getattr(data.proposal, "flow", None) is not None else 0
        else:
            n = wcode(getattr(getattr(data._flow_proposal, "flow", None), "weights_file", None))
        return dict(v=int(data.iteration), n=int(n))

    def pickle_desc(self, path):
        if not os.path.exists(path):
            return "-"
        data = open(path, "rb").read()
        try:
            obj = pickle.loads(data)
            if self.ins:
                n = int(obj.proposal.flow._resume_n_models)
            else:
                n = wcode(getattr(obj._flow_proposal, "weights_file", None))
            return f"C{int(obj.iteration)}.{n}"
        except Exception:  # noqa
            return f"T{len(data)}"

    def listing(self):
        ck = ",".join(self.pickle_desc(os.path.join(self.dir, "ckpt.pkl" + s)) for s in ("", ".old", ".temp"))
        if self.ins:
            return f"ckpt={ck} lv={level_listing(self.dir)}"
        w = ",".join(describe_weights(os.path.join(self.dir, "proposal", "model.pt" + s), versions=False)
                     for s in ("", ".old", ".temp"))
        return f"ckpt={ck} w={w}"

    def tokens_since(self, start):
        toks = []
        letter = torn_letter(self.listing())
        for rec in self.inj.calls[start:]:
            if rec["crashed"]:
                cp = str(rec["j"]) if rec["k"] is None else f"{rec['j']}.{rec['k']}"
                if rec.get("flushed") is not None:
                    cp += f"~{rec['flushed']}"
            else:
                cp = "-"
            length = rec.get("len") or 1
            if rec["kind"] == "c":
                toks.append(f"c:{int(rec['se'])}:{rec['v']}:{rec['n']}:{length}:{cp}")
            else:
                toks.append(f"t:{rec['index']}:{length}:{letter}:{cp}")
        return toks

    def run(self, targets):
        """targets: per segment (offset of the protocol call within the segment, j, k) or None (run to the end).
        -> list of segment records"""
        from .c11_inject import Kill
        segs = []
        out, fs = self.construct()
        if out[0] != "fresh":
            return [dict(error=f"empty directory did not start afresh: {out}")]
        toks = []
        for tgt in list(targets) + [None]:
            start = len(self.inj.calls)
            if tgt is not None:
                self.inj.arm(start + tgt[0] if isinstance(tgt[0], int) else tgt[0], tgt[1], tgt[2])
            else:
                self.inj.disarm()
            killed, err = False, None
            t0 = time.time()
            try:
                with self.inj.instrument(self.ckpt_meta):
                    if self.ins:
                        fs.ns.nested_sampling_loop()
                    else:
                        fs.run(save=False, plot=False)
            except Kill:
                killed = True
            except BaseException as e:  # noqa
                err = f"{type(e).__name__}: {e}"
            self.inj.disarm()
            toks += self.tokens_since(start)
            seg = dict(target=tgt, killed=killed, error=err, toks=list(toks), listing=self.listing(),
                       wall=round(time.time() - t0, 2), iteration=int(fs.ns.iteration))
            if killed:
                rec = self.inj.calls[-1]
                seg.update(call=rec["kind"], inside=rec["k"] is not None, op=(rec["ops"][-1] if rec["ops"] else None),
                           se=rec.get("se"))
                out, fs2 = self.resume(child=True)
                seg["outcome"] = out
                seg["child"] = self.child
                segs.append(seg)
                if out[0] == "raises":
                    break
                fs = fs2
            else:
                seg["finished"] = err is None
                segs.append(seg)
                break
        return segs


def oracle_run(ctx, rr, segs, case):
    layer = "ins-run" if rr.ins else "std-run"
    allowed = [None]
    killed_saves = 0
    seen = 0
    for seg in segs:
        if seg.get("error"):
            ctx.oracle_fail(f"{layer}:run-error", f"the (resumed) run failed: {seg['error']}", case)
            return
        for tok in seg["toks"][seen:]:
            f = tok.split(":")
            if f[0] == "c":
                allowed = [int(f[2])] if f[5] == "-" else [int(f[2])] + allowed
            else:
                killed_saves = 0 if f[4] == "-" else killed_saves + 1
        seen = len(seg["toks"])
        ck = seg["listing"].split(" ")[0][len("ckpt="):].split(",")
        if ck[0].startswith("T") or ck[1].startswith("T"):
            ctx.oracle_fail("safe_file_dump:torn-checkpoint-file", f"checkpoint or .old torn: {seg['listing']}", case)
        if not seg["killed"]:
            continue
        out = seg["outcome"]
        if seg.get("child") is not None and fmt_outcome(seg["child"]) != fmt_outcome(out):
            ctx.oracle_fail(f"{layer}:resume-differs-in-fresh-process", f"child {seg['child']} vs in-process {out}", case)
        if out[0] == "raises":
            second = seg["listing"].split(" ", 1)[1]
            torn_w = (not rr.ins) and second[len("w="):].split(",")[0].startswith("T")
            if torn_w:
                ctx.oracle_fail(F3_KEY, f"after a kill inside a weights save the run cannot be resumed: {out[1]} "
                                f"({seg['listing']})", case)
            elif len(out) > 2 and out[2]:
                ctx.oracle_fail(f"{layer}:weights-load-raises:{out[1]}", f"after a kill the run cannot be resumed: {out[1]} "
                                f"while loading weights ({seg['listing']})", case)
            else:
                ctx.oracle_fail(f"resume-raises:{layer}:{out[1]}", f"after a kill the run cannot be resumed: {out[1]} "
                                f"({seg['listing']})", case)
            return
        if out[0] == "fresh" and None not in allowed:
            ctx.oracle_fail("resume:fresh-despite-completed-checkpoint", f"started afresh although a checkpoint completed "
                            f"({seg['listing']})", case)
        if out[0] == "loaded" and out[1] not in allowed:
            second = seg["listing"].split(" ", 1)[1]
            if (not rr.ins) and second[len("w="):].split(",")[0].startswith("T"):
                ctx.oracle_fail(F3_KEY, f"the flow weights file is torn and resume silently fell back to the older checkpoint "
                                f"{out[1]} instead of {allowed} ({seg['listing']})", case)
            else:
                ctx.oracle_fail("resume:loaded-unexpected-version", f"loaded {out[1]}, allowed {allowed}", case)
        if out[0] == "loaded" and not rr.ins:
            weights_back_fail(ctx, layer, (out[0], out[1], out[2], True if out[3] else 0, out[4]), seg["listing"],
                              killed_saves, None, [], case)
    if segs and not segs[-1]["killed"] and not segs[-1].get("finished"):
        ctx.oracle_fail(f"{layer}:cannot-continue", "sampling could not continue after the resume", case)


def compare_run(ctx, rr, segs, case):
    kind = "ins" if rr.ins else "std"
    lines, impls = [], []
    for seg in segs:
        if seg.get("error") or not seg["toks"]:
            continue
        lines.append(f"fs hist {kind} " + " ".join(seg["toks"]))
        impls.append(seg)
    if not lines:
        return
    for line, mo, seg in zip(lines, ctx.model(lines), impls):
        mparts = dict(p.split("=", 1) for p in mo.split(" ") if "=" in p)
        if rr.ins:
            mlist = f"ckpt={mparts.get('ckpt')} lv={norm_levels(mparts.get('lv', ''))}"
        else:
            mlist = f"ckpt={mparts.get('ckpt')} w={norm_levels(mparts.get('w', ''))}"
        if mlist != seg["listing"]:
            ctx.disagree("real run: directory listing differs from the model's file system",
                         {"line": line, "model": mlist, "impl": seg["listing"], "case": case})
        mout = mparts.get("out") or ""
        if mout.startswith("loaded:") and not rr.ins:
            f = mout.split(":")
            f[3] = str(int(f[3] != "0"))       # weights versions of real trainings are not comparable: loaded or not
            mout = ":".join(f)
        if seg["killed"] and mout != fmt_outcome(seg["outcome"]):
            ctx.disagree("real run: outcome of FlowSampler(resume=True) differs from the model's resume",
                         {"line": line, "model": mout, "impl": fmt_outcome(seg["outcome"]), "case": case})


def real_run_case(ctx, ins, seed, se_ckpt, max_it, targets):
    rr = RealRun(ins, seed, se_ckpt, max_it)
    case = dict(layer="ins-run" if ins else "std-run", seed=seed, se=se_ckpt, max_it=max_it, targets=targets)
    try:
        segs = rr.run(targets)
    finally:
        rr.close()
    oracle_run(ctx, rr, segs, case)
    compare_run(ctx, rr, segs, case)
    kills = [s for s in segs if s.get("killed")]
    kind = case["layer"] + ":" + ",".join((s.get("call") or "?") + ("-inside" if s.get("inside") else "-before") for s in kills) \
        if kills else case["layer"] + ":no-kill-reached"
    ctx.case((case["layer"], seed, se_ckpt, max_it, repr(targets)), bool(kills),
             dict(case=case, segments=[dict(killed=s.get("killed"), listing=s.get("listing"),
                                           outcome=fmt_outcome(s["outcome"]) if s.get("outcome") else None,
                                           iteration=s.get("iteration"), tokens=len(s.get("toks", [])))
                                      for s in segs]), kind=kind)
    if kills:
        ctx.traces += 1
    return segs


# ----------------------------------------------------------------------------- the check
def correspond(ctx):
    ctx.rule = ("a case = one history driven through the REAL code: completed checkpoints (either save_existing mode) / "
                "weight saves, then a kill before operation j or after k bytes of a write, real resume, possibly more events; "
                "layers: stub (BaseNestedSampler stand-in: checkpoint -> safe_file_dump, FlowSampler.check_resume/_resume_from_file), "
                "std (real NestedSampler+FlowProposal+FlowModel, real FlowSampler(resume=True); the outcome includes which weights "
                "version came back and which weights path is recorded), state (hand-made directory states), "
                "ins-run / std-run (real sampler runs killed inside real checkpoints / weight saves and continued); "
                "non-trivial = at least one checkpoint completed before the kill, or the kill is inside a write")
    ctx.assume("shutil.move / os.replace / os.rename within one directory are atomic (POSIX rename)",
               "a killed writer leaves a prefix of the bytes it was writing (what reached the file before the kill); user-space "
               "buffers of a handle that was not closed are lost: the file keeps its on-disk size at the kill, under its current name",
               "unpickling a strict prefix raises EOFError/UnpicklingError; torch.load of a strict prefix raises EOFError (0 bytes), "
               "UnpicklingError (1-3 bytes) or RuntimeError / OSError (>= 4 bytes, alternating ranges) — which one is observed with "
               "torch.load on the torn file and handed to the model as an input",
               "the kill is modelled by a BaseException raised from the wrapped operation: `with` blocks close their file, "
               "nothing else runs (nessai has no handler that catches BaseException on these paths)")
    ctx.trust("hand-written parts of Model/CrashFS.lean (semantics of the six operations, resume skeleton, importance-sampler level "
              "discipline); tie = this correspondence", "the fault injector harness/c11_inject.py")
    nessai_bits()
    t0 = time.time()
    cfg = ctx.model(["fs cfg"])[0]
    ctx.extra["model_cfg"] = cfg
    model_safe = "safe=1" in cfg
    # corpus first
    run_corpus(ctx)
    # layer 1: stand-in sampler, every operation boundary, byte ladder (every offset in the thorough tier)
    ladder = [0, 1, 2, 3, "half", "last", "full"]
    lasts_c = [dict(t="c", se=True), dict(t="c", se=False)]
    structured(ctx, "stub", PREFIXES_STUB, lasts_c, ladder, payload=64)
    if not ctx.quick:
        every = list(range(0, 1000))
        structured(ctx, "stub", PREFIXES_STUB[:3], lasts_c, every, payload=32)
    for _ in range(ctx.scale(120, 1500)):
        scripted_case(ctx, "stub", random_history(ctx.rng, "stub", ctx.rng.randrange(2, 8)),
                      payload=ctx.rng.choice([0, 16, 64, 300, 5000, 20000, 70000, 150000]))
    ctx.extra["wall_stub_s"] = round(time.time() - t0, 1)
    # layer 2: the real standard sampler objects
    t1 = time.time()
    lasts = lasts_c + [dict(t="t")]
    structured(ctx, "std", PREFIXES_STD, lasts, [0, 1, 3, 4, "half", "last", "full"] if ctx.quick else
               [0, 1, 2, 3, 4, 5, 64, "half", "last", "full"], child_every=ctx.scale(6, 1),
               budget=ctx.scale(30, 400))
    for _ in range(ctx.scale(40, 500)):
        scripted_case(ctx, "std", random_history(ctx.rng, "std", ctx.rng.randrange(3, 9)), child_every=ctx.scale(0, 3))
    if not ctx.quick:
        # dense byte offsets of a real weights file and of a real sampler pickle, late checkpoint:
        # every offset in the first and last 96 bytes and around the 4096 page boundary, every 3rd elsewhere
        pre = PREFIXES_STD[4]

        def dense(n):
            ks = set(range(0, 96)) | set(range(max(n - 96, 0), n + 1)) | set(range(4040, 4160)) | set(range(0, n, 3))
            return sorted(k for k in ks if k <= n)
        for i, k in enumerate(dense(8170)):
            scripted_case(ctx, "std", [dict(e) for e in pre] + [dict(t="t", w=9, cp=[2, k])], record=(i % 25 == 0))
        for i, k in enumerate(dense(4000)):
            scripted_case(ctx, "std", [dict(e) for e in pre] + [dict(t="c", se=True, v=9, cp=[3, k])], record=(i % 25 == 0))
    ctx.extra["wall_std_s"] = round(time.time() - t1, 1)
    # boundary stream: arbitrary directory states
    malformed(ctx)
    # layers 3/4: real runs killed and continued
    t2 = time.time()
    runs = []
    if ctx.quick:
        runs += [(True, 1, False, 4, [("t1", "S", "half")]),          # INS: inside the 2nd level's torch.save
                 (True, 2, True, 4, [("c2", "W", "half"), ("c0", 2, None)]),  # INS save_existing: inside a pickle write, then between the moves
                 (True, 3, False, 4, [("c1", "W", 1), ("t0", "S", "last"), ("c0", "X", None)]),
                 (False, 1, True, 200, [("c2", "W", "half")]),       # standard sampler: inside a late checkpoint's pickle write
                 (False, 2, True, 200, [("t1", "S", "last")]),       # standard sampler: inside torch.save of a retraining (F3)
                 (False, 3, True, 200, [("c1", 2, None), ("t0", "M", None)]),
                 (True, 4, True, 5, [("t1", "M", None), ("c1", "M", None), ("t0", "S", 4)]),
                 (True, 5, False, 5, [("c0", "W", "last"), ("c1", "M", None)]),
                 (True, 6, False, 5, [("t1", 0, None), ("t1", "S", None)]),   # before the level file exists: count of level files == recorded n
                 (False, 4, True, 200, [("c0", "W", 0)]),                # first checkpoint ever: nothing to fall back to -> fresh
                 (False, 5, True, 200, [("t0", "S", "half"), ("c1", "X", None)])]
    else:
        def rnd_target(se):
            kind = ctx.rng.choice("cct")
            if kind == "c":
                op = ctx.rng.choice(["E", "M", "O", "W", "W", "X"] if se else ["O", "W", "W", "X", "M"])
            else:
                op = ctx.rng.choice(["E", "S", "S", "M"])
            return (kind + str(ctx.rng.randrange(0, 2)), op,
                    ctx.rng.choice([None, 0, 1, 3, 4, "half", "last", ctx.rng.randrange(0, 9000)]))
        for s in range(1, 41):
            se = bool(s % 2)
            runs.append((True, s, se, 6, [rnd_target(se) for _ in range(ctx.rng.randrange(1, 4))]))
        for s in range(1, 41):
            runs.append((False, s, True, 260, [rnd_target(True) for _ in range(ctx.rng.randrange(1, 3))]))
    for ins, seed, se, mit, tg in runs:
        real_run_case(ctx, ins, seed, se, mit, tg)
    ctx.extra["wall_runs_s"] = round(time.time() - t2, 1)
    ctx.extra["model_predicts_F3"] = not model_safe


def run_corpus(ctx):
    import json
    cdir = core.VERIF / "corpus" / "C11"
    if not cdir.is_dir():
        return
    for p in sorted(cdir.glob("*.json")):
        try:
            c = json.loads(p.read_text())
        except Exception:  # noqa
            continue
        if c.get("layer") in ("stub", "std"):
            scripted_case(ctx, c["layer"], c["events"], payload=c.get("payload", 64))


def search(ctx):
    """a proof obligation or the tie broke: enlarged failing-input search on the real code (oracle only matters)"""
    t0 = time.time()
    limit = ctx.scale(60, 600)
    ladder = list(range(0, 12)) + ["half", "last", "full"]
    lasts_c = [dict(t="c", se=True), dict(t="c", se=False)]
    structured(ctx, "stub", PREFIXES_STUB, lasts_c, ladder, payload=200, budget=limit / 3)
    structured(ctx, "std", PREFIXES_STD, lasts_c + [dict(t="t")], ladder, budget=limit / 3)
    while time.time() - t0 < limit and not ctx.fails:
        layer = ctx.rng.choice(["stub", "std"])
        scripted_case(ctx, layer, random_history(ctx.rng, layer, ctx.rng.randrange(2, 10)))


def replay(ctx, obj):
    # the runner does not regenerate in replay mode: make sure the model is the one of the checkout under test
    before = GEN_PATH.read_text() if GEN_PATH.exists() else None
    gen(ctx)
    if GEN_PATH.exists() and GEN_PATH.read_text() != before:
        ctx.brokens[:] = [b for b in ctx.brokens if b["name"].startswith("translator")]
        ctx.prove(PROPS_MODULE)
    c = obj.get("case") or {}
    if "case" in c and "layer" not in c:
        c = c["case"]
    layer = c.get("layer", "")
    nessai_bits()
    if layer in ("stub", "std"):
        steps = scripted_case(ctx, layer, c["events"], child_every=1 if layer == "std" else 0, payload=c.get("payload", 64))
        ctx.extra["replayed"] = [dict(tok=s.get("tok"), listing=s.get("listing"),
                                      outcome=fmt_outcome(s["outcome"]) if s.get("outcome") else None) for s in steps]
    elif layer in ("ins-run", "std-run"):
        segs = real_run_case(ctx, layer == "ins-run", c["seed"], c["se"], c["max_it"], [tuple(t) for t in c["targets"]])
        ctx.extra["replayed"] = [dict(listing=s.get("listing"), outcome=fmt_outcome(s["outcome"]) if s.get("outcome") else None)
                                 for s in segs]
    else:
        correspond(ctx)
