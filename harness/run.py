"""Entry point: ./check Cxx [--tier quick|thorough] [--replay FILE]"""
import argparse
import importlib
import json
import os
import sys
import traceback
import warnings

from .core import Check, Infra


def main():
    ap = argparse.ArgumentParser()
    ap.add_argument("prop")
    ap.add_argument("--tier", default=os.environ.get("VERIF_TIER") or "quick", choices=["quick", "thorough"])
    ap.add_argument("--replay")
    a = ap.parse_args()
    if os.environ.get("VERIF_TIER") in ("quick", "thorough"):
        a.tier = os.environ["VERIF_TIER"]
    seed = int(os.environ.get("VERIF_SEED", "0") or 0)
    prop = a.prop.upper()
    warnings.filterwarnings("ignore")
    os.environ.setdefault("NESSAI_VERIF", "1")
    try:
        mod = importlib.import_module(f"harness.{prop.lower()}")
    except ModuleNotFoundError as e:
        print(f"no check for {prop}: {e}", file=sys.stderr)
        sys.exit(2)
    ctx = Check(prop, a.tier, seed)
    # a check that does not finish is an infrastructure failure (exit 2), never a verdict
    import threading

    limit = int(os.environ.get("VERIF_TIME_LIMIT", "1500" if a.tier == "quick" else "5400"))

    def _timeout():
        print(f"infrastructure failure: time limit exceeded ({limit} s)", file=sys.stderr, flush=True)
        os._exit(2)

    watchdog = threading.Timer(limit, _timeout)
    watchdog.daemon = True
    watchdog.start()
    try:
        if a.replay:
            obj = json.load(open(a.replay))
            if hasattr(mod, "gen"):
                mod.gen(ctx)
            ctx.prove(mod.PROPS_MODULE, getattr(mod, "EXTRA_TARGETS", ()))
            mod.replay(ctx, obj)
        else:
            if hasattr(mod, "gen"):
                mod.gen(ctx)
            ctx.prove(mod.PROPS_MODULE, getattr(mod, "EXTRA_TARGETS", ()))
            try:
                mod.correspond(ctx)
            except Infra:
                raise
            except Exception as e:  # noqa
                # the harness could not digest what the implementation did (e.g. a NaN where a number is required, a
                # missing attribute): the correspondence is BROKEN, which is a verdict (after the failing-input search),
                # not an infrastructure failure
                ctx.broken(f"correspondence: the harness raised {type(e).__name__} while comparing model and implementation",
                           traceback.format_exc())
            if ctx.needs_search() and hasattr(mod, "search"):
                try:
                    mod.search(ctx)
                except Infra:
                    raise
                except Exception as e:  # noqa
                    ctx.broken(f"search: the failing-input search raised {type(e).__name__}", traceback.format_exc())
            if not ctx.quick and getattr(mod, "LEANCHECK", True):
                ctx.leanchecker([mod.PROPS_MODULE])
        code = ctx.finish()
    except Infra as e:
        print(f"infrastructure failure: {e}", file=sys.stderr)
        sys.exit(2)
    except Exception:
        traceback.print_exc()
        print("infrastructure failure: harness crashed", file=sys.stderr)
        sys.exit(2)
    sys.exit(code)


if __name__ == "__main__":
    main()
