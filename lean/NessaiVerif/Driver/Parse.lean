/-
Line-protocol helpers (core Lean only).  Tokens are separated by single spaces;
lists are `[a,b,c]` with no spaces; rationals are `p/q` or `p`; options are
`none` or the value.
-/
namespace NessaiVerif.Parse

def splitTop (s : String) (sep : Char) : List String :=
  -- split on `sep` at bracket depth 0
  let rec go (cs : List Char) (depth : Nat) (cur : List Char) (acc : List String) : List String :=
    match cs with
    | [] => (String.ofList cur.reverse :: acc).reverse
    | c :: cs =>
      if c == '[' then go cs (depth + 1) (c :: cur) acc
      else if c == ']' then go cs (depth - 1) (c :: cur) acc
      else if c == sep && depth == 0 then go cs depth [] (String.ofList cur.reverse :: acc)
      else go cs depth (c :: cur) acc
  go s.toList 0 [] []

def parseInt? (s : String) : Option Int := s.toInt?
def parseNat? (s : String) : Option Nat := s.toNat?

def parseBool? (s : String) : Option Bool :=
  if s == "1" || s == "true" || s == "True" then some true
  else if s == "0" || s == "false" || s == "False" then some false
  else none

def parseRat? (s : String) : Option Rat :=
  match s.splitOn "/" with
  | [p] => p.toInt?.map (fun i => (i : Rat))
  | [p, q] => do
      let a ← p.toInt?
      let b ← q.toNat?
      if b == 0 then none else some (mkRat a b)
  | _ => none

/-- strip one level of `[` … `]` and split on top-level commas -/
def listBody? (s : String) : Option (List String) :=
  let cs := s.toList
  match cs with
  | '[' :: rest =>
    match rest.reverse with
    | ']' :: mid =>
      let body := String.ofList mid.reverse
      if body.isEmpty then some [] else some (splitTop body ',')
    | _ => none
  | _ => none

def parseList? (f : String → Option α) (s : String) : Option (List α) := do
  let parts ← listBody? s
  parts.mapM f

def parseOpt? (f : String → Option α) (s : String) : Option (Option α) :=
  if s == "none" || s == "None" then some none else (f s).map some

def showList (f : α → String) (xs : List α) : String :=
  "[" ++ ",".intercalate (xs.map f) ++ "]"

def showRat (r : Rat) : String :=
  if r.den == 1 then toString r.num else s!"{r.num}/{r.den}"

def showOpt (f : α → String) : Option α → String
  | none => "none"
  | some a => f a

def showBool (b : Bool) : String := if b then "1" else "0"

end NessaiVerif.Parse
