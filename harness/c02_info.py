"""C02 (information part) — the `info` recursion of `_NSIntegralState.increment` and `log_evidence_error`
against `Model/Information.lean` run at K = Rat.

The recursion mixes linear-domain ratios with log-domain values, so the Lean model takes the logarithm as a
parameter; here it is a table: phase 1 asks the model for the exact evidence after every increment, phase 2 hands
it 60-digit mpmath logarithms of those rationals (and of the likelihoods) as 220-bit dyadics and reads the
information values back.  What is compared (model == code, no property-level demand):
  * the LENGTH of `state.info` (one entry per increment whose oldZ, logZ, logL are all finite — never the first),
  * every `info[i]` to 64 N eps max(1, max|logL|)^2 (cancellation error of the float recursion),
  * `log_evidence_error`: NaN exactly when the model's last value is negative, else sqrt(info[-1] / base_nlive).
"""
import math

import numpy as np

from . import c02

LBITS = 220


def dy_tok(x):
    """mp value -> '<m>@<e>' dyadic with LBITS significant bits (floor toward -inf is fine: error 2^-LBITS rel.)"""
    m = c02.M()
    if x == 0:
        return "0@0"
    man, exp = m.frexp(x)                      # x = man * 2^exp, 0.5 <= |man| < 1
    a = int(m.floor(m.ldexp(man, LBITS)))
    return f"{a}@{int(exp) - LBITS}"


def sched_and_arg(case):
    n = case["n"]
    N = len(case["L"])
    if case["kind"] == "sampler":
        ns = [n] * (N - n) + list(range(n, 0, -1))
        arg = ["none"] * (N - n) + [str(v) for v in range(n, 0, -1)]
    else:
        ns = list(case["ns"])
        arg = ["none" if d else str(v) for v, d in zip(ns, case["use_default"])]
    return ns, "[" + ",".join(arg) + "]"


def run_real_info(case, offset=0.0):
    """drive the real state exactly as c02.run_real does (increment only; finalise leaves `info` alone)"""
    from nessai.evidence import _NSIntegralState
    ll = c02.float_logL(case) + offset
    n = case["n"]
    st = _NSIntegralState(n, track_gradients=False, expectation=c02.spelling(case["mode"], len(ll) + int(n)))
    ns, _ = sched_and_arg(case)
    N = len(ll)
    with np.errstate(all="ignore"):
        if case["kind"] == "sampler":
            for i, v in enumerate(ll):
                if i < N - n:
                    st.increment(v)
                else:
                    st.increment(v, nlive=ns[i])
        else:
            for v, m, d in zip(ll, case["ns"], case["use_default"]):
                st.increment(v) if d else st.increment(v, nlive=m)
        err = float(st.log_evidence_error)
    return [float(v) for v in st.info], err


def phase1_line(case):
    ns, arg = sched_and_arg(case)
    sh = c02.shrink_tok(case["mode"], ns, case.get("tbits", c02.TBITS))
    return f"quad infoz {case['n']} {arg} {c02.L_tok(case)} {sh}"


def phase2_line(case, zs_tok):
    m = c02.M()
    ns, arg = sched_and_arg(case)
    sh = c02.shrink_tok(case["mode"], ns, case.get("tbits", c02.TBITS))
    lgl = [dy_tok(c02.dy_log(a, e)) if a > 0 else "0@0" for a, e in case["L"]]
    lgz = []
    for tok in zs_tok[1:-1].split(","):
        a, e = c02.parse_dy(tok)
        lgz.append(dy_tok(c02.dy_log(a, e)) if a > 0 else "0@0")
    _ = m
    return (f"quad info {case['n']} {arg} {c02.L_tok(case)} [{','.join(lgl)}] [{','.join(lgz)}] {sh}")


def dy_float(tok):
    a, e = c02.parse_dy(tok)
    return float(c02.dy_val(a, e))


def compare(ctx, case, out2, real_info, real_err):
    f = c02.parse_fields(out2)
    bad = []
    if f["status"] != "ok":
        bad.append(f"model status {out2[:60]}")
    else:
        minfo = [dy_float(t) for t in f["info"][1:-1].split(",")]
        N = len(case["L"])
        scale = max([1.0] + [abs(float(c02.dy_log(a, e))) for a, e in case["L"] if a > 0])
        # float64 error of the recursion: the weights exp(Wt - logZ), exp(oldZ - logZ) carry a relative error eps*|logL| and
        # multiply numbers of size |logL|, so the cancellation error grows like eps * max|logL|^2 (observed 1.0e-10 at |logL| = 624)
        tol = 64 * max(N, 1) * 2.3e-16 * scale * scale + 1e-12
        if len(minfo) != len(real_info):
            bad.append(f"len(info): model {len(minfo)} impl {len(real_info)}")
        else:
            for i, (a, b) in enumerate(zip(minfo, real_info)):
                if not (abs(a - b) <= tol * max(1.0, abs(a))):
                    bad.append(f"info[{i}]: model {a!r} impl {b!r} (tol {tol:.2e})")
                    break
        if f["err2"] == "nan":
            if not math.isnan(real_err):
                # the model's last value is negative; a float that is a rounding error away from 0 may not be
                if not (minfo and abs(minfo[-1]) <= tol):
                    bad.append(f"log_evidence_error: model NaN (info[-1] = {minfo[-1]!r} < 0) impl {real_err!r}")
        else:
            e = math.sqrt(max(dy_float(f["err2"]), 0.0))
            if math.isnan(real_err):
                if not (minfo and abs(minfo[-1]) <= tol):
                    bad.append(f"log_evidence_error: model {e!r} impl NaN")
            elif abs(e - real_err) > 1e-7 * max(1.0, e) + math.sqrt(tol):
                bad.append(f"log_evidence_error: model {e!r} impl {real_err!r}")
        ctx.hist["info:last<0" if (minfo and minfo[-1] < 0) else "info:last>=0"] += 1
    for b in bad[:2]:
        ctx.disagree("information: " + b, {"case": c02.slim(case), "line": phase1_line(case)[:200]})
    return not bad


def fixed_cases():
    """hand-picked: the two-point example of theorem info_without_first_point_can_be_negative, flat and nearly flat runs (where
    a recursion that drops the first point's information goes negative: the defect repaired as F55; with the repair the
    information is >= 0, theorem code_info_nonneg) — formerly (negative
    information -> NaN error), a steep run, leading -inf, varying nlive"""
    out = []
    out.append(dict(kind="varying", mode="t", family="flat2", n=1, L=[[1, 0], [1, 0]], offset=0.0, ns=[1, 1],
                    use_default=[True, True]))
    for n, N in ((1, 12), (3, 40), (10, 120)):
        out.append(dict(kind="varying", mode="logt", family="flat", n=n, L=[[1, 0]] * N, offset=0.0, ns=[n] * N,
                        use_default=[True] * N, tbits=64))
        out.append(dict(kind="varying", mode="t", family="flat", n=n, L=[[1, 0]] * N, offset=0.0, ns=[n] * N,
                        use_default=[True] * N))
    out.append(dict(kind="sampler", mode="t", family="steep", n=2, L=[[1, 3 * i] for i in range(40)], offset=0.0))
    out.append(dict(kind="sampler", mode="t", family="lead-inf", n=2,
                    L=[[0, 0], [0, 0], [1, -3], [3, -3], [1, 2], [5, 2]], offset=0.0))
    out.append(dict(kind="varying", mode="t", family="vary", n=5, L=[[1, 0], [3, 0], [3, 0], [7, 1], [9, 4]],
                    offset=0.0, ns=[5, 4, 9, 2, 1], use_default=[True, False, False, False, False]))
    return out


def run(ctx, cases):
    """cases: list of c02 cases (dicts); only those of moderate size are used"""
    use = [c for c in cases if len(c["L"]) <= 160 and c.get("family") != "huge"]
    if not use:
        return
    outs1 = ctx.model([phase1_line(c) for c in use])
    lines2, keep = [], []
    for c, o in zip(use, outs1):
        f = c02.parse_fields(o)
        if f["status"] != "ok":
            ctx.disagree("information: phase 1 " + o[:60], {"case": c02.slim(c)})
            continue
        lines2.append(phase2_line(c, f["Zs"]))
        keep.append(c)
    outs2 = ctx.model(lines2)
    for c, o in zip(keep, outs2):
        info, err = run_real_info(c)
        compare(ctx, c, o, info, err)
        N = len(c["L"])
        ctx.case(("info", c02.case_key(c)),
                 N >= 2 and any(a > 0 for a, _ in c["L"]), None,
                 kind=f"info:{c['kind']}/{c['mode']}/{c.get('family')}")
        ctx.traces += 1
