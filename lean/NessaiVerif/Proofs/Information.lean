import NessaiVerif.Model.Information
import Mathlib.Algebra.Order.Field.Basic
import Mathlib.Tactic.Ring
import Mathlib.Tactic.Linarith
import Mathlib.Tactic.FieldSimp
import Mathlib.Tactic.Positivity
/- Helper lemmas for the information recursion (C02 / C05). -/
namespace NessaiVerif.Info
open NessaiVerif.Quad

set_option linter.unusedSectionVars false
variable {K : Type} [Field K] [LinearOrder K] [IsStrictOrderedRing K]

/-- every likelihood positive (finite log-likelihood), every shrinkage strictly inside (0,1) -/
def Pos (steps : List (K × K)) : Prop := ∀ p ∈ steps, 0 < p.1 ∧ 0 < p.2 ∧ p.2 < 1

theorem Pos.tail {p : K × K} {steps : List (K × K)} (h : Pos (p :: steps)) : Pos steps :=
  fun q hq => h q (List.mem_cons_of_mem _ hq)

theorem Pos.head {p : K × K} {steps : List (K × K)} (h : Pos (p :: steps)) :
    0 < p.1 ∧ 0 < p.2 ∧ p.2 < 1 := h p (List.mem_cons_self ..)

theorem sumL_terms_nonneg (w : K) (hw : 0 < w) (steps : List (K × K)) (h : Pos steps) :
    0 ≤ sumL (terms w steps) := by
  induction steps generalizing w with
  | nil => simp [terms, sumL]
  | cons p rest ih =>
    obtain ⟨L, t⟩ := p
    have hp := h.head
    simp only at hp
    simp only [terms, sumL]
    have h1 : 0 < w * L * (1 - t) := by
      have : 0 < 1 - t := by linarith [hp.2.2]
      exact mul_pos (mul_pos hw hp.1) this
    have h2 := ih (w * t) (mul_pos hw hp.2.1) h.tail
    linarith

theorem getLastD_concat' (l : List K) (a d : K) : (l ++ [a]).getLastD d = a := by
  simp [List.getLastD_eq_getLast?]

/-- the loop invariant of the recursion: if the last information value of a state with `Z > 0`, `w > 0`
is `A / Z - lg Z`, then after any further run it is `(A + Σ W_i lg L_i) / Z' - lg Z'` -/
theorem run_from (lg : K → K) (s : ISt K) (A : K) (hZ : 0 < s.Z) (hw : 0 < s.w) (h2 : 2 ≤ s.info.length)
    (hl : s.last = A / s.Z - lg s.Z) (steps : List (K × K)) (h : Pos steps) :
    (s.run lg steps).last =
      (A + weightedLogs lg s.w steps) / (s.Z + sumL (terms s.w steps)) - lg (s.Z + sumL (terms s.w steps)) ∧
    (s.run lg steps).Z = s.Z + sumL (terms s.w steps) ∧
    (s.run lg steps).info.length = s.info.length + steps.length := by
  induction steps generalizing s A with
  | nil => simp [ISt.run, weightedLogs, terms, sumL, hl]
  | cons p rest ih =>
    obtain ⟨L, t⟩ := p
    have hp := h.head
    simp only at hp
    have h1t : 0 < 1 - t := by linarith [hp.2.2]
    have hW : 0 < s.w * L * (1 - t) := mul_pos (mul_pos hw hp.1) h1t
    have hZ' : 0 < s.Z + s.w * L * (1 - t) := by linarith
    have hcond : s.Z ≠ 0 ∧ s.Z + s.w * L * (1 - t) ≠ 0 ∧ L ≠ 0 := ⟨ne_of_gt hZ, ne_of_gt hZ', ne_of_gt hp.1⟩
    have hlen : ¬ (s.info.length = 1 ∧ s.lastL ≠ 0) := by omega
    have hstep : s.step lg L t =
        ⟨s.Z + s.w * L * (1 - t), s.w * t,
          s.info ++ [s.w * L * (1 - t) / (s.Z + s.w * L * (1 - t)) * lg L
            + s.Z / (s.Z + s.w * L * (1 - t)) * (s.info.getLastD 0 + lg s.Z)
            - lg (s.Z + s.w * L * (1 - t))], L⟩ := by
      simp only [ISt.step, if_pos hcond, if_neg hlen]
    have hl' : (s.step lg L t).last =
        (A + s.w * L * (1 - t) * lg L) / (s.step lg L t).Z - lg (s.step lg L t).Z := by
      rw [hstep]
      simp only [ISt.last, getLastD_concat']
      have : s.info.getLastD 0 = A / s.Z - lg s.Z := hl
      rw [this]
      have hz := ne_of_gt hZ
      have hz' := ne_of_gt hZ'
      field_simp
      ring
    have hZs : 0 < (s.step lg L t).Z := by rw [hstep]; exact hZ'
    have hws : 0 < (s.step lg L t).w := by rw [hstep]; exact mul_pos hw hp.2.1
    have h2s : 2 ≤ (s.step lg L t).info.length := by rw [hstep]; simp; omega
    have := ih (s.step lg L t) (A + s.w * L * (1 - t) * lg L) hZs hws h2s hl' h.tail
    have eZ : (s.step lg L t).Z = s.Z + s.w * L * (1 - t) := by rw [hstep]
    have ew : (s.step lg L t).w = s.w * t := by rw [hstep]
    have ei : (s.step lg L t).info.length = s.info.length + 1 := by rw [hstep]; simp
    simp only [ISt.run, weightedLogs, terms, sumL]
    rw [eZ, ew, ei] at this
    refine ⟨?_, ?_, ?_⟩
    · rw [this.1]; congr 2 <;> ring
    · rw [this.2.1]; ring
    · rw [this.2.2]; simp; omega

/-- the first increment never appends an information value (`oldZ = -inf`) -/
theorem first_step (lg : K → K) (L t : K) :
    (ISt.init : ISt K).step lg L t = ⟨0 + 1 * L * (1 - t), 1 * t, [0], L⟩ := by
  simp [ISt.step, ISt.init]

/-- the second increment starts the estimate from the first point's own information `lg L₁ - lg Z₁` -/
theorem second_step (lg : K → K) (L1 t1 L t : K) (h1 : 0 < L1) (ht1 : t1 < 1) (hL : 0 < L) (ht : t < 1) (ht0 : 0 < t1) :
    (⟨0 + 1 * L1 * (1 - t1), 1 * t1, [0], L1⟩ : ISt K).step lg L t =
      ⟨0 + 1 * L1 * (1 - t1) + 1 * t1 * L * (1 - t), 1 * t1 * t,
        [0, ((1 * L1 * (1 - t1)) * lg L1 + (1 * t1 * L * (1 - t)) * lg L) / (0 + 1 * L1 * (1 - t1) + 1 * t1 * L * (1 - t))
            - lg (0 + 1 * L1 * (1 - t1) + 1 * t1 * L * (1 - t))], L⟩ := by
    have hZ1 : (0 : K) < 0 + 1 * L1 * (1 - t1) := by
      have : (0 : K) < 1 * L1 * (1 - t1) := mul_pos (mul_pos one_pos h1) (by linarith)
      linarith
    have hW : (0 : K) < 1 * t1 * L * (1 - t) := mul_pos (mul_pos (mul_pos one_pos ht0) hL) (by linarith)
    have hZ' : (0 : K) < 0 + 1 * L1 * (1 - t1) + 1 * t1 * L * (1 - t) := by linarith
    have hcond : (0 + 1 * L1 * (1 - t1) : K) ≠ 0 ∧ (0 + 1 * L1 * (1 - t1) + 1 * t1 * L * (1 - t) : K) ≠ 0 ∧ L ≠ 0 :=
      ⟨ne_of_gt hZ1, ne_of_gt hZ', ne_of_gt hL⟩
    have hfirst : ([0] : List K).length = 1 ∧ L1 ≠ 0 := ⟨rfl, ne_of_gt h1⟩
    simp only [ISt.step, if_pos hcond, if_pos hfirst, List.singleton_append]
    congr 1
    · congr 1
      have := ne_of_gt hZ1
      have := ne_of_gt hZ'
      field_simp
      ring_nf

/-- the evidence accumulated by the information state is the rectangle sum (no positivity needed) -/
theorem run_Z {K : Type} [Field K] [DecidableEq K] (lg : K → K) (s : ISt K) (steps : List (K × K)) :
    (s.run lg steps).Z = s.Z + sumL (terms s.w steps) ∧ (s.run lg steps).w = steps.foldl (fun a p => a * p.2) s.w := by
  induction steps generalizing s with
  | nil => simp [ISt.run, terms, sumL]
  | cons p rest ih =>
    obtain ⟨L, t⟩ := p
    have := ih (s.step lg L t)
    simp only [ISt.run, terms, sumL, List.foldl_cons]
    rw [this.1, this.2]
    simp only [ISt.step]
    refine ⟨by ring, ?_⟩ <;> trivial

/-- …and it is the `Z` of the quadrature state of `Model/Quadrature.lean` fed with the same increments:
the two models describe the same `_NSIntegralState` -/
theorem quad_Z {K : Type} [Field K] (shrink : Nat → K) (s : St K) (calls : List (K × Option Nat)) :
    (s.incrMany shrink calls).Z = s.Z + sumL (terms s.w (calls.map fun c => (c.1, shrink (c.2.getD s.base)))) ∧
    (s.incrMany shrink calls).base = s.base := by
  induction calls generalizing s with
  | nil => simp [St.incrMany, terms, sumL]
  | cons c rest ih =>
    obtain ⟨L, n⟩ := c
    have := ih (s.increment shrink L n)
    simp only [St.incrMany, List.map_cons, terms, sumL]
    rw [this.1, this.2]
    simp only [St.increment]
    refine ⟨by ring, ?_⟩ <;> trivial

end NessaiVerif.Info
