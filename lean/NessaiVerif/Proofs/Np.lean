import NessaiVerif.Model.Np
/- Lemmas about the NumPy primitive models. -/
namespace NessaiVerif.Np
variable {α : Type}

theorem flatten_splitChunk (c : Nat) (xs : List α) : (splitChunk c xs).flatten = xs := by
  fun_induction splitChunk c xs with
  | case1 xs h => simp
  | case2 xs h ih => simp [ih]

theorem splitChunk_ne_nil (c : Nat) (xs : List α) : splitChunk c xs ≠ [] := by
  fun_induction splitChunk c xs <;> simp

theorem splitChunk_len_le (c : Nat) (hc : 1 ≤ c) (xs : List α) :
    ∀ ch ∈ splitChunk c xs, ch.length ≤ c := by
  fun_induction splitChunk c xs with
  | case1 xs h =>
    intro ch hch
    simp at hch
    subst hch
    omega
  | case2 xs h ih =>
    intro ch hch
    simp at hch
    rcases hch with rfl | hch
    · simp [List.length_take]; omega
    · exact ih ch hch

/-- every chunk but possibly the last is full -/
theorem splitChunk_nonempty (c : Nat) (hc : 1 ≤ c) (xs : List α) (hx : xs ≠ []) :
    ∀ ch ∈ splitChunk c xs, ch ≠ [] := by
  fun_induction splitChunk c xs with
  | case1 xs h =>
    intro ch hch
    simp at hch
    subst hch
    exact hx
  | case2 xs h ih =>
    intro ch hch
    simp at hch
    have hlen : c < xs.length := by omega
    rcases hch with rfl | hch
    · intro h0
      have := congrArg List.length h0
      rw [List.length_take, List.length_nil] at this
      omega
    · apply ih _ ch hch
      intro h0
      have := congrArg List.length h0
      rw [List.length_drop, List.length_nil] at this
      omega

theorem flatten_splitBySizes (ss : List Nat) (xs : List α) :
    (splitBySizes ss xs).flatten = xs.take ss.sum := by
  induction ss generalizing xs with
  | nil => simp [splitBySizes]
  | cons s ss ih =>
    simp only [splitBySizes, List.flatten_cons, ih, List.sum_cons]
    rw [List.take_add]

theorem length_splitBySizes (ss : List Nat) (xs : List α) :
    (splitBySizes ss xs).length = ss.length := by
  induction ss generalizing xs with
  | nil => simp [splitBySizes]
  | cons s ss ih => simp [splitBySizes, ih]

/-- sum over `range n` of `if i < r then q+1 else q` is `n*q + min r n` -/
theorem sum_sizes_aux (q r : Nat) : ∀ n,
    ((List.range n).map (fun i => if i < r then q + 1 else q)).sum = n * q + min r n := by
  intro n
  induction n with
  | zero => simp
  | succ n ih =>
    rw [List.range_succ, List.map_append, List.sum_append, ih, Nat.add_mul]
    by_cases hr : n < r
    · simp [hr]; omega
    · simp [hr]; omega

theorem sum_splitNSizes (len n : Nat) (hn : 1 ≤ n) : (splitNSizes len n).sum = len := by
  unfold splitNSizes
  rw [sum_sizes_aux (len / n) (len % n) n]
  have := Nat.div_add_mod len n
  have := Nat.mod_lt len hn
  omega

theorem flatten_splitN (n : Nat) (hn : 1 ≤ n) (xs : List α) : (splitN n xs).flatten = xs := by
  unfold splitN
  rw [flatten_splitBySizes, sum_splitNSizes _ _ hn, List.take_length]

theorem length_splitN (n : Nat) (xs : List α) : (splitN n xs).length = n := by
  unfold splitN
  rw [length_splitBySizes]
  simp [splitNSizes]

theorem flatten_singletons (xs : List α) : (xs.map fun x => [x]).flatten = xs := by
  induction xs with
  | nil => rfl
  | cons x xs ih => simp [ih]

end NessaiVerif.Np
