import NessaiVerif.Model.Term
import NessaiVerif.Gen.Term
import NessaiVerif.Driver.Parse
/-
Line protocol of the C20 loop models (`term <op> …`):

  pstd  N m|none batches us                      FlowProposal.populate, accumulate_weights=False
  pacc  N m|none maxS batches us                 FlowProposal.populate, accumulate_weights=True
        batches = [[drawn,id;logq;logw,…],…]   us = [[k|n,…],…] (one list per np.random.rand call)
  insdraw n [[id;k,…],…]                         ImportanceFlowProposal.draw   (k: 0 ok, 1 first mask, 2 second mask)
  cbs   len b num den                            FlowModel.check_batch_size (min_fraction = num/den)
  halve nDraw max                                batch size of draw_final_samples
  dfin  npost|none ndraw maxits maxsamples|none [k,…] [2·ess,…]
  nslive nlive [id;logP;logL0;evalL;pop,…]       NestedSampler.populate_live_points
  inslive target [[id;0|1,…],…]                  ImportanceNestedSampler.populate_live_points
  viol kwargs | viol attrs                       violations of the generated interface tables
  viol late | viol upfront                       options tested by raise sites reachable only late / up front
-/
namespace NessaiVerif.Driver.Term
open NessaiVerif NessaiVerif.Parse NessaiVerif.Term

def parseEF? (s : String) : Option EF :=
  if s == "nan" then some .nan
  else if s == "-inf" then some .ninf
  else if s == "inf" then some .pinf
  else s.toInt?.map .fin

def parseLU? (s : String) : Option LU :=
  if s == "n" then some .ninf else s.toNat?.map .half

def parseItem? (s : String) : Option Item :=
  match s.splitOn ";" with
  | [i, q, w] => do
    let i ← i.toNat?
    let q ← parseEF? q
    let w ← parseEF? w
    pure { id := i, logq := q, logw := w }
  | _ => none

def parseBatch? (s : String) : Option Batch := do
  let parts ← listBody? s
  match parts with
  | [] => none
  | d :: items =>
    let d ← d.toNat?
    let items ← items.mapM parseItem?
    pure { drawn := d, items := items }

def uniforms (us : List (List LU)) (call pos : Nat) : LU :=
  ((us[call]?).getD [])[pos]?.getD (.half 0)

def showIds (xs : List Nat) : String := showList toString xs

def parsePK? (s : String) : Option (Nat × PK) :=
  match s.splitOn ";" with
  | [i, k] => do
    let i ← i.toNat?
    let k ← (if k == "0" then some PK.ok else if k == "1" then some PK.rej1 else if k == "2" then some PK.rej2 else none)
    pure (i, k)
  | _ => none

def parseCand? (s : String) : Option Cand :=
  match s.splitOn ";" with
  | [i, p, l0, el, pop] => do
    let i ← i.toNat?
    let p ← parseEF? p
    let l0 ← parseEF? l0
    let el ← parseEF? el
    let pop ← parseBool? pop
    pure { id := i, logP := p, logL0 := l0, evalL := el, populated := pop }
  | _ => none

def parseFlag? (s : String) : Option (Nat × Bool) :=
  match s.splitOn ";" with
  | [i, f] => do
    let i ← i.toNat?
    let f ← parseBool? f
    pure (i, f)
  | _ => none

def showTriples (xs : List (String × String × String)) : String :=
  showList (fun (a, b, c) => s!"{a}|{b}|{c}") xs

def showExit : FinalExit → String
  | .ess => "ess" | .maxIts => "max_its" | .nDraw => "n_draw" | .maxSamples => "max_samples" | .fuel => "fuel"

def handle (toks : List String) : String :=
  match toks with
  | ["pstd", n, m, bs, us] =>
    match parseNat? n, parseOpt? parseEF? m, parseList? parseBatch? bs, parseList? (parseList? parseLU?) us with
    | some n, some m, some bs, some us =>
      match populateStd n m (uniforms us) bs {} with
      | .done st => s!"done x={showIds (st.xs.take n)} nacc={st.nAcc} nprop={st.nProp} used={st.used} rand={st.calls}"
      | .spin st => s!"spin used={st.used} rand={st.calls}"
    | _, _, _, _ => "bad-op"
  | ["pacc", n, m, mxs, bs, us] =>
    match parseNat? n, parseOpt? parseEF? m, parseNat? mxs, parseList? parseBatch? bs,
        parseList? (parseList? parseLU?) us with
    | some n, some m, some mxs, some bs, some us =>
      match populateAcc n m mxs (uniforms us) bs {} with
      | .done r => s!"done x={showIds r.xs} nacc={r.nAcc} nprop={r.nProp} used={r.used} rand={r.calls} tie={showBool r.tie}"
      | .spin r => s!"spin used={r.used} tie={showBool r.tie}"
    | _, _, _, _, _ => "bad-op"
  | ["insdraw", n, bs] =>
    match parseNat? n, parseList? (parseList? parsePK?) bs with
    | some n, some bs =>
      match insDraw n bs with
      | .done (xs, used) => s!"done x={showIds xs} used={used} ndraw={insNDraw n}"
      | .spin (_, used) => s!"spin used={used} ndraw={insNDraw n}"
    | _, _ => "bad-op"
  | ["cbs", len, b, num, den] =>
    match parseNat? len, parseInt? b, parseNat? num, parseNat? den with
    | some len, some b, some num, some den =>
      match checkBatchSize len b num den with
      | .ok r => s!"ok {r}"
      | .error .valueErr => "err=value"
      | .error .runtimeErr => "err=runtime"
      | .error .zeroDiv => "err=zerodiv"
      | .error .fuel => "err=fuel"
    | _, _, _, _ => "bad-op"
  | ["halve", nd, mx] =>
    match parseNat? nd, parseInt? mx with
    | some nd, some mx =>
      match halve (finalBatch0 nd) mx with
      | none => "err=runtime"
      | some none => "err=fuel"
      | some (some b) => s!"ok {b}"
    | _, _ => "bad-op"
  | ["dfin", np, nd, mi, ms, ks, es] =>
    match parseOpt? parseNat? np, parseNat? nd, parseInt? mi, parseOpt? parseNat? ms,
        parseList? parseNat? ks, parseList? parseNat? es with
    | some np, some nd, some mi, some ms, some ks, some es =>
      let (e, st) := finalLoop { nPost := np, nDraw := nd, maxIts := mi, maxSamples := ms } (ks.zip es) {}
      s!"exit={showExit e} it={st.it} size={st.size}"
    | _, _, _, _, _, _ => "bad-op"
  | ["nslive", n, cs] =>
    match parseNat? n, parseList? parseCand? cs with
    | some n, some cs =>
      match nsLive n cs {} with
      | .done st => s!"done ids={showIds st.ids} draws={st.draws}"
      | .spin st => s!"spin draws={st.draws}"
    | _, _ => "bad-op"
  | ["inslive", t, bs] =>
    match parseNat? t, parseList? (parseList? parseFlag?) bs with
    | some t, some bs =>
      match insLive t bs {} with
      | .done st => s!"done ids={showIds st.ids} used={st.used}"
      | .spin st => s!"spin n={st.n} used={st.used}"
    | _, _ => "bad-op"
  | ["viol", "kwargs"] => showTriples (kwViolations Gen.Term.callSites)
  | ["viol", "late"] => showList id (lateOptions Gen.Term.raiseSites).eraseDups
  | ["viol", "upfront"] => showList id (upfrontOptions Gen.Term.raiseSites).eraseDups
  | ["viol", "attrs"] => showTriples (attrViolations Gen.Term.definedAttrs Gen.Term.attrReads)
  | _ => "bad-op"

end NessaiVerif.Driver.Term
