import NessaiVerif.Model.Batch
import NessaiVerif.Driver.Parse
namespace NessaiVerif.Driver.Batch
open NessaiVerif NessaiVerif.Parse NessaiVerif.Batch

def showErr : Err → String
  | .valueErr => "err=value"
  | .typeErr => "err=type"

/-- `bat calls <vec> <chunk|none> <pool 0/1> <npool|none> <n>` → the index batches
    `bat split <n> <c>` → array_split_chunksize on range n
    `bat splitn <n> <k>` → np.array_split(range n, k) -/
def handle (toks : List String) : String :=
  match toks with
  | ["calls", v, c, p, np, n] =>
    match parseBool? v, parseOpt? parseInt? c, parseBool? p, parseOpt? parseNat? np, parseNat? n with
    | some v, some c, some p, some np, some n =>
      match batchCalls v c p np (List.range n) with
      | .ok calls => "ok " ++ showList (showList toString) calls
      | .error e => showErr e
    | _, _, _, _, _ => "bad-op"
  | ["split", n, c] =>
    match parseNat? n, parseInt? c with
    | some n, some c =>
      match arraySplitChunksize (List.range n) c with
      | .ok calls => "ok " ++ showList (showList toString) calls
      | .error e => showErr e
    | _, _ => "bad-op"
  | ["splitn", n, k] =>
    match parseNat? n, parseNat? k with
    | some n, some k => if k = 0 then "err=value" else
        "ok " ++ showList (showList toString) (Np.splitN k (List.range n))
    | _, _ => "bad-op"
  | _ => "bad-op"

end NessaiVerif.Driver.Batch
