"""C18 translator — `nessai.livepoint.add_extra_parameters_to_live_points`, the function every registration of an extra
live-point field goes through, regenerated from the current source on every run as a Lean fold (`Gen/LivePointTx.lean`);
`C18.add_extra_source_eq_model` proves it equal to the model's registry update `LivePoint.add` for every registry state and
every argument.

Fragment (a loop over a zip that appends to module-level lists):

    if D is None:  D = len(P) * (config.livepoints.default_float_value,)      ↦ List.replicate P.length nan
    else:          D = tuple(D)                                              ↦ D
    for p, dv in zip(P, D):                                                  ↦ (P.zip D).foldl … (names, defaults)
        if p not in config.livepoints.<names>:                               ↦ if ¬ names.contains p
            config.livepoints.<names>.append(p)                              ↦ names ++ [p]
            config.livepoints.<defaults> = config.livepoints.<defaults> + (dv,)   ↦ defaults ++ [dv]
            config.livepoints.<ignored>.append(…)                            (dtype bookkeeping: every extra field has the default
                                                                              float dtype; not part of the model)
        else: logger.warning(…)
    logger.debug(…); config.livepoints.reset_properties()                     (cache invalidation: no state of the model)

The statements inside the loop are translated ONE BY ONE in source order into updates of the pair (names, defaults), so a
reordering, a changed guard, an append of the wrong variable or a default taken from another position changes the generated
term (and breaks the theorem); anything outside the fragment raises `TranslationError` (tie downgrade).
"""
import ast
import hashlib
from pathlib import Path

from .py2lean import TranslationError, find_function

CFG = "config.livepoints."
NAMES, DEFAULTS, IGNORED = "extra_parameters", "extra_parameters_defaults", ("extra_parameters_dtype",)


def _fail(node, why):
    raise TranslationError(f"add_extra_parameters_to_live_points: {why}: {ast.unparse(node)[:100]!r}")


def _is_logging(st):
    return isinstance(st, ast.Expr) and isinstance(st.value, ast.Call) and ast.unparse(st.value.func).startswith("logger.")


def translate(repo):
    src = "nessai/livepoint.py"
    text = (Path(repo) / src).read_text()
    fn = find_function(ast.parse(text), "add_extra_parameters_to_live_points", None)
    args = [a.arg for a in fn.args.args]
    if len(args) != 2 or [ast.unparse(d) for d in fn.args.defaults] != ["None"]:
        raise TranslationError(f"add_extra_parameters_to_live_points: signature {args} differs from the modelled one")
    P, D = args
    body = [s for s in fn.body if not (isinstance(s, ast.Expr) and isinstance(s.value, ast.Constant))]
    # 1. the default of D
    st = body[0]
    want_none = f"{D} = len({P}) * ({CFG}default_float_value,)"
    if not (isinstance(st, ast.If) and ast.unparse(st.test) == f"{D} is None" and len(st.body) == 1 and len(st.orelse) == 1
            and ast.unparse(st.body[0]) == want_none and ast.unparse(st.orelse[0]) == f"{D} = tuple({D})"):
        _fail(st, "the default of the second argument is not in the modelled form")
    lines = [f"let {D}1 : List V := match {D} with | none => List.replicate {P}.length nan | some d => d"]
    # 2. the loop
    loop = body[1]
    if not (isinstance(loop, ast.For) and not loop.orelse and ast.unparse(loop.iter) == f"zip({P}, {D})"
            and isinstance(loop.target, ast.Tuple) and len(loop.target.elts) == 2
            and all(isinstance(e, ast.Name) for e in loop.target.elts)):
        _fail(loop, "expected `for p, dv in zip(parameters, default_values)`")
    p, dv = (e.id for e in loop.target.elts)
    if len(loop.body) != 1 or not isinstance(loop.body[0], ast.If):
        _fail(loop, "loop body is not a single if")
    guard = loop.body[0]
    if ast.unparse(guard.test) != f"{p} not in {CFG}{NAMES}":
        _fail(guard.test, "guard of the registration")
    if not all(_is_logging(s) for s in guard.orelse):
        _fail(guard, "the else arm does more than logging")
    names, defaults = "st.1", "st.2"
    elem = {p: "pdv.1", dv: "pdv.2"}
    for s in guard.body:
        t = ast.unparse(s)
        if isinstance(s, ast.Expr) and isinstance(s.value, ast.Call) and isinstance(s.value.func, ast.Attribute) \
                and s.value.func.attr == "append" and len(s.value.args) == 1:
            tgt = ast.unparse(s.value.func.value)
            arg = ast.unparse(s.value.args[0])
            if tgt == CFG + NAMES and arg in elem:
                names = f"({names} ++ [{elem[arg]}])"
                continue
            if tgt == CFG + DEFAULTS and arg in elem:
                defaults = f"({defaults} ++ [{elem[arg]}])"
                continue
            if tgt in [CFG + i for i in IGNORED]:
                continue
            _fail(s, "append outside the fragment")
        if isinstance(s, ast.Assign) and len(s.targets) == 1 and ast.unparse(s.targets[0]) in (CFG + NAMES, CFG + DEFAULTS):
            tgt = ast.unparse(s.targets[0])[len(CFG):]
            v = s.value
            if isinstance(v, ast.BinOp) and isinstance(v.op, ast.Add) and ast.unparse(v.left) == CFG + tgt \
                    and isinstance(v.right, (ast.Tuple, ast.List)) and len(v.right.elts) == 1 and ast.unparse(v.right.elts[0]) in elem:
                e = elem[ast.unparse(v.right.elts[0])]
                if tgt == NAMES:
                    names = f"({names} ++ [{e}])"
                else:
                    defaults = f"({defaults} ++ [{e}])"
                continue
            _fail(s, "assignment outside the fragment")
        if _is_logging(s):
            continue
        _fail(s, f"statement outside the fragment ({t[:40]})")
    lines.append(f"({P}.zip {D}1).foldl (fun (st : List String × List V) (pdv : String × V) =>\n"
                 f"      if ¬ (st.1.contains pdv.1) then ({names}, {defaults}) else st) ({NAMES}, {DEFAULTS})")
    # 3. what follows the loop: logging and the cache reset only
    for s in body[2:]:
        if _is_logging(s) or ast.unparse(s) == f"{CFG}reset_properties()":
            continue
        _fail(s, "statement after the loop outside the fragment")
    seg = ast.get_source_segment(text, fn) or ""
    sha = hashlib.sha256(seg.encode()).hexdigest()[:16]
    lean = (f"/-- GENERATED by harness/c18_tx.py from `{src}`, `add_extra_parameters_to_live_points` (lines {fn.lineno}–{fn.end_lineno}, "
            f"sha256 {sha}): the new `(extra_parameters, extra_parameters_defaults)`; `nan` = `config.livepoints.default_float_value`. -/\n"
            f"def add_extra_parameters_to_live_points (nan : V) ({NAMES} : List String) ({DEFAULTS} : List V)\n"
            f"    ({P} : List String) ({D} : Option (List V)) : List String × List V :=\n  " + "\n  ".join(lines) + "\n")
    return lean, dict(source=src, lines=[fn.lineno, fn.end_lineno], sha256=sha)


def gen(ctx):
    from . import core, py2lean
    try:
        lean, info = translate(core.REPO)
    except TranslationError as e:
        ctx.broken(f"translator: {e}", "Gen/LivePointTx.lean was left as it was (the theorem is about the last translatable source)")
        return
    except (OSError, SyntaxError) as e:
        ctx.broken(f"translator: cannot read/parse the source: {e}")
        return
    text = ("/-\nGENERATED by harness/c18_tx.py from the CURRENT nessai source — do not edit.\n"
            "C18: registration of extra live-point fields.\n-/\n"
            "namespace NessaiVerif.Gen.LivePointTx\n\nvariable {V : Type}\n\n" + lean + "\nend NessaiVerif.Gen.LivePointTx\n")
    info["rewritten"] = py2lean.write_if_changed(core.LEAN / "NessaiVerif" / "Gen" / "LivePointTx.lean", text)
    ctx.extra["generated"] = {"add_extra_parameters_to_live_points": info}
