/-
Models of the NumPy primitives nessai relies on (core Lean only, executable).
Each is validated on its own against NumPy by harness/np_prims.py.
-/
namespace NessaiVerif.Np

variable {α : Type}

/-- `np.searchsorted(a, v, side="left")`: number of leading elements `< v`
    (for sorted `a` this is the first index `i` with `v ≤ a[i]`). -/
def ssl [LT α] [DecidableLT α] (a : List α) (v : α) : Nat :=
  (a.takeWhile (fun x => decide (x < v))).length

/-- `np.searchsorted(a, v, side="right")`: number of leading elements `≤ v`. -/
def ssr [LE α] [DecidableLE α] (a : List α) (v : α) : Nat :=
  (a.takeWhile (fun x => decide (x ≤ v))).length

/-- `np.argmax(mask)` for a boolean array: index of first `true`, **0 when none**. -/
def argmaxBool : List Bool → Nat
  | [] => 0
  | bs => let i := (bs.takeWhile (fun b => !b)).length
          if i = bs.length then 0 else i

/-- `np.insert(a, idx, vals)` for equal-length `idx`/`vals` with `idx` non-decreasing:
    each `vals[k]` is placed before the element that was at ORIGINAL position `idx[k]`. -/
def insertMany : List α → List Nat → List α → Nat → List α
  | a, [], _, _ => a
  | a, _ :: _, [], _ => a
  | [], _ :: is, v :: vs, pos => v :: insertMany [] is vs pos
  | x :: xs, i :: is, v :: vs, pos =>
      if i ≤ pos then v :: insertMany (x :: xs) is vs pos
      else x :: insertMany xs (i :: is) (v :: vs) (pos + 1)
termination_by a idx _ _ => a.length + idx.length

/-- `np.array_split(x, range(c, len x, c))` — nessai's `array_split_chunksize`
    (at least one chunk, even for empty input). `c ≥ 1` (the code raises otherwise). -/
def splitChunk (c : Nat) (xs : List α) : List (List α) :=
  if h : xs.length ≤ c ∨ c = 0 then [xs]
  else xs.take c :: splitChunk c (xs.drop c)
termination_by xs.length
decreasing_by simp [List.length_drop]; omega

/-- sizes produced by `np.array_split(x, n)` for integer `n ≥ 1`:
    the first `len % n` sections have `len / n + 1` elements, the rest `len / n`. -/
def splitNSizes (len n : Nat) : List Nat :=
  (List.range n).map (fun i => if i < len % n then len / n + 1 else len / n)

def splitBySizes : List Nat → List α → List (List α)
  | [], _ => []
  | s :: ss, xs => xs.take s :: splitBySizes ss (xs.drop s)

/-- `np.array_split(x, n)` for integer `n ≥ 1`. -/
def splitN (n : Nat) (xs : List α) : List (List α) :=
  splitBySizes (splitNSizes xs.length n) xs

/-- `np.cumsum` -/
def cumsum [Add α] : List α → α → List α
  | [], _ => []
  | x :: xs, acc => (acc + x) :: cumsum xs (acc + x)

/-- ascending complement of `idx` in `range n` — nessai's `get_inverse_indices`. -/
def complement (n : Nat) (idx : List Nat) : List Nat :=
  (List.range n).filter (fun i => !idx.contains i)

end NessaiVerif.Np
