import NessaiVerif.Model.Resample
import Mathlib.Algebra.Order.Field.Basic
import Mathlib.Tactic.Ring
import Mathlib.Tactic.Linarith
import Mathlib.Tactic.FieldSimp
import Mathlib.Tactic.Positivity
/-
Helper lemmas for C16 (sums, maxima, the rejection filter, index look-up).
Everything is proved for an arbitrary linearly ordered field.
-/
set_option linter.unusedSectionVars false

namespace NessaiVerif.Resample
open NessaiVerif.Np

variable {K : Type} [Field K] [LinearOrder K] [IsStrictOrderedRing K] {α : Type}

/-! ### sums -/

@[simp] theorem lsum_nil : lsum ([] : List K) = 0 := rfl
@[simp] theorem lsum_cons (x : K) (xs : List K) : lsum (x :: xs) = x + lsum xs := rfl

theorem lsum_append (xs ys : List K) : lsum (xs ++ ys) = lsum xs + lsum ys := by
  induction xs with
  | nil => simp
  | cons x xs ih => simp [ih, add_assoc]

theorem lsum_nonneg {w : List K} (h : ∀ x ∈ w, 0 ≤ x) : 0 ≤ lsum w := by
  induction w with
  | nil => simp
  | cons x xs ih =>
    have hx : 0 ≤ x := h x (by simp)
    have := ih (fun y hy => h y (by simp [hy]))
    simp only [lsum_cons]
    linarith

theorem le_lsum_of_mem {w : List K} (h : ∀ x ∈ w, 0 ≤ x) {x : K} (hx : x ∈ w) : x ≤ lsum w := by
  induction w with
  | nil => simp at hx
  | cons y ys ih =>
    have hy : 0 ≤ y := h y (by simp)
    have hys : ∀ z ∈ ys, 0 ≤ z := fun z hz => h z (by simp [hz])
    have := lsum_nonneg hys
    simp only [lsum_cons]
    rcases List.mem_cons.mp hx with rfl | hx
    · linarith
    · have := ih hys hx
      linarith

theorem lsum_map_mul_left (c : K) (w : List K) : lsum (w.map (fun x => c * x)) = c * lsum w := by
  induction w with
  | nil => simp
  | cons x xs ih => simp [ih, mul_add]

theorem lsum_map_div (s : K) (w : List K) : lsum (w.map (fun x => x / s)) = lsum w / s := by
  induction w with
  | nil => simp
  | cons x xs ih => simp [ih, add_div]

theorem lsum_take_le {w : List K} (h : ∀ x ∈ w, 0 ≤ x) {i j : Nat} (hij : i ≤ j) :
    lsum (w.take i) ≤ lsum (w.take j) := by
  obtain ⟨d, rfl⟩ := Nat.exists_eq_add_of_le hij
  rw [List.take_add, lsum_append]
  have : 0 ≤ lsum ((w.drop i).take d) :=
    lsum_nonneg (fun x hx => h x (List.mem_of_mem_drop (List.mem_of_mem_take hx)))
  linarith

theorem lsum_take_succ (w : List K) (i : Nat) (hi : i < w.length) :
    lsum (w.take (i + 1)) = lsum (w.take i) + w[i] := by
  rw [List.take_succ_eq_append_getElem hi, lsum_append]
  simp

/-! ### maximum -/

@[simp] theorem lmax_nil : lmax ([] : List K) = 0 := rfl
theorem lmax_cons (x : K) (xs : List K) : lmax (x :: xs) = max x (lmax xs) := by
  show (if x < lmax xs then lmax xs else x) = max x (lmax xs)
  split
  · next h => exact (max_eq_right h.le).symm
  · next h => exact (max_eq_left (not_lt.mp h)).symm

theorem lmax_nonneg (w : List K) : 0 ≤ lmax w := by
  induction w with
  | nil => simp
  | cons x xs ih => rw [lmax_cons]; exact le_max_of_le_right ih

theorem le_lmax {w : List K} {x : K} (hx : x ∈ w) : x ≤ lmax w := by
  induction w with
  | nil => simp at hx
  | cons y ys ih =>
    rw [lmax_cons]
    rcases List.mem_cons.mp hx with rfl | hx
    · exact le_max_left _ _
    · exact le_max_of_le_right (ih hx)

/-- the maximum is attained (non-empty, non-negative weights) -/
theorem lmax_mem {w : List K} (hne : w ≠ []) (h : ∀ x ∈ w, 0 ≤ x) : lmax w ∈ w := by
  induction w with
  | nil => exact absurd rfl hne
  | cons y ys ih =>
    rw [lmax_cons]
    by_cases hys : ys = []
    · subst hys
      have : 0 ≤ y := h y (by simp)
      simp [max_eq_left this]
    · have := ih hys (fun z hz => h z (by simp [hz]))
      rcases max_choice y (lmax ys) with hm | hm
      · rw [hm]; simp
      · rw [hm]; simp [this]

theorem lmax_map_mul_left {c : K} (hc : 0 < c) (w : List K) :
    lmax (w.map (fun x => c * x)) = c * lmax w := by
  induction w with
  | nil => simp
  | cons x xs ih =>
    simp only [List.map_cons, lmax_cons, ih]
    rcases le_total x (lmax xs) with h | h
    · rw [max_eq_right h, max_eq_right (mul_le_mul_of_nonneg_left h hc.le)]
    · rw [max_eq_left h, max_eq_left (mul_le_mul_of_nonneg_left h hc.le)]

/-! ### the rejection filter -/

theorem keep_iff (wm wi ui : K) : keep wm wi ui = true ↔ ui < wi / wm := by
  simp [keep]

theorem mem_rejGo (wm : K) (k : Nat) (ws us : List K) (i : Nat) :
    i ∈ rejGo wm k ws us ↔
      ∃ j, i = k + j ∧ ∃ (h1 : j < ws.length) (h2 : j < us.length), us[j] < ws[j] / wm := by
  induction ws generalizing k us with
  | nil => simp [rejGo]
  | cons w ws ih =>
    cases us with
    | nil => simp [rejGo]
    | cons u us =>
      have step : (i ∈ rejGo wm (k + 1) ws us) ↔
          ∃ j, i = k + (j + 1) ∧ ∃ (h1 : j < ws.length) (h2 : j < us.length), us[j] < ws[j] / wm := by
        rw [ih]
        constructor
        · rintro ⟨j, rfl, h⟩; exact ⟨j, by omega, h⟩
        · rintro ⟨j, rfl, h⟩; exact ⟨j, by omega, h⟩
      have split_j : (∃ j, i = k + j ∧ ∃ (h1 : j < (w :: ws).length) (h2 : j < (u :: us).length),
            (u :: us)[j] < (w :: ws)[j] / wm) ↔
          ((i = k ∧ u < w / wm) ∨
            ∃ j, i = k + (j + 1) ∧ ∃ (h1 : j < ws.length) (h2 : j < us.length), us[j] < ws[j] / wm) := by
        constructor
        · rintro ⟨j, hi, h1, h2, h⟩
          cases j with
          | zero => left; exact ⟨by omega, by simpa using h⟩
          | succ j =>
            right
            refine ⟨j, hi, by simpa using h1, by simpa using h2, by simpa using h⟩
        · rintro (⟨rfl, h⟩ | ⟨j, hi, h1, h2, h⟩)
          · exact ⟨0, by omega, by simp, by simp, by simpa using h⟩
          · exact ⟨j + 1, hi, by simpa using h1, by simpa using h2, by simpa using h⟩
      rw [split_j]
      unfold rejGo
      by_cases hk : keep wm w u = true
      · rw [if_pos hk, List.mem_cons, step]
        have := (keep_iff wm w u).mp hk
        constructor
        · rintro (rfl | h)
          · left; exact ⟨rfl, this⟩
          · right; exact h
        · rintro (⟨rfl, _⟩ | h)
          · left; rfl
          · right; exact h
      · rw [if_neg hk, step]
        have : ¬ u < w / wm := fun h => hk ((keep_iff wm w u).mpr h)
        constructor
        · intro h; right; exact h
        · rintro (⟨_, h⟩ | h)
          · exact absurd h this
          · exact h

theorem rejGo_bounds (wm : K) (k : Nat) (ws us : List K) :
    ∀ i ∈ rejGo wm k ws us, k ≤ i ∧ i < k + ws.length := by
  intro i hi
  obtain ⟨j, rfl, h1, _, _⟩ := (mem_rejGo wm k ws us i).mp hi
  omega

theorem rejGo_sorted (wm : K) (k : Nat) (ws us : List K) :
    (rejGo wm k ws us).Pairwise (· < ·) := by
  induction ws generalizing k us with
  | nil => simp [rejGo]
  | cons w ws ih =>
    cases us with
    | nil => simp [rejGo]
    | cons u us =>
      unfold rejGo
      split
      · refine List.Pairwise.cons ?_ (ih (k + 1) us)
        intro i hi
        have := (rejGo_bounds wm (k + 1) ws us i hi).1
        omega
      · exact ih (k + 1) us

theorem rejGo_length_le (wm : K) (k : Nat) (ws us : List K) :
    (rejGo wm k ws us).length ≤ ws.length := by
  induction ws generalizing k us with
  | nil => simp [rejGo]
  | cons w ws ih =>
    cases us with
    | nil => simp [rejGo]
    | cons u us =>
      unfold rejGo
      have := ih (k + 1) us
      split <;> simp <;> omega

/-- looking the accepted indices up in the sample array gives the mask-filtered samples -/
theorem filterMap_rejGo (wm : K) (ws us : List K) (xs pre : List α) :
    (rejGo wm pre.length ws us).filterMap (fun i => (pre ++ xs)[i]?) = rejMask wm ws us xs := by
  induction ws generalizing us xs pre with
  | nil => simp [rejGo, rejMask]
  | cons w ws ih =>
    cases us with
    | nil => simp [rejGo, rejMask]
    | cons u us =>
      cases xs with
      | nil =>
        have hnone : ∀ i ∈ rejGo wm pre.length (w :: ws) (u :: us), (pre ++ ([] : List α))[i]? = none := by
          intro i hi
          have := (rejGo_bounds wm pre.length (w :: ws) (u :: us) i hi).1
          simp [this]
        rw [List.filterMap_eq_nil_iff.mpr hnone]
        simp [rejMask]
      | cons x xs =>
        have hpre : pre ++ x :: xs = (pre ++ [x]) ++ xs := by simp
        have hlen : (pre ++ [x]).length = pre.length + 1 := by simp
        have ih' := ih us xs (pre ++ [x])
        rw [hlen, ← hpre] at ih'
        unfold rejGo rejMask
        split
        · rw [List.filterMap_cons]
          have : (pre ++ x :: xs)[pre.length]? = some x := by simp
          rw [this, ih']
        · exact ih'

theorem takeIdx_eq (xs : List α) (idx : List Nat) : takeIdx xs idx = idx.filterMap (fun i => xs[i]?) := by
  simp [takeIdx]

theorem takeIdx_mem (xs : List α) (idx : List Nat) : ∀ s ∈ takeIdx xs idx, s ∈ xs := by
  intro s hs
  rw [takeIdx_eq, List.mem_filterMap] at hs
  obtain ⟨i, _, hi⟩ := hs
  exact List.mem_of_getElem? hi

theorem takeIdx_length (xs : List α) (idx : List Nat) (h : ∀ i ∈ idx, i < xs.length) :
    (takeIdx xs idx).length = idx.length := by
  rw [takeIdx_eq]
  induction idx with
  | nil => simp
  | cons i is ih =>
    have hi : i < xs.length := h i (by simp)
    have := ih (fun j hj => h j (by simp [hj]))
    simp [List.getElem?_eq_getElem hi, this]

theorem takeIdx_getElem (xs : List α) (idx : List Nat) (h : ∀ i ∈ idx, i < xs.length)
    (k : Nat) (hk : k < idx.length) :
    (takeIdx xs idx)[k]? = xs[idx[k]]? := by
  rw [takeIdx_eq]
  induction idx generalizing k with
  | nil => simp at hk
  | cons i is ih =>
    have hi : i < xs.length := h i (by simp)
    rw [List.filterMap_cons, List.getElem?_eq_getElem hi]
    cases k with
    | zero => simp [List.getElem?_eq_getElem hi]
    | succ k =>
      simp only [List.getElem?_cons_succ, List.getElem_cons_succ]
      exact ih (fun j hj => h j (by simp [hj])) k (by simpa using hk)

end NessaiVerif.Resample
