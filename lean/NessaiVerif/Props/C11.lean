import NessaiVerif.Proofs.CrashFSGen
/-
C11 — a process kill during checkpointing never leaves the run unresumable.
Property theorems only.  `Gen.protocol` (the statement lists of `safe_file_dump` for both
`save_existing` values and of `FlowModel.save_weights`, the `except` tuples of
`FlowSampler._resume_from_file`, the weights-reload shape of `FlowProposal.resume`) is
regenerated from the nessai source on every run; every theorem below is about it.

A history is any list of checkpoints (either `save_existing` mode, any version) and
trainings (each ending in a weights save), each either completed or killed at a crash
point `⟨j, inside, flushed⟩`: `j` file operations completed; if `inside = some k`, the next
one started and `k` bytes written; and a file written through a handle that was not yet
closed keeps only its first `flushed` bytes (any number), under whatever name it has.  After a kill the run is restarted with resume and
goes on (so histories contain any number of kills).  `SafeAfter kind P hist` says: the
resume after `hist` does not raise and returns the last completed checkpoint (a fresh
start if there is none) or a checkpoint attempted after it.
-/
set_option linter.unusedSimpArgs false
namespace NessaiVerif.C11
open NessaiVerif.CrashFS

/-- After any history whatsoever (both samplers, both `save_existing` modes, any number of
kills anywhere, including inside the pickle write and inside the weights write) the
checkpoint file and its `.old` are never torn: torn bytes only ever live in the temp file.
(This needs the rename to come AFTER the close of the temp file's handle: a file renamed
while its handle is open carries its unflushed tail to the final name.) -/
theorem reachable_wellformed (kind : Kind) (hist : List Ev) :
    ((replay kind Gen.protocol hist).fs cb).isTorn = false ∧
    ((replay kind Gen.protocol hist).fs co).isTorn = false :=
  hist_untorn kind Gen.protocol gen_dumpSpec hist initSys rfl rfl

example : ∃ j, j < 9 ∧ ((replay .std Gen.protocol [.ckpt true 1 0 9 none,
    .ckpt true 2 0 9 (some ⟨j, some 4, 0⟩)]).fs ⟨.ckpt, .temp⟩) = .torn 4 .tornPickle := by decide

-- durability is in the model: killed after the write but before the handle is closed, the
-- temp file keeps only what had been flushed (here 4 of 9 bytes)
example : ∃ j, j < 9 ∧ ((replay .std Gen.protocol [.ckpt true 1 0 9 none,
    .ckpt true 2 0 9 (some ⟨j, none, 4⟩)]).fs ⟨.ckpt, .temp⟩) = .torn 4 .tornPickle := by decide

/-- Checkpoint protocol, both samplers, both `save_existing` modes, every history in which
no weights save is killed inside its write (checkpoints may be killed anywhere, any number
of times): the resume never raises and returns the previous or the new checkpoint, or
starts afresh when none had completed. -/
theorem crash_safe_state (kind : Kind) (hist : List Ev) (h : ∀ e ∈ hist, e.noTornTrain = true) :
    SafeAfter kind Gen.protocol hist := by
  cases kind with
  | ins => exact ins_hist_safe Gen.protocol gen_dumpSpec gen_saveSpec (gen_resumeSpec _) hist
  | std =>
    exact std_hist_safe Gen.protocol gen_dumpSpec (gen_resumeSpec _)
      (fun fs => (fs wb).isTorn = false) (fun e => e.noTornTrain = true)
      (fun fs hq n => gen_untorn_ok fs hq n)
      (fun fs fs' hf hq => by rw [hf wb (by simp)]; exact hq)
      (fun fs w len e cp hok hq => train_keeps_untorn fs w len e cp hok hq)
      rfl hist h

example : ∀ e ∈ [Ev.ckpt true 1 0 9 none, .train 1 20 .runtime none, .ckpt false 2 1 9 (some ⟨2, some 3, 0⟩),
    .train 2 20 .runtime (some ⟨2, none, 0⟩), .ckpt true 3 1 9 (some ⟨2, none, 0⟩)], e.noTornTrain = true := by decide

/-- The same statement for the standard sampler alone, named for what it leaves out:
a kill INSIDE the in-place `torch.save` of `FlowModel.save_weights` is excluded
(hypothesis `noTornTrain`); kills between its operations are covered. -/
theorem weights_crash_safe_partial (hist : List Ev) (h : ∀ e ∈ hist, e.noTornTrain = true) :
    SafeAfter .std Gen.protocol hist :=
  crash_safe_state .std hist h

example : ∀ e ∈ [Ev.train 1 20 .runtime none, .ckpt true 1 1 9 none, .train 2 20 .runtime (some ⟨1, none, 0⟩)],
    e.noTornTrain = true := by decide

/-- … and the excluded case is a real counter-example (defect F3) whenever the weights
reload has no `try` (the shape it has in the source today): one completed training and
checkpoint, then a kill 5 bytes into the write of the next weights save (operation `j`)
— the resume raises. -/
theorem weights_crash_safe_partial_fails_without :
    (∃ j, j < 9 ∧ resume .std (Gen.resumeCfgWith ⟨true, true, [], .reraise⟩) 0
      (replay .std (Gen.protocolWith ⟨true, true, [], .reraise⟩)
        [.train 1 20 .runtime none, .ckpt true 1 1 9 none, .train 2 20 .runtime (some ⟨j, some 5, 0⟩)]).fs
      = .raises .fileNotFound) ∧
    (∃ j, j < 9 ∧ resume .std (Gen.resumeCfgWith ⟨true, true, [], .reraise⟩) 0
      (replay .std (Gen.protocolWith ⟨true, true, [], .reraise⟩)
        [.train 1 20 .osError none, .ckpt true 1 1 9 none, .ckpt true 2 1 9 none,
         .train 2 20 .osError (some ⟨j, some 5, 0⟩)]).fs = .raises .osError) := by
  constructor <;> decide

/-- The counter-example in general (defect F3), for ANY weights-reload shape `h` that does
not catch what `torch.load` raises on the torn file (`e`: `RuntimeError`, `OSError`,
`EOFError` or `UnpicklingError` depending on where the file was cut): whenever the
checkpoint refers to the weights file, that file is torn, and `.old` is missing or refers
to the weights too, the resume raises — whatever the versions and the cut. -/
theorem weights_torn_witness (h : WeightsHandler) (fs : FS) (top v n k : Nat) (e : Exc) (hn : n ≠ 0)
    (hc : catches h.excs e = false)
    (hb : fs cb = .complete v n) (hw : fs wb = .torn k e)
    (ho : fs co = .absent ∨ ∃ v' n', n' ≠ 0 ∧ fs co = .complete v' n') :
    (resume .std (Gen.resumeCfgWith h) top fs).version = none := by
  have hb' : fs ⟨.ckpt, .base⟩ = .complete v n := hb
  have hw' : fs ⟨.weights, .base⟩ = .torn k e := hw
  have hres : ∀ m, m ≠ 0 → stdWeightsResume h fs m = some e := by
    intro m hm
    simp [stdWeightsResume, loadWeights, FS.has, hw', Content.exists?, hm, hc]
  rcases ho with ho | ⟨v', n', hn', ho⟩
  · have ho' : fs ⟨.ckpt, .old⟩ = .absent := ho
    cases e <;>
      simp [resume, attempt, weightsResume, hres n hn, Gen.resumeCfgWith, FS.has, hb', ho',
        Content.exists?, catches, ExcName.covers, Outcome.version]
  · have ho' : fs ⟨.ckpt, .old⟩ = .complete v' n' := ho
    cases e <;>
      simp [resume, attempt, weightsResume, hres n hn, hres n' hn', Gen.resumeCfgWith, FS.has, hb', ho',
        Content.exists?, catches, ExcName.covers, Outcome.version]

example : catches (WeightsHandler.mk true true [] .reraise).excs .osError = false := by decide
example : ∃ j, j < 9 ∧
    let fs := (replay .std (Gen.protocolWith ⟨true, true, [], .reraise⟩) [.train 1 20 .runtime none,
      .ckpt true 1 1 9 none, .train 2 20 .runtime (some ⟨j, some 5, 0⟩)]).fs
    fs cb = .complete 1 1 ∧ fs wb = .torn 5 .runtime ∧ fs co = .absent := by decide

/-- What a repair can rely on: when a weights save that started from a complete weights
file is killed anywhere, the previous weights are still complete on disk, in the file itself
or in `.old` (or the new ones are complete). -/
theorem weights_old_survives (fs : FS) (w0 w len : Nat) (e : Exc) (cp : CrashPt) (hw : fs wb = .complete w0 0) :
    crashState Gen.protocol.saveWeights .weights ⟨w, 0, len, e⟩ fs cp wb = .complete w0 0 ∨
    crashState Gen.protocol.saveWeights .weights ⟨w, 0, len, e⟩ fs cp wo = .complete w0 0 ∨
    crashState Gen.protocol.saveWeights .weights ⟨w, 0, len, e⟩ fs cp wb = .complete w 0 := by
  have hw' : fs ⟨.weights, .base⟩ = .complete w0 0 := hw
  rcases gen_saveSpec.views .weights ⟨w, 0, len, e⟩ fs cp with ⟨h1, _⟩ | ⟨_, _, h2⟩ | ⟨_, ⟨_, h2⟩ | ⟨h2, _⟩⟩
  · exact Or.inl (h1.trans hw')
  · exact Or.inr (Or.inl (h2.trans hw'))
  · exact Or.inr (Or.inl (h2.trans hw'))
  · rw [hw'] at h2; cases h2

example : (replay .std Gen.protocol [.train 1 20 .runtime none]).fs wb = .complete 1 0 := by decide

/-- The repair, stated for the code that would contain it: if the weights reload of
`FlowProposal.resume` has the shape `h` and `h.safe` holds (the reload is skipped when no
weights were saved, a missing file is tolerated, `RuntimeError`, `OSError`, `EOFError` and
`UnpicklingError` — everything `torch.load` raises on a torn file — are caught, and the
handler either carries on or falls back to `.old` tolerating the same failures), then the
standard sampler is crash-safe for EVERY history, kills inside the weights write included.
Whether the source passes is decided in `weights_crash_safe_status`. -/
theorem weights_crash_safe_of_handler (h : WeightsHandler) (hs : h.safe = true) (hist : List Ev) :
    SafeAfter .std (Gen.protocolWith h) hist :=
  std_hist_safe (Gen.protocolWith h) gen_dumpSpec (gen_resumeSpec h) (fun _ => True) (fun _ => True)
    (fun fs _ n => safe_handler_ok h hs fs n) (fun _ _ _ _ => trivial) (fun _ _ _ _ _ _ _ => trivial)
    trivial hist (fun _ _ => trivial)

example : (WeightsHandler.mk true true [.RuntimeError, .OSError, .EOFError, .UnpicklingError]
    (.loadOld true [.RuntimeError, .OSError, .EOFError, .UnpicklingError])).safe = true := by decide

/-- Where the source stands TODAY, re-decided on every run from the generated
`Gen.weightsHandler`: either the weights reload passes `WeightsHandler.safe` and the standard
sampler is crash-safe for every history (this is `weights_crash_safe`, the branch that
will hold once F3 is repaired by a resume-side fallback), or it does not and a single kill
inside one weights save after one completed training and checkpoint makes the resume raise
(F3; the branch that holds for the source as it is). -/
theorem weights_crash_safe_status :
    (Gen.weightsHandler.safe = true ∧ ∀ hist, SafeAfter .std Gen.protocol hist) ∨
    (Gen.weightsHandler.safe = false ∧
      ∃ j, j < 9 ∧ (resume .std Gen.protocol.cfg 0 (replay .std Gen.protocol
        [.train 1 20 .osError none, .ckpt true 1 1 9 none,
         .train 2 20 .osError (some ⟨j, some 5, 0⟩)]).fs).version = none) := by
  first
    | exact Or.inl ⟨by decide, fun hist => weights_crash_safe_of_handler Gen.weightsHandler (by decide) hist⟩
    | exact Or.inr ⟨by decide, by decide⟩

example : ∃ j, j < 9 ∧ (replay .std Gen.protocol [.train 1 20 .osError none, .ckpt true 1 1 9 none,
    .train 2 20 .osError (some ⟨j, some 5, 0⟩)]).fs wb = .torn 5 .osError := by decide

/-- Importance sampler: the per-level weights layout is crash-safe for EVERY history, kills
inside a level's weights write included — a torn `level_k/model.pt` is always beyond the
level count recorded in any checkpoint on disk, so `load_all_weights` never reads it. -/
theorem ins_levels_safe (hist : List Ev) : SafeAfter .ins Gen.protocol hist :=
  ins_hist_safe Gen.protocol gen_dumpSpec gen_saveSpec (gen_resumeSpec _) hist

example : ∃ j, j < 9 ∧ ((replay .ins Gen.protocol [.train 1 20 .runtime none, .ckpt false 1 0 9 none,
    .train 2 20 .runtime (some ⟨j, some 7, 0⟩)]).fs ⟨.level 1, .base⟩) = .torn 7 .runtime := by decide

end NessaiVerif.C11
