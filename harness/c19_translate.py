"""C19 translator: nessai/utils/io.py + nessai/flowsampler.py  ->  lean/NessaiVerif/Gen/Encode.lean

Extracts with `ast` (never by importing the module):
  * the ordered isinstance chain of NessaiJSONEncoder.default and what follows it,
  * the None sentinel of encode_for_hdf5, the recursion/separator of add_dict_to_hdf5_file, the root path
    and mode of save_dict_to_hdf5, the encoder class used by save_to_json,
  * the extension -> writer table of FlowSampler.save_results (and the posterior_samples -> dict step of
    its JSON branch), the keys FlowSampler.save_kwargs adds and the file name it writes.
Any shape it does not know raises Untranslatable (the check records `translator: …` as a broken tie).
"""
import ast
import hashlib

TYPE_TESTS = {"integer": ".npInteger", "floating": ".npFloating", "number": ".npNumber",
              "generic": ".npGeneric", "bool_": ".npBool", "ndarray": ".ndarray"}
ACTIONS = {"int": ".toInt", "float": ".toFloat", "bool": ".toBool", "str": ".toStr"}
METHODS = {"tolist": ".tolist", "item": ".item"}


class Untranslatable(Exception):
    pass


def _no_doc(body):
    if body and isinstance(body[0], ast.Expr) and isinstance(getattr(body[0], "value", None), ast.Constant) \
            and isinstance(body[0].value.value, str):
        return body[1:]
    return body


def _find(tree, kind, name):
    for n in ast.walk(tree):
        if isinstance(n, kind) and n.name == name:
            return n
    raise Untranslatable(f"{name} not found")


def _is_name(n, name):
    return isinstance(n, ast.Name) and n.id == name


def _np_type(n):
    if isinstance(n, ast.Attribute) and isinstance(n.value, ast.Name) and n.value.id in ("np", "numpy") \
            and n.attr in TYPE_TESTS:
        return TYPE_TESTS[n.attr]
    raise Untranslatable("isinstance against unknown type " + ast.unparse(n))


def _ret_action(body, arg):
    if len(body) != 1 or not isinstance(body[0], ast.Return) or not isinstance(body[0].value, ast.Call):
        raise Untranslatable("branch body is not a single `return f(obj)`: " + "; ".join(ast.unparse(b) for b in body))
    c = body[0].value
    if isinstance(c.func, ast.Name) and c.func.id in ACTIONS and len(c.args) == 1 and _is_name(c.args[0], arg) \
            and not c.keywords:
        return ACTIONS[c.func.id]
    if isinstance(c.func, ast.Attribute) and _is_name(c.func.value, arg) and c.func.attr in METHODS \
            and not c.args and not c.keywords:
        return METHODS[c.func.attr]
    raise Untranslatable("unknown return expression " + ast.unparse(c))


def _is_super_default(body, arg):
    return (len(body) == 1 and isinstance(body[0], ast.Return) and isinstance(body[0].value, ast.Call)
            and ast.unparse(body[0].value) == f"super().default({arg})")


def json_chain(io_tree):
    cls = _find(io_tree, ast.ClassDef, "NessaiJSONEncoder")
    if [ast.unparse(b) for b in cls.bases] != ["json.JSONEncoder"]:
        raise Untranslatable("NessaiJSONEncoder bases changed")
    fn = _find(cls, ast.FunctionDef, "default")
    if len(fn.args.args) != 2:
        raise Untranslatable("default() signature changed")
    arg = fn.args.args[1].arg
    body = _no_doc(fn.body)
    if len(body) != 1 or not isinstance(body[0], ast.If):
        raise Untranslatable("default() body is not one if/elif chain")
    chain, fallback, node = [], None, body[0]
    while True:
        t = node.test
        if isinstance(t, ast.Call) and _is_name(t.func, "isinstance") and len(t.args) == 2 and _is_name(t.args[0], arg):
            types = t.args[1].elts if isinstance(t.args[1], ast.Tuple) else [t.args[1]]
            act = _ret_action(node.body, arg)
            chain += [(_np_type(x), act) for x in types]
        elif ast.unparse(t) == f"not is_jsonable({arg})":
            if _ret_action(node.body, arg) != ".toStr":
                raise Untranslatable("`not is_jsonable` branch does not return str(obj)")
            fallback = ".strIfNotJsonable"
            # whatever follows is unreachable for an object that reached default(); it must still be sane
            rest = node.orelse
            if not (_is_super_default(rest, arg) or (len(rest) == 1 and isinstance(rest[0], ast.If))):
                raise Untranslatable("unexpected tail after the is_jsonable branch")
            break
        else:
            raise Untranslatable("unknown test in default(): " + ast.unparse(t))
        if len(node.orelse) == 1 and isinstance(node.orelse[0], ast.If):
            node = node.orelse[0]
            continue
        if _is_super_default(node.orelse, arg):
            fallback = ".raise"
            break
        raise Untranslatable("default() chain does not end in super().default(obj)")
    # is_jsonable must be: try json.dumps(x); return True / except (...): return False
    isj = _find(io_tree, ast.FunctionDef, "is_jsonable")
    b = _no_doc(isj.body)
    x = isj.args.args[0].arg
    ok = (len(b) == 1 and isinstance(b[0], ast.Try) and len(b[0].body) == 2
          and ast.unparse(b[0].body[0]) == f"json.dumps({x})" and ast.unparse(b[0].body[1]) == "return True"
          and len(b[0].handlers) == 1 and ast.unparse(b[0].handlers[0].body[0]) == "return False"
          and not b[0].orelse and not b[0].finalbody)
    if not ok:
        raise Untranslatable("is_jsonable changed shape")
    return chain, fallback, fn


def hdf5_parts(io_tree):
    enc = _find(io_tree, ast.FunctionDef, "encode_for_hdf5")
    v = enc.args.args[0].arg
    b = _no_doc(enc.body)
    if not (len(b) == 2 and isinstance(b[0], ast.If) and ast.unparse(b[0].test) == f"{v} is None"
            and len(b[0].body) == 1 and isinstance(b[0].body[0], ast.Assign)
            and isinstance(b[0].body[0].value, ast.Constant) and isinstance(b[0].body[0].value.value, str)
            and len(b[0].orelse) == 1 and isinstance(b[0].orelse[0], ast.Assign)
            and _is_name(b[0].orelse[0].value, v)
            and isinstance(b[1], ast.Return)):
        raise Untranslatable("encode_for_hdf5 is not `if value is None: out = <str> else: out = value; return out`")
    out = ast.unparse(b[0].body[0].targets[0])
    if ast.unparse(b[0].orelse[0].targets[0]) != out or ast.unparse(b[1].value) != out:
        raise Untranslatable("encode_for_hdf5 returns something else than the encoded value")
    sentinel = b[0].body[0].value.value

    add = _find(io_tree, ast.FunctionDef, "add_dict_to_hdf5_file")
    f, p, d = [a.arg for a in add.args.args]
    b = _no_doc(add.body)
    if not (len(b) == 1 and isinstance(b[0], ast.For) and ast.unparse(b[0].iter) == f"{d}.items()"
            and isinstance(b[0].target, ast.Tuple) and len(b[0].target.elts) == 2 and not b[0].orelse):
        raise Untranslatable("add_dict_to_hdf5_file is not a single loop over d.items()")
    k, val = [ast.unparse(e) for e in b[0].target.elts]
    lb = b[0].body
    want_if = f"isinstance({val}, dict)"
    want_rec = f"add_dict_to_hdf5_file({f}, {p} + {k} + '/', {val})"
    want_set = f"{f}[{p} + {k}] = encode_for_hdf5({val})"
    if not (len(lb) == 1 and isinstance(lb[0], ast.If) and ast.unparse(lb[0].test) == want_if
            and [ast.unparse(s) for s in lb[0].body] == [want_rec]
            and [ast.unparse(s) for s in lb[0].orelse] == [want_set]):
        raise Untranslatable("add_dict_to_hdf5_file loop body changed: " + " | ".join(ast.unparse(s) for s in lb))

    sv = _find(io_tree, ast.FunctionDef, "save_dict_to_hdf5")
    dd, fn = [a.arg for a in sv.args.args]
    b = [s for s in _no_doc(sv.body) if not isinstance(s, (ast.Import, ast.ImportFrom))]
    if not (len(b) == 1 and isinstance(b[0], ast.With) and len(b[0].items) == 1
            and ast.unparse(b[0].items[0].context_expr) == f"h5py.File({fn}, 'w')"
            and [ast.unparse(s) for s in b[0].body]
            == [f"add_dict_to_hdf5_file({ast.unparse(b[0].items[0].optional_vars)}, '/', {dd})"]):
        raise Untranslatable("save_dict_to_hdf5 changed shape")
    return sentinel, [enc, add, sv]


def save_to_json_part(io_tree):
    fn = _find(io_tree, ast.FunctionDef, "save_to_json")
    src = ast.unparse(fn)
    d, filename = fn.args.args[0].arg, fn.args.args[1].arg
    b = _no_doc(fn.body)
    if not (len(b) == 3 and isinstance(b[0], ast.Assign) and isinstance(b[0].value, ast.Call)
            and _is_name(b[0].value.func, "dict")):
        raise Untranslatable("save_to_json changed shape")
    kws = {k.arg: ast.unparse(k.value) for k in b[0].value.keywords}
    if kws.get("cls") != "NessaiJSONEncoder" or set(kws) - {"cls", "indent"}:
        raise Untranslatable(f"save_to_json default kwargs changed: {kws}")
    dk = ast.unparse(b[0].targets[0])
    if ast.unparse(b[1]) != f"{dk}.update(kwargs)":
        raise Untranslatable("save_to_json no longer merges kwargs")
    w = b[2]
    if not (isinstance(w, ast.With) and ast.unparse(w.items[0].context_expr) == f"open({filename}, 'w')"
            and [ast.unparse(s) for s in w.body]
            == [f"json.dump({d}, {ast.unparse(w.items[0].optional_vars)}, **{dk})"]):
        raise Untranslatable("save_to_json no longer dumps d with the default kwargs: " + src)
    return fn


def flowsampler_parts(fs_tree):
    cls = _find(fs_tree, ast.ClassDef, "FlowSampler")
    sr = _find(cls, ast.FunctionDef, "save_results")
    chain_if = None
    for s in sr.body:
        if isinstance(s, ast.If) and isinstance(s.test, ast.Compare) and _is_name(s.test.left, "extension") \
                and isinstance(s.test.ops[0], (ast.Eq, ast.In)) and not (
                isinstance(s.test.comparators[0], ast.Constant) and s.test.comparators[0].value is None):
            chain_if = s
    if chain_if is None:
        raise Untranslatable("save_results: no if-chain on `extension`")
    table, post_as_dict, node = [], False, chain_if
    while True:
        t = node.test
        if not (isinstance(t, ast.Compare) and _is_name(t.left, "extension") and len(t.ops) == 1):
            raise Untranslatable("save_results: unknown test " + ast.unparse(t))
        c = t.comparators[0]
        if isinstance(t.ops[0], ast.Eq) and isinstance(c, ast.Constant) and isinstance(c.value, str):
            exts = [c.value]
        elif isinstance(t.ops[0], ast.In) and isinstance(c, (ast.List, ast.Tuple, ast.Set)) \
                and all(isinstance(e, ast.Constant) and isinstance(e.value, str) for e in c.elts):
            exts = [e.value for e in c.elts]
        else:
            raise Untranslatable("save_results: unknown test " + ast.unparse(t))
        stmts = [ast.unparse(s) for s in node.body]
        if stmts[-1] == "save_to_json(d, filename)":
            fmt = ".json"
            pre = stmts[:-1]
            if pre == ["d['posterior_samples'] = live_points_to_dict(d['posterior_samples'])"]:
                post_as_dict = True
            elif pre:
                raise Untranslatable("save_results json branch: " + " | ".join(pre))
        elif stmts == ["save_dict_to_hdf5(d, filename)"]:
            fmt = ".hdf5"
        else:
            raise Untranslatable("save_results branch body: " + " | ".join(stmts))
        table += [(e, fmt) for e in exts]
        if len(node.orelse) == 1 and isinstance(node.orelse[0], ast.If):
            node = node.orelse[0]
            continue
        if len(node.orelse) == 1 and isinstance(node.orelse[0], ast.Raise) \
                and ast.unparse(node.orelse[0].exc).startswith("RuntimeError("):
            break
        raise Untranslatable("save_results: chain does not end in `raise RuntimeError`")

    sk = _find(cls, ast.FunctionDef, "save_kwargs")
    b = _no_doc(sk.body)
    if not (len(b) >= 2 and ast.unparse(b[0]) == "d = kwargs.copy()"
            and ast.unparse(b[-1]) == "save_to_json(d, os.path.join(self.output, 'config.json'))"):
        raise Untranslatable("save_kwargs changed shape")
    extras = []
    for s in b[1:-1]:
        if not (isinstance(s, ast.Assign) and isinstance(s.targets[0], ast.Subscript) and _is_name(s.targets[0].value, "d")
                and isinstance(s.targets[0].slice, ast.Constant) and isinstance(s.targets[0].slice.value, str)
                and isinstance(s.value, ast.Attribute) and _is_name(s.value.value, "self")):
            raise Untranslatable("save_kwargs statement: " + ast.unparse(s))
        extras.append((s.targets[0].slice.value, s.value.attr))
    return table, post_as_dict, extras, [sr, sk]


def lean_str(s):
    return '"' + s.replace("\\", "\\\\").replace('"', '\\"') + '"'


def translate(repo):
    """-> (lean text, info dict).  Raises Untranslatable."""
    io_path = repo / "nessai" / "utils" / "io.py"
    fs_path = repo / "nessai" / "flowsampler.py"
    io_src, fs_src = io_path.read_text(), fs_path.read_text()
    io_tree, fs_tree = ast.parse(io_src), ast.parse(fs_src)
    chain, fallback, f_default = json_chain(io_tree)
    sentinel, h5_fns = hdf5_parts(io_tree)
    f_json = save_to_json_part(io_tree)
    table, post_as_dict, extras, fs_fns = flowsampler_parts(fs_tree)

    def span(src, fns):
        text = "\n".join(ast.get_source_segment(src, f) for f in fns)
        return (", ".join(f"{f.name}:{f.lineno}-{f.end_lineno}" for f in fns),
                hashlib.sha256(text.encode()).hexdigest())
    io_span, io_sha = span(io_src, [f_default, f_json] + h5_fns)
    fs_span, fs_sha = span(fs_src, fs_fns)
    lines = [
        "import NessaiVerif.Model.Encode",
        "/- GENERATED by harness/c19.py (harness/c19_translate.py) — do not edit.",
        f"   source: nessai/utils/io.py  [{io_span}]",
        f"   sha256: {io_sha}",
        f"   source: nessai/flowsampler.py  [{fs_span}]",
        f"   sha256: {fs_sha} -/",
        "namespace NessaiVerif.Gen.Encode",
        "open NessaiVerif.Encode",
        "",
        "/-- the ordered `isinstance` chain of `NessaiJSONEncoder.default` -/",
        "def jsonChain : Chain := [" + ", ".join(f"({t}, {a})" for t, a in chain) + "]",
        "/-- what follows the chain -/",
        f"def jsonFallback : Fallback := {fallback}",
        "/-- `encode_for_hdf5`: the string stored for `None` -/",
        f"def h5Sentinel : String := {lean_str(sentinel)}",
        "/-- `save_results`: extension → writer -/",
        "def extTable : ExtTable := [" + ", ".join(f"({lean_str(e)}, {f})" for e, f in table) + "]",
        "/-- the JSON branch of `save_results` converts `posterior_samples` with `live_points_to_dict` -/",
        f"def jsonPosteriorAsDict : Bool := {'true' if post_as_dict else 'false'}",
        "/-- keys `save_kwargs` adds to the copy of the keyword arguments -/",
        "def kwargsExtraKeys : List String := [" + ", ".join(lean_str(k) for k, _ in extras) + "]",
        "",
        "end NessaiVerif.Gen.Encode",
        "",
    ]
    info = dict(chain=chain, fallback=fallback, sentinel=sentinel, table=table, posterior_as_dict=post_as_dict,
                extras=extras, io_sha=io_sha, fs_sha=fs_sha)
    return "\n".join(lines), info
