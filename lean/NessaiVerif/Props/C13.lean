import NessaiVerif.Model.Interrupt
import NessaiVerif.Gen.Interrupt
import NessaiVerif.Proofs.Interrupt
/-
C13 — a termination signal at any instant leaves a consistent, resumable state.

`Gen.Interrupt.consumeOrder` is the order of the state-mutating statements of one iteration of the
standard sampler, extracted from the current source on every run; `Gen.Interrupt.insGuardFirst` records
that `ImportanceNestedSampler.checkpoint` returns before writing when it is not a periodic checkpoint.
The property is FALSE for the code as it stands inside a window of the iteration (known finding F4):
both directions are proved — safe outside the window, inconsistent inside it, for every state.

GRANULARITY AND WHAT IS NOT SHOWN
* An instant is a boundary between two of the seven state-mutating statements of `consume_sample` /
  `insert_live_point` (`Tag`); `state.increment(...)` is ONE step of the model.  "Window exact" therefore means exact
  at that granularity.  On the real code the window opens earlier, at the first mutating statement INSIDE
  `_NSIntegralState.increment` (`self.nlive.append`): the harness interrupts before every statement line of
  `increment` too, finds every later line of it unsafe (integrator lists of unequal length after the restart) and
  routes those to the same known finding F4; the lines before that statement are compared with the model as "only
  `logLmin` assigned".  Interruptions inside a single Python statement are not enumerated.
* `ins_handler_noop` is about the generated flag `insGuardFirst` (first statement of `ImportanceNestedSampler.checkpoint`
  is a guard taken for `periodic=False` that returns without calling anything that writes); that the boundary
  checkpoint on disk stays byte-identical is checked on the real sampler by the harness.
* "The checkpoint is written before exit", "the exit code is the configured one", "the pool is closed" are checked by
  the harness with a real SIGTERM to a child process; no theorem states them.
* The flow-proposal phase (pool of pre-drawn samples, training inside `check_state`) is not in the model; the same
  interruption experiment is run on a real flow-phase sampler and judged by the oracle only.
-/
namespace NessaiVerif.C13
open NessaiVerif.Interrupt NessaiVerif.Gen.Interrupt

/-- the source still executes the mutating statements in the order the theorems are about -/
theorem order_is_canonical : consumeOrder = canonicalOrder := by decide

/-- An uninterrupted iteration keeps the state consistent (full live set, no duplicate, each discarded
point recorded and integrated once, counts agree). -/
theorem uninterrupted_consistent (n : Nat) (s : NS) (p : Pt) (h : consistent n s = true)
    (hp : validCand s p = true) : consistent n (consume consumeOrder s p) = true := by
  rw [order_is_canonical]
  exact (consistent_iff _ _).mpr (consume_consistent n s p ((consistent_iff _ _).mp h) hp).1

/-- **Safe points.**  A signal before the evidence is incremented (at most the `logLmin` assignment done) or
after the insertion index has been recorded leaves a checkpoint from which the resumed iteration is
consistent, for every consistent state and every admissible candidate. -/
theorem safe_outside_window (n : Nat) (s : NS) (p p' : Pt) (j : Nat) (h : consistent n s = true)
    (hp : validCand s p = true)
    (hp' : validCand (runTags s p (consumeOrder.take j)) p' = true)
    (hj : j ≤ 1 ∨ 7 ≤ j) :
    consistent n (interruptResume consumeOrder s p p' j) = true := by
  rw [order_is_canonical] at hp' ⊢
  have hc := (consistent_iff _ _).mp h
  unfold interruptResume
  rcases hj with hj | hj
  · -- nothing but `logLmin` has changed: the pickled state is consistent
    have hcons : Consistent n (runTags s p (canonicalOrder.take j)) := by
      obtain rfl | rfl : j = 0 ∨ j = 1 := by omega
      · cases hl : s.live with
        | nil => simpa [runTags, hl] using hc
        | cons w rest =>
          have : runTags s p (canonicalOrder.take 0) = s := by simp [runTags, hl, applyTags]
          rw [this]; exact hc
      · cases hl : s.live with
        | nil => simpa [runTags, hl] using hc
        | cons w rest =>
          have : runTags s p (canonicalOrder.take 1) = { s with logLmin := some w.key } := by
            simp [runTags, hl, canonicalOrder, applyTags, applyTag]
          rw [this]
          exact ⟨hc.size, hc.nestedLen, hc.evidLen, hc.idxLen, hc.nodup, hc.sorted, hc.evid⟩
    exact (consistent_iff _ _).mpr (consume_consistent n _ p' hcons hp').1
  · -- the iteration had completed: two complete iterations
    have htake : canonicalOrder.take j = canonicalOrder := by
      apply List.take_of_length_le; simp [canonicalOrder]; omega
    rw [htake] at hp' ⊢
    have h1 := (consume_consistent n s p hc hp).1
    exact (consistent_iff _ _).mpr (consume_consistent n _ p' h1 hp').1

/-- **The unsafe window (F4).**  A signal after the evidence increment and before the insertion index is
recorded ALWAYS leaves a checkpoint whose resumed run is inconsistent (the worst point is integrated or
recorded twice, or an insertion index is missing) — for every consistent state with a non-empty live set. -/
theorem unsafe_inside_window (n : Nat) (s : NS) (p p' : Pt) (j : Nat) (h : consistent n s = true)
    (hne : s.live ≠ []) (hj : 2 ≤ j ∧ j ≤ 6) :
    consistent n (interruptResume consumeOrder s p p' j) = false := by
  rw [order_is_canonical]
  have hc := (consistent_iff _ _).mp h
  apply Bool.eq_false_iff.mpr
  intro hcon
  have hr := (consistent_iff _ _).mp hcon
  unfold interruptResume at hr
  have hoff := consume_offsets (runTags s p (canonicalOrder.take j)) p'
  have hint := interrupted_offsets s p j hj hne
  have e1 := hr.evidLen
  have e2 := hr.idxLen
  have e3 := hc.evidLen
  have e4 := hc.idxLen
  simp only at hint
  omega

/-- the window is exact on a concrete run: interruption points 0..7 of one iteration of a 3-point live set -/
theorem window_exact :
    (List.range 8).map (fun j => consistent 3
      (interruptResume consumeOrder
        { live := [⟨1, 1⟩, ⟨3, 2⟩, ⟨5, 3⟩], nested := [⟨0, 9⟩], evid := [0], idx := [2], iter := 1 }
        ⟨4, 4⟩ ⟨6, 5⟩ j))
    = [true, true, false, false, false, false, false, true] := by decide +kernel

/-- F4 spelled out: interrupted between "record worst" and "insert replacement", the resumed run records and
integrates the worst point twice -/
theorem double_record_witness :
    (interruptResume consumeOrder
        { live := [⟨1, 1⟩, ⟨3, 2⟩, ⟨5, 3⟩], nested := [], evid := [], idx := [], iter := 0 }
        ⟨4, 4⟩ ⟨6, 5⟩ 4).nested = [⟨1, 1⟩, ⟨1, 1⟩] := by decide +kernel

/-- Importance sampler: the signal handler's checkpoint request (`periodic = False`) returns before any write,
so the last iteration-boundary checkpoint is left intact. -/
theorem ins_handler_noop (file newState : Nat) :
    insCheckpoint insGuardFirst false file newState = file := by
  simp [insCheckpoint, insGuardFirst]

/-- … and the guard is what makes it so -/
theorem ins_handler_noop_fails_without : insCheckpoint false false 1 2 ≠ 1 := by decide

/-- finalisation records and integrates every remaining live point exactly once -/
theorem finalise_consumes_all (s : NS) :
    (finalise s).live = [] ∧ (finalise s).nested = s.nested ++ s.live ∧
    (finalise s).evid = s.evid ++ keys s.live := by
  simp [finalise]

/-- non-vacuity: the hypotheses of the theorems are met by a concrete state and candidates -/
example : consistent 3 { live := [⟨1, 1⟩, ⟨3, 2⟩, ⟨5, 3⟩], nested := [⟨0, 9⟩], evid := [0], idx := [2], iter := 1 } = true
    ∧ validCand { live := [⟨1, 1⟩, ⟨3, 2⟩, ⟨5, 3⟩], nested := [⟨0, 9⟩], evid := [0], idx := [2], iter := 1 } ⟨4, 4⟩ = true := by
  decide +kernel

/-! ### a signal while the initial live points are being drawn -/

/-- the current source binds `self.live_points` only after the draw loop of `populate_live_points` (table fact,
regenerated on every run) -/
theorem populate_publishes_after_fill : populatePublishesAfterFill = true := by decide

/-- **A signal during the initial population is safe.**  Whatever number `k` of initial draws had been made, the
handler's checkpoint holds `live_points = None`; the resumed run draws its initial points again and starts from a full,
NaN-free live set in ascending likelihood order (for every `n`, every draw sequence of the killed and of the new
process). -/
theorem signal_during_population_safe (n : Nat) (draws draws' : List Pt) (k : Nat) (hn : draws'.length = n) :
    populatePickled populatePublishesAfterFill n draws k = none ∧
      fullLive n (populateResumed populatePublishesAfterFill n draws draws' k) = true := by
  rw [populate_publishes_after_fill]
  refine ⟨rfl, ?_⟩
  simp only [populateResumed, populatePickled, fullLive, if_true]
  have hs := sortPts_sorted draws'
  simp [sortPts_length, hn, List.filterMap_map, hs]

example := signal_during_population_safe 2 [⟨1, 1⟩, ⟨2, 2⟩] [⟨5, 7⟩, ⟨3, 8⟩] 1 rfl

/-- …and it would not be if the half-filled array were bound first (the shape of the seeded change C13-d): a signal after
one of three draws leaves a checkpoint whose live set has NaN rows, and the resumed run keeps it. -/
theorem signal_during_population_fails_without :
    fullLive 3 (populateResumed false 3 [⟨4, 1⟩, ⟨2, 2⟩, ⟨9, 3⟩] [⟨5, 7⟩, ⟨3, 8⟩, ⟨1, 9⟩] 1) = false := by decide

/-- **Nothing on the way swallows the handler's exit** (table fact, regenerated from every module of the package on every
run): no `except:` / `except BaseException` / `except SystemExit` / `except KeyboardInterrupt` clause without a bare
re-raise exists, so the `SystemExit(exit_code)` the handler raises — wherever in the loop, the plots or the training the
signal arrives — propagates to the interpreter.  (That the process then ends with that code is observed with real signals,
including one delivered while the periodic plots are drawn.) -/
theorem no_exit_swallowers : exitSwallowers = [] := by decide

end NessaiVerif.C13
