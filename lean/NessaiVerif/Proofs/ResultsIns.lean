import NessaiVerif.Model.Results
import Mathlib.Algebra.Order.Field.Basic
import Mathlib.Algebra.CharZero.Defs
import Mathlib.Tactic.Ring
import Mathlib.Tactic.FieldSimp
import Mathlib.Tactic.Linarith
/-
C05 — lemmas about the importance-sampling estimator model (Model/Results.lean, part 2), any field.
-/
namespace NessaiVerif.Results
open NessaiVerif.Quad

variable {K : Type} [Field K]

theorem sumL_append (a b : List K) : sumL (a ++ b) = sumL a + sumL b := by
  induction a with
  | nil => simp [sumL]
  | cons x xs ih => simp [sumL, ih, add_assoc]

theorem sumL_perm (a b : List K) (h : a.Perm b) : sumL a = sumL b := by
  induction h with
  | nil => rfl
  | cons x _ ih => simp [sumL, ih]
  | swap x y l => simp only [sumL]; ring
  | trans _ _ ih1 ih2 => rw [ih1, ih2]

theorem sumL_map_div (w : List K) (z : K) : sumL (w.map (· / z)) = sumL w / z := by
  induction w with
  | nil => simp [sumL]
  | cons x xs ih => simp only [List.map_cons, sumL, ih]; ring

theorem sumL_nonneg [LinearOrder K] [IsStrictOrderedRing K] (w : List K) (h : ∀ x ∈ w, 0 ≤ x) : 0 ≤ sumL w := by
  induction w with
  | nil => simp [sumL]
  | cons x xs ih =>
    simp only [sumL]
    exact add_nonneg (h x (by simp)) (ih fun y hy => h y (by simp [hy]))

theorem sumL_pos [LinearOrder K] [IsStrictOrderedRing K] (w : List K) (h : ∀ x ∈ w, 0 ≤ x) (hex : ∃ x ∈ w, 0 < x) :
    0 < sumL w := by
  induction w with
  | nil => simp at hex
  | cons x xs ih =>
    simp only [sumL]
    obtain ⟨y, hy, hpos⟩ := hex
    rcases List.mem_cons.mp hy with rfl | hy
    · exact add_pos_of_pos_of_nonneg hpos (sumL_nonneg xs fun z hz => h z (by simp [hz]))
    · exact add_pos_of_nonneg_of_pos (h x (by simp)) (ih (fun z hz => h z (by simp [hz])) ⟨y, hy, hpos⟩)

/-- `Σ (x - z)^2 = Σ x^2 - 2 z Σ x + N z^2` -/
theorem sumL_sq_dev (w : List K) (z : K) :
    sumL (w.map fun x => (x - z) * (x - z)) =
      sumL (w.map fun x => x * x) - 2 * z * sumL w + (w.length : K) * (z * z) := by
  induction w with
  | nil => simp [sumL]
  | cons x xs ih =>
    simp only [List.map_cons, sumL, ih, List.length_cons, Nat.cast_succ]
    ring

theorem insZ_perm (a b : List K) (h : a.Perm b) : insZ a = insZ b := by
  unfold insZ; rw [sumL_perm a b h, h.length_eq]

theorem insVar_perm (a b : List K) (h : a.Perm b) : insVar a = insVar b := by
  unfold insVar
  rw [insZ_perm a b h, h.length_eq, sumL_perm _ _ (h.map _)]

end NessaiVerif.Results
