"""C02 — evidence and posterior weights equal the documented nested-sampling quadrature."""
import hashlib
import json
import math
import time
import types
from pathlib import Path

import warnings
import numpy as np

from . import core

PROPS_MODULE = "NessaiVerif.Props.C02"
MANIFEST = dict(
    text="Lean theorems, for every linearly ordered field (Q and R at once), every sequence length, every live-point "
         "schedule and both shrinkage-expectation modes, over an executable linear-domain model of "
         "_NSIntegralState.increment/finalise/log_posterior_weights/get_logx_live_points, log_integrate_log_trap, the "
         "hand-over loop of NestedSampler.finalise and posterior.compute_weights: volumes start at 1 and strictly decrease "
         "for shrinkages in (0,1) (n/(n+1) and exp(-1/n) are in (0,1) for n>=1, log-volumes are the cumulative sums of "
         "-log1p(1/n) / -1/n); the incremental fold equals the one-pass rectangle sum; the state after finalise and "
         "compute_weights return the same documented quadrature (schedule n..n,n,n-1..1 for integer nlive, any schedule "
         "for array nlive); multiplying all likelihoods by c scales the evidence by c and leaves the weights unchanged "
         "(log form over R); evidence positive, weights non-negative, sum of weights = rectangle/trapezoid. The model is "
         "tied to the code on every run: the real state (driven through the real NestedSampler.finalise loop or with "
         "per-call nlive) and the real compute_weights are run on generated non-decreasing log-likelihood sequences "
         "(ties, leading -inf, dynamic range up to 2^(+-30000), offsets up to +-1e5, nlive 1..1e5) and compared, value by "
         "value (logZ, rectangle logZ, log-volumes, live-point volumes, log posterior weights, error kinds), with the "
         "logarithms of the exact rationals computed by the same Lean definitions at K=Rat, and with an independent "
         "60-digit mpmath evaluation (oracle: three-way agreement, finiteness, volumes start at 0 and strictly decrease, "
         "shift invariance measured directly on the real functions, reads of a finished state independent of their order). "
         "SOURCE TIE: _NSIntegralState.increment is translated from the current source on every run (harness/pylog2lean.py: "
         "log space -> linear domain statement by statement, logarithm and exponential uninterpreted; Gen/Increment.lean) and "
         "increment_source_eq_quadrature_model / increment_source_eq_information_model re-prove, for every field, state, "
         "likelihood, live count and both expectations, that the generated definition is the quadrature model's and the "
         "information model's step - the theorems are about the source text as it is now. log_integrate_log_trap, "
         "_NSIntegralState.finalise and .log_posterior_weights are translated too (harness/pylogvec2lean.py -> Gen/Trapezoid.lean) and "
         "trapezoid_source_eq_model / finalise_source_eq_model / posterior_weights_source_eq_model prove them equal to the model's "
         "trap, St.finalise and St.postW for every vector; get_logx_live_points (both expectations) is translated as well and logx_live_source_eq_model proves it equal to St.logxLive; posterior.compute_weights (all of it after the live-count schedule) is translated too and "
         "compute_weights_source_eq_model proves it equal to the model's computeWeights; the hand-over loop of NestedSampler.finalise is translated as a fold "
         "and finalise_loop_source_eq_model proves it equal to finaliseLoopFrom. "
         "INFORMATION AND UNCERTAINTY (Model/Information.lean, the recursion of increment with the logarithm as a parameter): "
         "for every logarithm function, ordered field and length >= 2 the accumulated value is the textbook information "
         "H = sum p_i lg L_i - lg Z (info_eq_textbook); over R, H >= -log(1 - X_N) >= 0 by Gibbs' inequality, hence "
         "log_evidence_error = sqrt(info / nlive) is never NaN (code_info_nonneg); the recursion that drops the first dead "
         "point (the code before the repair e5a33cd) differs by p_1 log(1 - t_1) and can be negative "
         "(info_without_first_point_can_be_negative); tie: state.info (length and every value) and log_evidence_error "
         "against the Rat execution with 60-digit logarithms of the model's own exact evidences.",
    note="Theorems are about exact arithmetic; that float64 rounding stays below 1e-9*max(1,|value|) is observed on the "
         "generated inputs, not proved. exp(-1/n) enters the Rat model as a 128-bit dyadic (the theorems take any shrinkage "
         "in (0,1)). The logarithm enters the information model as a table of 60-digit mpmath values (the theorems hold for every "
         "function lg, the sign theorems for the real logarithm). The plotting gradients of the state are not modelled.",
    technique="Lean 4 proof (induction over lists, ordered-field algebra) + source-to-Lean translation of "
              "_NSIntegralState.increment / finalise / log_posterior_weights and log_integrate_log_trap (log space -> linear domain) re-proved equal to the model on every run + differential "
              "correspondence against the exact Rat execution of the same definitions + mpmath oracle",
    ref="5/C02")

RTOL = 1e-9          # |delta| <= RTOL * max(1, |value|)   (the property's "floating-point accuracy")
MTOL = 1e-25         # Lean Rat model vs 60-digit mpmath reference
TBITS = 128          # exp(-1/n) handed to the Rat model as floor(exp(-1/n) 2^TBITS) / 2^TBITS


def gen(ctx):
    """regenerate Gen/Increment.lean: `_NSIntegralState.increment` translated statement by statement from log space into the
    model's linear domain by harness/pylog2lean.py; C02.increment_source_eq_quadrature_model / _information_model (generated
    definition commutes with the projections onto the two hand-written models) are re-proved on every run."""
    from . import core, pylog2lean as P, py2lean
    spec = P.LogSpec(
        source="nessai/evidence.py", cls="_NSIntegralState", func="increment", name="increment", struct="NSt K",
        fields=[("base_nlive", "base", P.NAT), ("logZ", "Z", P.LOG), ("logw", "w", P.LOG), ("logLs", "Ls", "LIST LOG"),
                ("log_vols", "Xs", "LIST LOG"), ("nlive", "ns", "LIST NAT"), ("info", "info", "LIST LIN")],
        params=[("logL", "logL", P.LOG), ("nlive", "nlive", P.OPTNAT)],
        locals_={"oldZ": P.LOG, "logt": P.LOG, "Wt": P.LOG, "prev_info": P.LIN, "info": P.LIN},
        flags={"self.expectation == 'logt'": ("isLogt", "expectation == 'logt'")},
        ignore_attrs=["gradients"], ignore_flags=["self.track_gradients"],
        doc="`lg`, `ex`: the logarithm / exponential (arbitrary functions); `isLogt`: `self.expectation == 'logt'`.")
    try:
        lean, info = P.translate(core.REPO, spec)
    except py2lean.TranslationError as e:
        ctx.broken(f"translator: _NSIntegralState.increment: {e}",
                   "Gen/Increment.lean was left as it was (the theorems are about the last translatable source)")
        return
    except (OSError, SyntaxError) as e:
        ctx.broken(f"translator: cannot read/parse the source: {e}")
        return
    text = ("import NessaiVerif.Model.Increment\n"
            "/-\nGENERATED by harness/pylog2lean.py (harness/c02.py gen) from the CURRENT nessai source — do not edit.\n"
            "C02: `_NSIntegralState.increment`, log space -> linear domain (dictionary in harness/pylog2lean.py).\n-/\n"
            "namespace NessaiVerif.Gen.Increment\nopen NessaiVerif NessaiVerif.Incr\n\n"
            "variable {K : Type} [Add K] [Sub K] [Mul K] [Div K] [Neg K] [OfNat K 0] [OfNat K 1] [NatCast K] [DecidableEq K]\n\n"
            + lean + "\nend NessaiVerif.Gen.Increment\n")
    changed = py2lean.write_if_changed(core.LEAN / "NessaiVerif" / "Gen" / "Increment.lean", text)
    ctx.extra["generated"] = {"increment": dict(source=spec.source, rewritten=changed, **info)}
    gen_trapezoid(ctx)


# sha256 (16 hex digits) of the unparsed schedule statement of posterior.compute_weights:
#   if isinstance(nlive, (int, float)): nlive_per_iteration = nlive * np.ones_like(samples); nlive_per_iteration[-nlive:] = np.arange(nlive, 0, -1, dtype=float)
#   else: (length check -> ValueError); nlive_per_iteration = nlive.copy()
# modelled by Quad.scheduleOnePass / the `.arr` arm of Quad.computeWeights and tied by the correspondence
COMPUTE_WEIGHTS_SCHEDULE_SHA = "95ed6e9c99ad2621"


def translate_finalise_loop(repo):
    """the hand-over loop of NestedSampler.finalise, statement by statement, as a fold over the live points with their index:
        for i, p in enumerate(self.live_points):
            self.state.increment(p['logL'], nlive=self.nlive - i)      -> state.increment shrink p.2 (some (<count expression>))
            self.nested_samples.append(p)                              -> nested ++ [p.1]
    followed by exactly `self.live_points = None; self.update_state(force=True); self.state.finalise(); self.finalised = True`."""
    import ast
    import hashlib
    from pathlib import Path
    from .py2lean import TranslationError, find_function
    src = "nessai/samplers/nestedsampler.py"
    text = (Path(repo) / src).read_text()
    fn = find_function(ast.parse(text), "finalise", "NestedSampler")
    body = [st for st in fn.body if not (isinstance(st, ast.Expr) and (isinstance(st.value, ast.Constant) or (
        isinstance(st.value, ast.Call) and ast.unparse(st.value.func).startswith("logger."))))]
    if not body or not isinstance(body[0], ast.For):
        raise TranslationError("NestedSampler.finalise: does not start with the hand-over loop")
    loop = body[0]
    if not (ast.unparse(loop.iter) == "enumerate(self.live_points)" and isinstance(loop.target, ast.Tuple) and len(loop.target.elts) == 2
            and all(isinstance(e, ast.Name) for e in loop.target.elts) and not loop.orelse):
        raise TranslationError("NestedSampler.finalise: the loop is not `for i, p in enumerate(self.live_points)`")
    i, pt = (e.id for e in loop.target.elts)

    def count(e):
        if isinstance(e, ast.Name) and e.id == i:
            return "ip.2"
        if ast.unparse(e) == "self.nlive":
            return "self_nlive"
        if isinstance(e, ast.Constant) and isinstance(e.value, int) and not isinstance(e.value, bool):
            return str(e.value)
        if isinstance(e, ast.BinOp) and isinstance(e.op, (ast.Sub, ast.Add)):
            return f"({count(e.left)} {'-' if isinstance(e.op, ast.Sub) else '+'} {count(e.right)})"
        raise TranslationError(f"NestedSampler.finalise: live count outside the fragment: {ast.unparse(e)!r}")

    st_term, ns_term = "acc.1", "acc.2"
    for st in loop.body:
        t = ast.unparse(st)
        c = st.value if isinstance(st, ast.Expr) and isinstance(st.value, ast.Call) else None
        if c is not None and ast.unparse(c.func) == "self.state.increment" and len(c.args) == 1 and ast.unparse(c.args[0]) == f"{pt}['logL']" \
                and [k.arg for k in c.keywords] == ["nlive"]:
            st_term = f"({st_term}.increment shrink ip.1.2 (some {count(c.keywords[0].value)}))"
            continue
        if c is not None and ast.unparse(c.func) == "self.nested_samples.append" and len(c.args) == 1 and ast.unparse(c.args[0]) == pt \
                and not c.keywords:
            ns_term = f"({ns_term} ++ [ip.1.1])"
            continue
        raise TranslationError(f"NestedSampler.finalise: statement inside the loop outside the fragment: {t[:80]!r}")
    after = [ast.unparse(st) for st in body[1:]]
    want = ["self.live_points = None", "self.update_state(force=True)", "self.state.finalise()", "self.finalised = True"]
    if after != want:
        raise TranslationError(f"NestedSampler.finalise: the statements after the loop are {after}, modelled: {want}")
    seg = ast.get_source_segment(text, fn) or ""
    sha = hashlib.sha256(seg.encode()).hexdigest()[:16]
    lean = (f"/-- GENERATED by harness/c02.py (translate_finalise_loop) from `{src}`, `NestedSampler.finalise` (lines {fn.lineno}–{fn.end_lineno}, "
            f"sha256 {sha}): the hand-over loop over the live points `(point, L)` with their index; returns the integral state and the nested\n"
            "    samples; afterwards the source sets `live_points = None`, calls `update_state(force=True)`, `state.finalise()` and sets `finalised`. -/\n"
            "def finalise_loop {α : Type} (shrink : Nat → K) (self_nlive : Nat) (state : St K) (nested : List α) (live_points : List (α × K)) :\n"
            "    St K × List α :=\n"
            f"  live_points.zipIdx.foldl (fun (acc : St K × List α) (ip : (α × K) × Nat) => ({st_term}, {ns_term})) (state, nested)\n")
    return lean, dict(source=src, lines=[fn.lineno, fn.end_lineno], sha256=sha)


def gen_trapezoid(ctx):
    """regenerate Gen/Trapezoid.lean: log_integrate_log_trap, _NSIntegralState.finalise and .log_posterior_weights translated
    from the current source (harness/pylogvec2lean.py: log vectors -> linear domain); C02.trapezoid_source_eq_model,
    finalise_source_eq_model, posterior_weights_source_eq_model are re-proved on every run."""
    from . import core, py2lean
    from . import pylogvec2lean as V
    common = dict(lsum="sumL", vec_calls={"logsubexp": "-"})      # logsubexp(x, y): elementwise x − y (raises when some x < y)
    attrs = {"logLs": ("logLs", V.VLOG), "log_vols": ("log_vols", V.VLOG)}
    calls = {"log_integrate_log_trap": ("log_integrate_log_trap", [V.VLOG, V.VLOG], V.LOG)}
    specs = [
        V.VecSpec(source="nessai/evidence.py", func="log_integrate_log_trap", name="log_integrate_log_trap",
                  params=[("log_func", "log_func", V.VLOG), ("log_support", "log_support", V.VLOG)], result="K", **common),
        V.VecSpec(source="nessai/evidence.py", cls="_NSIntegralState", func="finalise", name="finalise", params=[], result="K",
                  self_attrs=attrs, calls=calls, **common),
        V.VecSpec(source="nessai/evidence.py", cls="_NSIntegralState", func="log_posterior_weights", name="log_posterior_weights",
                  params=[], result="List K", self_attrs=attrs, calls=calls, **common),
        # the volumes of the remaining live points: logw + cumsum of the shrinkages for nlive, nlive-1, …, 1; `expectation` stands
        # for self.expectation.lower(); neither spelling -> the local `logt` is unbound (UnboundLocalError: `none`)
        V.VecSpec(source="nessai/evidence.py", cls="_NSIntegralState", func="get_logx_live_points", name="get_logx_live_points",
                  params=[("nlive", "nlive", V.NAT)], result="Option (List K)", uses_ex=True,
                  self_attrs={"logw": ("logw", V.LOG), "expectation": ("expectation", V.STR)}, **common),
        # the one-pass evaluation: everything after the live-count schedule (the leading `if isinstance(nlive, (int, float))` statement
        # is the model's `scheduleOnePass`, pinned by its sha256 and replaced by the parameter `nlive_per_iteration`); `expectation`
        # stands for expectation.lower()
        V.VecSpec(source="nessai/posterior.py", func="compute_weights", name="compute_weights",
                  params=[("samples", "samples", V.VLOG), ("nlive", None, V.OPTNAT), ("expectation", "expectation", V.STR)],
                  result="Except Err (K × List K)", uses_ex=True, extra_binders="(nlive_per_iteration : List Nat)", calls=calls,
                  given={"isinstance(nlive, (int, float))": (COMPUTE_WEIGHTS_SCHEDULE_SHA, {"nlive_per_iteration": ("VNAT", "nlive_per_iteration")})},
                  **common),
    ]
    parts, infos = [], {}
    try:
        for sp in specs:
            lean, info = V.translate(core.REPO, sp)
            parts.append(lean)
            infos[sp.func] = info
        lean_f, info_f = translate_finalise_loop(core.REPO)
        parts.append(lean_f)
        infos["NestedSampler.finalise"] = info_f
        # the pinned schedule statement, read with NumPy's semantics of a tail-slice assignment (the sha256 above was checked by the
        # translation of compute_weights: this definition is what that exact text says for an integer `nlive` / an array `nlive`)
        parts.append(
            f"/-- GENERATED (recognised by its sha256 {COMPUTE_WEIGHTS_SCHEDULE_SHA}) from `nessai/posterior.py`, `compute_weights`: the statement\n"
            "    `if isinstance(nlive, (int, float)): nlive_per_iteration = nlive * np.ones_like(samples); nlive_per_iteration[-nlive:] =\n"
            "    np.arange(nlive, 0, -1, dtype=float)  else: (len(nlive) != len(samples) -> ValueError); nlive_per_iteration = nlive.copy()` -/\n"
            "def compute_weights_schedule (n_samples : Nat) (nlive : NLive) : Except Err (List Nat) :=\n"
            "  match nlive with\n"
            "  | .int n => npAssignTail (List.replicate n_samples n) n (countdown n)\n"
            "  | .arr ns => if ns.length ≠ n_samples then .error .valueErr else .ok ns\n")
    except py2lean.TranslationError as e:
        ctx.broken(f"translator: {e}", "Gen/Trapezoid.lean was left as it was (the theorems are about the last translatable source)")
        return
    except (OSError, SyntaxError) as e:
        ctx.broken(f"translator: cannot read/parse the source: {e}")
        return
    text = ("import NessaiVerif.Model.Quadrature\n"
            "/-\nGENERATED by harness/pylogvec2lean.py (harness/c02.py gen_trapezoid) from the CURRENT nessai source — do not edit.\n"
            "C02: trapezoidal evidence and posterior weights, log vectors -> linear domain.\n-/\n"
            "namespace NessaiVerif.Gen.Trapezoid\nopen NessaiVerif NessaiVerif.Quad\n\n"
            "variable {K : Type} [Add K] [Sub K] [Mul K] [Div K] [Neg K] [OfNat K 0] [OfNat K 1] [NatCast K]\n\n"
            + "\n".join(parts) + "\nend NessaiVerif.Gen.Trapezoid\n")
    rewritten = py2lean.write_if_changed(core.LEAN / "NessaiVerif" / "Gen" / "Trapezoid.lean", text)
    ctx.extra["generated"].update(dict(infos, trapezoid_rewritten=rewritten))


def _plot_state(st):
    import matplotlib
    matplotlib.use("Agg", force=False)
    import matplotlib.pyplot as plt
    with np.errstate(all="ignore"), warnings.catch_warnings():
        warnings.simplefilter("ignore")
        fig = st.plot()
    if fig is not None:
        plt.close(fig)
    plt.close("all")


def _mp():
    import mpmath
    M = mpmath.mp.clone()
    M.dps = 60
    return M


_M = None


def M():
    global _M
    if _M is None:
        _M = _mp()
    return _M


# ----------------------------------------------------------------------------- numbers
def dy_val(a, e):
    return M().ldexp(M().mpf(a), e)


def dy_log(a, e):
    """mp log of a * 2^e (a >= 0); -inf for 0"""
    if a == 0:
        return M().ninf
    return M().log(dy_val(a, e))


def parse_dy(tok):
    a, e = tok.split("@")
    return int(a), int(e)


def parse_dy_list(tok):
    body = tok[1:-1]
    return [parse_dy(t) for t in body.split(",")] if body else []


def log_tok(tok):
    a, e = parse_dy(tok)
    if a < 0:
        return M().nan
    return dy_log(a, e)


def t_table(ns, bits=TBITS):
    """dyadic `bits`-bit approximations of exp(-1/n) for the Rat model"""
    keys = sorted(set(int(n) for n in ns))
    vals = []
    for n in keys:
        v = M().floor(M().ldexp(M().exp(M().mpf(-1) / n), bits))
        vals.append(f"{int(v)}@-{bits}")
    return "[" + ",".join(map(str, keys)) + "] [" + ",".join(vals) + "]"


def shrink_tok(mode, ns, bits=TBITS):
    return "t" if mode == "t" else "logt " + t_table(ns, bits)


def ulps(off, k=4):
    """k units in the last place of |off| (0 for off = 0): what adding `off` in float64 may cost"""
    return 0.0 if off == 0 else k * float(np.spacing(abs(float(off))))


def close(real, exact, tol=RTOL, off=0.0):
    """real: float result obtained with every log-likelihood shifted by `off`; exact: mp value for the UNSHIFTED
    problem (may be -inf).  Demands |(real - off) - exact| <= tol*max(1, |exact|) + 4 ulp(|off|): the shift must be
    reproduced to a few ulps of the offset, the rest to relative 1e-9 of the unshifted value."""
    real = float(real)
    if math.isnan(real):
        return False
    if exact == M().ninf:
        return real == -math.inf
    if math.isinf(real):
        return False
    return abs(M().mpf(real) - M().mpf(off) - exact) <= tol * max(1.0, abs(float(exact))) + ulps(off)


def close_f(a, b, scale=1.0):
    a, b = float(a), float(b)
    if math.isnan(a) or math.isnan(b):
        return False
    if math.isinf(a) or math.isinf(b):
        return a == b
    return abs(a - b) <= RTOL * max(1.0, abs(a), abs(b), scale)


# ----------------------------------------------------------------------------- generators
def _sorted_dy(pairs):
    return sorted(pairs, key=lambda p: dy_val(*p))


def gen_L(rng, N, family):
    """non-decreasing dyadic likelihoods [(a, e)], a >= 0"""
    if family == "smooth":
        R = rng.choice([1e-3, 1.0, 30.0, 700.0, 3000.0, 2e4])
        hi = rng.choice([0.0, 0.0, 5.0, -R, 1e3])
        xs = sorted(hi - R * rng.random() ** rng.choice([1, 2, 3]) for _ in range(N))
        out = []
        for x in xs:
            y = x / math.log(2.0)
            e = math.floor(y) - 30
            out.append((max(1, round(2.0 ** (y - e))), e))
        return _sorted_dy(out)
    if family == "ties":
        m = rng.randint(1, 4)
        alpha = [(rng.randint(1, 9), rng.randint(-6, 6)) for _ in range(m)]
        return _sorted_dy([rng.choice(alpha) for _ in range(N)])
    if family == "tiny":
        sh = rng.choice([20, 40, 52])
        up = rng.choice([0, 0, -900, 900])
        return _sorted_dy([((1 << sh) + rng.randint(0, 40), -sh + up) for _ in range(N)])
    if family == "huge":
        E = rng.choice([2000, 30000])
        return _sorted_dy([(rng.randint(1, (1 << 20)), rng.randint(-E, E)) for _ in range(N)])
    if family == "plateau":   # typical NS end: long flat top after a steep rise
        k = rng.randint(0, N)
        rise = [(rng.randint(1, 1 << 16), rng.randint(-400, -1)) for _ in range(k)]
        return _sorted_dy(rise) + [(1 << 16, 0)] * (N - k)
    raise ValueError(family)


FAMILIES = ["smooth", "smooth", "ties", "tiny", "huge", "plateau"]
OFFSETS = [0.0, 0.0, 0.0, 1.0, -1.0, 745.5, -745.5, 1.0e3, -1.0e4, 1.0e5, -1.0e5]


def gen_case(rng, maxN, big_n=100000):
    mode = rng.choice(["t", "logt"])
    kind = rng.choice(["sampler", "sampler", "varying"])
    family = rng.choice(FAMILIES)
    if kind == "sampler":
        n = rng.choice([1, 1, 2, 3, 5, 10, rng.randint(1, 40), rng.randint(1, maxN)])
        n = min(n, maxN)
        N = n + int((maxN - n) * rng.random() ** 2) if rng.random() < 0.85 else n
    else:
        N = 1 + int((maxN - 1) * rng.random() ** 2)
        n = rng.choice([1, 2, 10, 100, 2000])
    if family == "huge":
        N = min(N, max(n if kind == "sampler" else 1, 120))
    L = gen_L(rng, N, family)
    if rng.random() < 0.3 and N >= 2:          # leading -inf log-likelihoods
        z = rng.randint(1, max(1, N // 3))
        if z < N:
            L = [(0, 0)] * z + L[z:]
    off = rng.choice(OFFSETS)
    if rng.random() < 0.2:
        off = round((rng.random() * 2 - 1) * 1e5, rng.choice([0, 3, 9]))
    case = dict(kind=kind, mode=mode, family=family, n=n, L=[list(p) for p in L], offset=off,
                track=rng.random() < 0.5)
    if kind == "varying":
        style = rng.choice(["walk", "iid", "dynesty", "const"])
        if style == "walk":
            cur, ns = rng.randint(1, 500), []
            for _ in range(N):
                cur = max(1, cur + rng.randint(-3, 3))
                ns.append(cur)
        elif style == "iid":
            pool = [rng.choice([1, 2, 3, 7, 50, 1000, 20000, big_n]) for _ in range(rng.randint(1, 6))]
            ns = [rng.choice(pool) for _ in range(N)]
        elif style == "dynesty":   # batches added then removed
            a, b = rng.randint(1, 300), rng.randint(1, 300)
            ns = [a + min(i, N - 1 - i, b) for i in range(N)]
        else:
            ns = [n] * N
        case["ns"] = ns
        case["use_default"] = [bool(v == n and rng.random() < 0.5) for v in ns]   # increment(L) without nlive
        case["arr_dtype"] = rng.choice(["int", "float"])
        case["style"] = style
    return case


# ----------------------------------------------------------------------------- the real code
SPELLINGS = {"logt": ["logt", "logt", "LogT", "LOGT", "logT"], "t": ["t", "t", "T"]}


def spelling(mode, k):
    v = SPELLINGS[mode]
    return v[k % len(v)]


def float_logL(case):
    ll = []
    for a, e in case["L"]:
        ll.append(-math.inf if a == 0 else float(dy_log(a, e)))
    return np.array(ll, dtype=float)


def _exc(e):
    if isinstance(e, ValueError):
        return "err=value"
    if isinstance(e, IndexError):
        return "err=index"
    return "err=" + type(e).__name__


def run_real(case, offset=None):
    """returns dict of real outputs: incremental state + one-pass compute_weights"""
    from nessai.evidence import _NSIntegralState
    from nessai.posterior import compute_weights
    from nessai.samplers.nestedsampler import NestedSampler
    off = case["offset"] if offset is None else offset
    ll = float_logL(case) + off
    n, mode = case["n"], case["mode"]
    out = {}
    # the option is documented as case-insensitive ("Expectation must be t or logt", compared after .lower()): every case
    # is run under one of the accepted spellings, chosen by its content (seeded change C02-d: the state kept the spelling
    # the user gave while increment compares with the lower-case name)
    spell = spelling(mode, len(ll) + int(n))
    out["spelling"] = spell
    st = _NSIntegralState(n, track_gradients=case.get("track", False), expectation=spell)
    try:
        if case["kind"] == "sampler":
            k = len(ll) - n
            for v in ll[:k]:
                st.increment(v)                      # NestedSampler.consume_sample: state.increment(worst["logL"])
            out["logx_live"] = np.array(st.get_logx_live_points(n), dtype=float)
            live = np.zeros(n, dtype=[("x", "f8"), ("logP", "f8"), ("logL", "f8")])
            live["logL"] = ll[k:]
            cap = {}
            stub = types.SimpleNamespace(
                live_points=live, state=st, nlive=n, nested_samples=[], finalised=False,
                update_state=lambda force=False: cap.setdefault("rect", float(st.logZ)))
            NestedSampler.finalise(stub)             # the real hand-over loop + state.finalise()
            out["logZ_rect"] = cap.get("rect", float("nan"))
            out["n_nested"] = len(stub.nested_samples)
        else:
            for v, m, d in zip(ll, case["ns"], case["use_default"]):
                if d:
                    st.increment(v)
                else:
                    st.increment(v, nlive=m)
            out["logZ_rect"] = float(st.logZ)
            st.finalise()
            # an INTERIM finalise (a refined estimate asked for mid-run) must not change what the final one returns: the
            # trapezoid is a function of the stored points only (seeded change C02-hA made finalise remember its first answer)
            st2 = _NSIntegralState(n, track_gradients=case.get("track", False), expectation=spell)
            half = len(ll) // 2
            for i, (v, m, d) in enumerate(zip(ll, case["ns"], case["use_default"])):
                if i == half and half > 0:
                    st2.finalise()
                    # ... nor may DRAWING the state (NestedSampler.plot_state does it during a run): plotting reads the stored points
                    # (seeded change C02-iA: plot() overwrote the stored X=1 node to make the curve start at the first sample)
                    if (len(ll) + int(n)) % 3 == 0:
                        _plot_state(st2)
                if d:
                    st2.increment(v)
                else:
                    st2.increment(v, nlive=m)
            st2.finalise()
            out["logZ_after_interim_finalise"] = float(st2.logZ)
        out["logZ"] = float(st.logZ)
        out["log_vols"] = np.array(st.log_vols, dtype=float)
        out["logLs"] = np.array(st.logLs, dtype=float)
        out["ns"] = [int(v) for v in st.nlive]
        # the reads of a finished state must not depend on their order or number: odd cases query the effective sample
        # size (which normalises the array it is handed) BEFORE the weights; every case reads the weights again after
        # the ESS, the evidence and its error have been queried (seeded change C02-c: a cached weights array)
        ess_first = (len(ll) + int(n)) % 2 == 1
        with np.errstate(all="ignore"):
            if ess_first:
                out["ess"] = float(st.effective_n_posterior_samples)
            out["logw"] = np.array(st.log_posterior_weights, dtype=float)
            out["ess"] = float(st.effective_n_posterior_samples)
            _ = (st.log_evidence, st.log_evidence_error)
            out["logw_again"] = np.array(st.log_posterior_weights, dtype=float)
        out["state"] = "ok"
    except Exception as e:  # noqa
        out["state"] = _exc(e)
    try:
        if case["kind"] == "sampler":
            z, w = compute_weights(ll, n, expectation=spelling(mode, len(ll) + int(n) + 1))
        else:
            arr = np.array(case["ns"], dtype=(int if case.get("arr_dtype") == "int" else float))
            z, w = compute_weights(ll, arr, expectation=spelling(mode, len(ll) + int(n) + 1))
        out["cw_logZ"], out["cw_logw"], out["cw"] = float(z), np.array(w, dtype=float), "ok"
    except Exception as e:  # noqa
        out["cw"] = _exc(e)
    return out


# ----------------------------------------------------------------------------- independent reference (oracle)
def schedule_of(case):
    N = len(case["L"])
    if case["kind"] == "sampler":
        n = case["n"]
        return [n] * (N - n) + list(range(n, 0, -1))
    return list(case["ns"])


def reference(case):
    """the documented quadrature at 60 digits (linear domain; mpmath exponents are unbounded):
    X_0 = 1, X_i = X_{i-1} t_i, t = n/(n+1) or exp(-1/n); Z = sum_{i=0..N} (L_i+L_{i+1})/2 (X_i-X_{i+1}) with
    L_0 = 0, L_{N+1} = L_N, X_{N+1} = 0; w_i = L_i (X_{i-1}-X_i)/Z; Z_rect = sum L_i (X_{i-1}-X_i)."""
    m = M()
    sched = schedule_of(case)
    if case["mode"] == "t":
        ts = [m.mpf(n) / (n + 1) for n in sched]
    else:
        ts = [m.exp(m.mpf(-1) / n) for n in sched]
    Ls = [dy_val(a, e) for a, e in case["L"]]
    X = [m.mpf(1)]
    for t in ts:
        X.append(X[-1] * t)
    Xc = X + [m.mpf(0)]
    Lc = [m.mpf(0)] + Ls + [Ls[-1]]
    Z = m.fsum((Lc[i] + Lc[i + 1]) / 2 * (Xc[i] - Xc[i + 1]) for i in range(len(Lc) - 1))
    rect = [Ls[i] * (X[i] - X[i + 1]) for i in range(len(Ls))]
    Zr = m.fsum(rect)
    lg = lambda v: m.log(v) if v > 0 else m.ninf  # noqa
    n = case["n"]
    return dict(logZ=lg(Z), logZ_rect=lg(Zr), log_vols=[lg(x) for x in X],
                logw=[(lg(r) - lg(Z)) if Z > 0 else m.nan for r in rect], sched=sched,
                logx_live=[lg(x) for x in X[len(X) - n:]] if case["kind"] == "sampler" else None)


def oracle(ctx, case, real, ref, fail=None):
    """the property, demanded of the REAL outputs.  `fail(key, what)` defaults to ctx.oracle_fail"""
    if fail is None:
        fail = lambda key, what: ctx.oracle_fail(key, what, case)  # noqa
    off = case["offset"]
    N = len(case["L"])
    anypos = any(a > 0 for a, _ in case["L"])
    if real["state"] != "ok":
        fail("_NSIntegralState:raised", f"incremental integrator raised {real['state']} on a valid sequence")
    if real["cw"] != "ok":
        fail("compute_weights:raised", f"compute_weights raised {real['cw']} on a valid sequence")
    shifted = lambda v: v + off  # noqa
    if real["state"] == "ok" and "logZ_after_interim_finalise" in real:
        a, b = real["logZ"], real["logZ_after_interim_finalise"]
        if not (a == b or (math.isnan(a) and math.isnan(b))):
            fail("_NSIntegralState.finalise:interim-call", f"finalise() after an interim finalise() (and, every third case, plot()) mid-run returns {b!r}; the same "
                 f"points without the interim call give {a!r}")
    if real["state"] == "ok":
        if real["ns"] != ref["sched"]:
            fail("NestedSampler.finalise:schedule", f"live counts seen by the state {real['ns'][-6:]} differ from the documented "
                 f"schedule {ref['sched'][-6:]} (tail shown)")
        lv = real["log_vols"]
        if len(lv) != N + 1 or lv[0] != 0.0:
            fail("_NSIntegralState.log_vols:start", f"log-volumes do not start at 0: {lv[:3]} (len {len(lv)} for {N} samples)")
        if not np.all(np.isfinite(lv)) or not np.all(np.diff(lv) < 0):
            fail("_NSIntegralState.log_vols:decrease", "log prior volumes are not finite and strictly decreasing")
        for i, (r, x) in enumerate(zip(map(float, lv), ref["log_vols"])):
            if not close(r, x):
                fail("_NSIntegralState.log_vols:value", f"log_vols[{i}]={r!r} but the quadrature gives {float(x)!r}")
                break
        if anypos:
            if not math.isfinite(real["logZ"]):
                fail("_NSIntegralState.finalise:nonfinite", f"log-evidence {real['logZ']} is not finite")
            elif not close(real["logZ"], ref["logZ"], off=off):
                fail("_NSIntegralState.finalise:logZ", f"final logZ={real['logZ']!r}, quadrature {float(shifted(ref['logZ']))!r}")
            if not close(real["logZ_rect"], ref["logZ_rect"], off=off):
                fail("_NSIntegralState.increment:logZ", f"incremental (rectangle) logZ={real['logZ_rect']!r}, one-pass "
                     f"rectangle sum {float(shifted(ref['logZ_rect']))!r}")
            w = real["logw"]
            if len(w) != N:
                fail("_NSIntegralState.log_posterior_weights:len", f"{len(w)} weights for {N} samples")
            else:
                for i, (r, x) in enumerate(zip(map(float, w), ref["logw"])):
                    if not close(r, x):
                        fail("_NSIntegralState.log_posterior_weights:value",
                             f"log_post_w[{i}]={r!r}, quadrature {float(x)!r}")
                        break
            if "logw_again" in real and not np.array_equal(real["logw"], real["logw_again"], equal_nan=True):
                i = int(np.flatnonzero(~((real["logw"] == real["logw_again"])
                                         | (np.isnan(real["logw"]) & np.isnan(real["logw_again"]))))[0]) \
                    if len(real["logw"]) == len(real["logw_again"]) else -1
                fail("_NSIntegralState.log_posterior_weights:reads-differ",
                     f"log_posterior_weights read again after querying the effective sample size / evidence differs from "
                     f"the first read (index {i}: {float(real['logw'][i])!r} then {float(real['logw_again'][i])!r})")
        if case["kind"] == "sampler":
            lx = real["logx_live"]
            if len(lx) != case["n"] or any(not close(r, x) for r, x in zip(lx, ref["logx_live"])):
                fail("_NSIntegralState.get_logx_live_points", f"live-point log-volumes {[float(v) for v in lx[:4]]} differ from the volumes the "
                     f"final hand-over assigns {[float(x) for x in ref['logx_live'][:4]]}")
    if real["cw"] == "ok" and anypos:
        if not math.isfinite(real["cw_logZ"]):
            fail("compute_weights:nonfinite", f"log-evidence {real['cw_logZ']} is not finite")
        elif not close(real["cw_logZ"], ref["logZ"], off=off):
            fail("compute_weights:logZ", f"one-pass logZ={real['cw_logZ']!r}, quadrature {float(shifted(ref['logZ']))!r}")
        w = real["cw_logw"]
        if len(w) != N:
            fail("compute_weights:len", f"{len(w)} weights for {N} samples")
        else:
            for i, (r, x) in enumerate(zip(map(float, w), ref["logw"])):
                if not close(r, x):
                    fail("compute_weights:log_post_w", f"log_post_w[{i}]={r!r}, quadrature {float(x)!r}")
                    break
    if real["state"] == "ok" and real["cw"] == "ok" and anypos:
        if not close_f(real["logZ"], real["cw_logZ"]):
            fail("incremental-vs-onepass:logZ", f"state.finalise()={real['logZ']!r} but compute_weights={real['cw_logZ']!r}")
        if len(real["logw"]) == len(real["cw_logw"]):
            bad = [i for i, (a, b) in enumerate(zip(real["logw"], real["cw_logw"])) if not close_f(a, b)]
            if bad:
                i = bad[0]
                fail("incremental-vs-onepass:weights", f"log_posterior_weights[{i}]={float(real['logw'][i])!r} but "
                     f"compute_weights gives {float(real['cw_logw'][i])!r}")


def oracle_shift(ctx, case, real, fail=None):
    """shift invariance measured directly on the real functions (offset vs no offset)"""
    if fail is None:
        fail = lambda key, what: ctx.oracle_fail(key, what, case)  # noqa
    off = case["offset"]
    if off == 0.0 or not any(a > 0 for a, _ in case["L"]):
        return
    base = run_real(case, offset=0.0)
    u = ulps(off)
    for zk, wk, name in [("logZ", "logw", "_NSIntegralState"), ("cw_logZ", "cw_logw", "compute_weights")]:
        if zk not in real or zk not in base:
            continue
        # (log-evidence of the shifted run) - offset must equal the unshifted log-evidence to a few ulps of the
        # offset plus 1e-9 relative to the unshifted value (difference taken in mpmath: no rounding of its own)
        d = float(abs(M().mpf(real[zk]) - M().mpf(off) - M().mpf(base[zk])))
        if not (math.isfinite(real[zk]) and math.isfinite(base[zk]) and d <= u + RTOL * max(1.0, abs(base[zk]))):
            fail(f"shift:{name}:logZ", f"adding {off} to every logL moved logZ from {base[zk]!r} to {real[zk]!r} "
                 f"(shift error {d:.3e}, allowed {u + RTOL * max(1.0, abs(base[zk])):.3e})")
        if len(real[wk]) == len(base[wk]):
            for i, (a, b) in enumerate(zip(map(float, real[wk]), map(float, base[wk]))):
                same_inf = math.isinf(a) and a == b
                if not same_inf and not (math.isfinite(a) and math.isfinite(b)
                                         and abs(a - b) <= 2 * u + RTOL * max(1.0, abs(b))):
                    fail(f"shift:{name}:weights", f"adding {off} to every logL changed log_post_w[{i}] from {b!r} to {a!r}")
                    break


# ----------------------------------------------------------------------------- Lean model
def L_tok(case):
    return "[" + ",".join(f"{a}@{e}" for a, e in case["L"]) + "]"


def model_lines(case):
    N = len(case["L"])
    mode, n = case["mode"], case["n"]
    if case["kind"] == "sampler":
        sh = shrink_tok(mode, range(1, n + 1), case.get("tbits", TBITS))
        return [f"quad sampler {n} {N - n} {L_tok(case)} {sh}", f"quad cw int:{n} {L_tok(case)} {sh}"]
    ns = case["ns"]
    sh = shrink_tok(mode, ns, case.get("tbits", TBITS))
    arg = "[" + ",".join("none" if d else str(m) for m, d in zip(ns, case["use_default"])) + "]"
    return [f"quad incr {n} {arg} {L_tok(case)} {sh}",
            f"quad cw arr:[{','.join(map(str, ns))}] {L_tok(case)} {sh}"]


def parse_fields(line):
    toks = line.split(" ")
    d = {"status": toks[0]}
    for t in toks[1:]:
        k, v = t.split("=", 1)
        d[k] = v
    return d


def compare_model(ctx, case, real, ref, outs):
    """tie: exact Rat model vs the real outputs (RTOL) and vs the mpmath reference (MTOL)"""
    off = case["offset"]
    anypos = any(a > 0 for a, _ in case["L"])
    st, cw = parse_fields(outs[0]), parse_fields(outs[1])
    bad = []
    # the model's exp(-1/n) is a floor to `tbits` bits: relative error < 2^(1-tbits) per factor
    mtol = MTOL + (len(case["L"]) * 2.0 ** (2 - case.get("tbits", TBITS)) if case["mode"] == "logt" else 0.0)

    def chk(name, realv, tok, shift=0.0, refv=None):
        x = log_tok(tok)
        if refv is not None and not (x == refv or abs(x - refv) <= mtol * max(1.0, abs(float(refv)))):
            bad.append(f"{name}: Lean Rat model {float(x)!r} != mpmath reference {float(refv)!r}")
        if realv is not None and not close(realv, x, off=shift):
            bad.append(f"{name}: implementation {float(realv)!r} != exact model {float(x + shift)!r}")

    if st["status"] != "ok" or real["state"] != "ok":
        if st["status"] != real["state"]:
            bad.append(f"state status: model {st['status']} impl {real['state']}")
    else:
        if st["ns"] != "[" + ",".join(map(str, real["ns"])) + "]":
            bad.append(f"schedule: model {st['ns'][-30:]} impl {real['ns'][-8:]}")
        X = st["X"][1:-1].split(",")
        if len(X) != len(real["log_vols"]):
            bad.append(f"log_vols length: model {len(X)} impl {len(real['log_vols'])}")
        else:
            for i, tok in enumerate(X):
                chk(f"log_vols[{i}]", real["log_vols"][i], tok, refv=ref["log_vols"][i])
                if bad:
                    break
        if anypos:
            chk("logZ_rect", real["logZ_rect"], st["Zrect"], off, ref["logZ_rect"])
            chk("logZ", real["logZ"], st["Z"], off, ref["logZ"])
            W = st["W"][1:-1].split(",")
            if len(W) != len(real["logw"]):
                bad.append(f"weights length: model {len(W)} impl {len(real['logw'])}")
            else:
                for i, tok in enumerate(W):
                    chk(f"log_post_w[{i}]", real["logw"][i], tok, refv=ref["logw"][i])
                    if bad:
                        break
        else:
            if parse_dy(st["Z"])[0] != 0 or real["logZ"] != -math.inf:
                bad.append(f"zero evidence: model {st['Z']} impl {real['logZ']}")
        if case["kind"] == "sampler":
            LX = st["LX"][1:-1].split(",") if st["LX"] != "[]" else []
            if len(LX) != len(real["logx_live"]):
                bad.append("logx_live length")
            else:
                for i, tok in enumerate(LX):
                    chk(f"logx_live[{i}]", real["logx_live"][i], tok, refv=ref["logx_live"][i])
    if cw["status"] != "ok" or real["cw"] != "ok":
        if cw["status"] != real["cw"]:
            bad.append(f"compute_weights status: model {cw['status']} impl {real['cw']}")
    elif anypos:
        chk("cw logZ", real["cw_logZ"], cw["Z"], off, ref["logZ"])
        W = cw["W"][1:-1].split(",")
        if len(W) != len(real["cw_logw"]):
            bad.append("cw weights length")
        else:
            for i, tok in enumerate(W):
                chk(f"cw log_post_w[{i}]", real["cw_logw"][i], tok)
                if len(bad) > 3:
                    break
        # the two model paths are equal by theorem state_eq_compute_weights(_array): must be the same strings
        if st["status"] == "ok" and (st["Z"] != cw["Z"] or st["W"] != cw["W"]):
            bad.append("model incremental path != model one-pass path (contradicts state_eq_compute_weights)")
    for b in bad[:3]:
        if len(ctx.disagreements) < 30:
            ctx.disagree(b, {"case": slim(case), "lines": [ln[:200] for ln in model_lines(case)]})
        else:
            ctx.extra["further_disagreements"] = ctx.extra.get("further_disagreements", 0) + 1
    return not bad


def slim(case):
    c = dict(case)
    if len(c["L"]) > 40:
        c = dict(c, L=c["L"][:20] + ["…"] + c["L"][-20:], truncated=len(case["L"]))
        for k in ("ns", "use_default"):
            if k in c:
                c[k] = c[k][:20] + ["…"] + c[k][-20:]
    return c


def case_key(case):
    return hashlib.sha1(json.dumps(case, sort_keys=True).encode()).hexdigest()[:16]


# ----------------------------------------------------------------------------- shrinking a failing case
def failing_keys(case):
    keys = []
    try:
        real, ref = run_real(case), reference(case)
    except Exception as e:  # noqa
        return ["crash:" + type(e).__name__]
    f = lambda key, what: keys.append((key, what))  # noqa
    oracle(None, case, real, ref, fail=f)
    oracle_shift(None, case, real, fail=f)
    return keys


def restrict(case, idx):
    c = dict(case, L=[case["L"][i] for i in idx])
    if case["kind"] == "varying":
        c["ns"] = [case["ns"][i] for i in idx]
        c["use_default"] = [case["use_default"][i] for i in idx]
    return c


def shrink(case, key, budget=4.0):
    """smallest variant (prefix/suffix/no offset/simple likelihoods) still failing the same oracle key"""
    t0 = time.time()
    still = lambda c: any(k == key for k, _ in failing_keys(c))  # noqa
    best = case
    # smallest instances first: tiny sequences 1, 2, 3, ... with the same mode / kind
    for n in (1, 2, 3):
        for N in (n, n + 1, n + 2):
            c = dict(kind=case["kind"], mode=case["mode"], family="reduced", n=n, L=[[i + 1, 0] for i in range(N)],
                     offset=0.0, track=case.get("track", False))
            if case["kind"] == "varying":
                c.update(ns=[case["ns"][i % len(case["ns"])] for i in range(N)], use_default=[False] * N,
                         arr_dtype=case.get("arr_dtype", "float"))
            if still(c):
                return c
    if best["offset"] != 0.0 and still(dict(best, offset=0.0)):
        best = dict(best, offset=0.0)
    N = len(best["L"])
    lo = best["n"] if best["kind"] == "sampler" else 1
    for m in list(range(lo, min(N, lo + 6))) + [N // 8, N // 4, N // 2]:
        if time.time() - t0 > budget:
            break
        if lo <= m < len(best["L"]):
            c = restrict(best, list(range(len(best["L"]) - m, len(best["L"]))))
            if still(c):
                best = c
                break
    simple = dict(best, L=[[i + 1, 0] for i in range(len(best["L"]))])
    if time.time() - t0 < budget and still(simple):
        best = simple
    return best


# ----------------------------------------------------------------------------- driving
def run_cases(ctx, tagged):
    """real code + oracle for each case, then the model in one batch + tie"""
    lines, pending = [], []
    for tag, case in tagged:
        real = run_real(case)
        ref = reference(case)
        before = len(ctx.fails)
        oracle(ctx, case, real, ref)
        oracle_shift(ctx, case, real)
        if len(ctx.fails) > before:
            # replace the recorded (possibly long) case by a reduced one still failing the same key
            for f in ctx.fails[before:]:
                small = shrink(case, f["key"])
                msgs = [w for k, w in failing_keys(small) if k == f["key"]]
                f["case"] = small
                if msgs:
                    f["what"] = msgs[0]
        ml = model_lines(case)
        lines += ml
        pending.append((case, real, ref))
        N = len(case["L"])
        nontriv = N >= 2 and any(a > 0 for a, _ in case["L"]) and real["state"] == "ok" and real["cw"] == "ok"
        sz = "N<=10" if N <= 10 else "N<=100" if N <= 100 else "N<=1000" if N <= 1000 else "N>1000"
        ctx.case(case_key(case), nontriv, slim(case) if N <= 12 else None,
                 kind=f"{tag}:{case['kind']}/{case['mode']}/{case['family']}/{sz}")
        ctx.hist["offset:" + ("0" if case["offset"] == 0 else "|c|<=1e3" if abs(case["offset"]) <= 1e3 else "|c|<=1e5")] += 1
        if any(a == 0 for a, _ in case["L"]):
            ctx.hist["leading -inf"] += 1
    outs = ctx.model(lines)
    for i, (case, real, ref) in enumerate(pending):
        compare_model(ctx, case, real, ref, outs[2 * i:2 * i + 2])
        ctx.traces += 1


def boundary(ctx):
    """malformed / boundary stream: error kinds and degenerate inputs, model vs implementation"""
    from nessai.posterior import compute_weights
    lines, impls, cases = [], [], []
    for mode in ("t", "logt"):
        for N in range(0, 6):
            for n in range(0, 7):
                ll = np.log(np.arange(1, N + 1, dtype=float))
                try:
                    compute_weights(ll, n, expectation=mode)
                    r = "ok"
                except Exception as e:  # noqa
                    r = _exc(e)
                Ls = "[" + ",".join(f"{i}@0" for i in range(1, N + 1)) + "]"
                if n == 0 and r == "ok":
                    r = "ok-nlive0"        # outside the model's domain (1/0); never reached: numpy raises first
                lines.append(f"quad cw int:{n} {Ls} {shrink_tok(mode, range(1, n + 1))}")
                impls.append(r)
                cases.append(dict(layer="compute_weights status", N=N, n=n, mode=mode))
                ctx.case(("cw-status", mode, N, n), N >= 1 and n >= 1, kind="boundary:compute_weights int " + r)
                if 1 <= n <= N and r != "ok":
                    ctx.oracle_fail("compute_weights:raised", f"compute_weights raised {r} for {N} samples, nlive={n}",
                                    cases[-1])
            for na in (0, 1, 3):
                ll = np.log(np.arange(1, N + 1, dtype=float))
                ns = list(range(2, 2 + na))
                try:
                    compute_weights(ll, np.array(ns, dtype=float), expectation=mode)
                    r = "ok"
                except Exception as e:  # noqa
                    r = _exc(e)
                Ls = "[" + ",".join(f"{i}@0" for i in range(1, N + 1)) + "]"
                lines.append(f"quad cw arr:[{','.join(map(str, ns))}] {Ls} {shrink_tok(mode, ns)}")
                impls.append(r)
                cases.append(dict(layer="compute_weights status", N=N, ns=ns, mode=mode))
                ctx.case(("cw-status-arr", mode, N, na), N >= 1 and na == N, kind="boundary:compute_weights array " + r)
    outs = ctx.model(lines)
    for line, mo, io, c in zip(lines, outs, impls, cases):
        if mo.split(" ")[0] != io:
            ctx.disagree("compute_weights status: model != implementation", {"line": line, "model": mo[:80], "impl": io, "case": c})
    # schedules produced by the real hand-over loop, for a grid of (k, n), against scheduleIncr / scheduleOnePass
    from nessai.evidence import _NSIntegralState
    from nessai.samplers.nestedsampler import NestedSampler
    lines, impls, cases = [], [], []
    for n in range(1, 9):
        for k in range(0, 6):
            st = _NSIntegralState(n, track_gradients=False)
            for i in range(k):
                st.increment(float(i))
            live = np.zeros(n, dtype=[("logL", "f8")])
            live["logL"] = np.arange(k, k + n)
            stub = types.SimpleNamespace(live_points=live, state=st, nlive=n, nested_samples=[],
                                         update_state=lambda force=False: None)
            NestedSampler.finalise(stub)
            s = "[" + ",".join(str(int(v)) for v in st.nlive) + "]"
            lines += [f"quad sched incr {k} {n}", f"quad sched onepass {k + n} {n}"]
            impls += [s, "ok " + s]
            cases += [dict(layer="schedule", k=k, n=n)] * 2
            ctx.case(("sched", k, n), True, kind="boundary:schedule")
    ctx.diff_model(lines, impls, cases, what="live-count schedule: model != NestedSampler.finalise")
    # all log-likelihoods -inf: zero evidence (the weights are undefined; not demanded)
    for mode in ("t", "logt"):
        case = dict(kind="sampler", mode=mode, family="zero", n=2, L=[[0, 0]] * 4, offset=0.0, track=True)
        real, ref = run_real(case), reference(case)
        compare_model(ctx, case, real, ref, ctx.model(model_lines(case)))
        ctx.case(("allzero", mode), False, kind="boundary:all -inf")
    # the output rounding of the driver itself
    rng = ctx.rng
    lines, want = [], []
    from fractions import Fraction
    for _ in range(ctx.scale(200, 2000)):
        p = rng.randint(-(1 << rng.randint(1, 400)), 1 << rng.randint(1, 400))
        q = rng.randint(1, 1 << rng.randint(1, 400))
        bits = rng.choice([8, 53, 256])
        lines.append(f"quad round {p}/{q} {bits}")
        want.append((Fraction(p, q), bits))
    for line, out, (fr, bits) in zip(lines, ctx.model(lines), want):
        m, e = parse_dy(out)
        lo = Fraction(abs(m)) * (Fraction(2) ** e)
        hi = Fraction(abs(m) + 1) * (Fraction(2) ** e)
        ok = (fr == 0 and m == 0) or (lo <= abs(fr) < hi and (m < 0) == (fr < 0) and abs(m).bit_length() in (bits + 1, bits + 2, bits))
        if not ok:
            ctx.disagree("driver output rounding is not a floor to the requested bits", {"line": line, "model": out})
        ctx.case(("round", line), True, kind="boundary:rounding")


def corpus_cases():
    d = core.VERIF / "corpus" / "C02"
    out = []
    if d.is_dir():
        for p in sorted(d.glob("*.json")):
            obj = json.loads(p.read_text())
            out += obj if isinstance(obj, list) else [obj]
    return out


def correspond(ctx):
    ctx.rule = ("generated non-decreasing dyadic likelihood sequences L_i = a_i 2^e_i (families: smooth NS-like with log-range "
                "1e-3..2e4, ties from a 1-4 letter alphabet, tiny range 1+j 2^-52.., huge range 2^(+-30000), plateau; 30% with "
                "leading zeros = -inf; offsets 0..+-1e5 added in log space) x {t, logt} x {sampler: k dead + n live through the "
                "real NestedSampler.finalise loop, n in 1..N; varying: per-call nlive (walk / iid from {1..1e5} / rise-fall / "
                "const) and array-valued compute_weights}; real _NSIntegralState and compute_weights vs the Lean Rat model "
                "(|d| <= 1e-9 max(1,|v|) on logZ, rectangle logZ, every log-volume, every log posterior weight, live-point "
                "volumes) and vs a 60-digit mpmath evaluation; non-trivial = distinct case with N >= 2, a positive likelihood "
                "and both paths returning; plus boundary stream (error kinds on a (N, nlive) grid, schedules on a (k, n) grid, "
                "all -inf, driver rounding)")
    ctx.assume("float64 rounding error of the implementation stays below 1e-9*max(1,|value|): observed on the generated inputs, "
               "not proved (theorems are about exact arithmetic)",
               "exp(-1/n) is handed to the Rat model as a 128-bit dyadic; the theorems hold for any shrinkage in (0,1)",
               "live_points handed to NestedSampler.finalise has exactly nlive entries (C01: live.length = n)")
    ctx.trust("hand-written model Model/Quadrature.lean (linear-domain reading of the log-space code); tie = this correspondence",
              "hand-written model Model/Information.lean (information recursion, logarithm as a table of 60-digit mpmath values "
              "of the model's own exact evidences); tie = value-by-value comparison of state.info and log_evidence_error",
              "mpmath log/exp at 60 digits (used to take logarithms of the exact rationals and for the independent reference)",
              "driver output rounding roundDy (validated against Python fractions on every run)")
    rng = ctx.rng
    cases = [("corpus", c) for c in corpus_cases()]
    maxN = ctx.scale(300, 600)
    for _ in range(ctx.scale(260, 2500)):
        cases.append(("gen", gen_case(rng, maxN if rng.random() < 0.25 else 40)))
    # exhaustive small scope: every (n, N<=5) x mode with a fixed tie-rich sequence
    seqs = [[(1, 0), (1, 0), (3, 0), (3, 1), (5, 2)], [(0, 0), (0, 0), (1, -3), (1, -3), (1, 8)]]
    for mode in ("t", "logt"):
        for N in range(1, 6):
            for n in range(1, N + 1):
                for s in seqs:
                    cases.append(("grid", dict(kind="sampler", mode=mode, family="small", n=n,
                                               L=[list(p) for p in s[:N]], offset=0.0, track=True)))
    # deep prior volumes (log X < -745: exp underflows in float64) with one live point
    for mode, N in (("logt", 800), ("t", 1100)):
        L = gen_L(rng, N, "smooth")
        cases.append(("deep", dict(kind="varying", mode=mode, family="smooth", n=1, L=[list(p) for p in L],
                                   offset=rng.choice([0.0, 1.0e5]), track=False, ns=[1] * N, use_default=[True] * N,
                                   arr_dtype="int", style="const")))
        cases.append(("deep", dict(kind="sampler", mode=mode, family="ties", n=1, L=[[3, -2]] * N, offset=0.0, track=False)))
    # steeply rising likelihoods at deep volumes: the LATE terms (volumes below exp(-745)) carry the evidence, so an
    # implementation that lets the interval widths leave log space gets logZ wrong by hundreds of nats (seeded change
    # C02-b).  't' mode with n = 1, 2 keeps the exact model cheap (t = 1/2, 2/3: small denominators); one 'logt' case
    # with a 64-bit table.
    for off in (0.0, 1.0e3):
        cases.append(("deep", dict(kind="sampler", mode="t", family="steep", n=1, L=[[1, 2 * i] for i in range(1100)],
                                   offset=off, track=False)))
    cases.append(("deep", dict(kind="sampler", mode="logt", family="steep", n=1, L=[[1, 2 * i] for i in range(800)],
                               offset=0.0, track=False, tbits=64)))
    cases.append(("deep", dict(kind="sampler", mode="t", family="steep", n=2, L=[[1, i] for i in range(1900)],
                               offset=0.0, track=False)))
    if not ctx.quick:
        for mode, top in (("t", 5000), ("t", 5000), ("t", 3000), ("logt", 2000), ("logt", 1500), ("logt", 1000)):   # long runs
            while True:
                c = gen_case(rng, top)
                if c["mode"] == mode and len(c["L"]) > top // 2 and c["family"] != "huge":
                    break
            if mode == "logt":
                c["tbits"] = 64
            cases.append(("long", c))
    chunk = 60
    for i in range(0, len(cases), chunk):
        run_cases(ctx, cases[i:i + chunk])
    boundary(ctx)
    # the information recursion and log_evidence_error (Model/Information.lean)
    from . import c02_info
    info_cases = c02_info.fixed_cases() + [c for _, c in cases if len(c["L"]) <= 160][:ctx.scale(150, 1500)]
    for i in range(0, len(info_cases), chunk):
        c02_info.run(ctx, info_cases[i:i + chunk])


def search(ctx):
    """enlarged failing-input search with the oracle on the real functions (no model needed)"""
    t0 = time.time()
    box = ctx.scale(60, 600)
    rng = ctx.rng
    while time.time() - t0 < box and not ctx.fails:
        case = gen_case(rng, 60)
        real, ref = run_real(case), reference(case)
        before = len(ctx.fails)
        oracle(ctx, case, real, ref)
        oracle_shift(ctx, case, real)
        for f in ctx.fails[before:]:
            f["case"] = shrink(case, f["key"])
        ctx.case(case_key(case), True, kind="search")


def replay(ctx, obj):
    case = obj["case"]
    if "case" in case and "L" not in case:
        case = case["case"]
    if "L" not in case or any(p == "…" for p in case["L"]):
        correspond(ctx)
        return
    real, ref = run_real(case), reference(case)
    oracle(ctx, case, real, ref)
    oracle_shift(ctx, case, real)
    compare_model(ctx, case, real, ref, ctx.model(model_lines(case)))
    ctx.case(case_key(case), True, slim(case), kind="replay")
