"""Pinned list of property theorems per check (lean/obligations.json).
A theorem that disappears from Props/Cxx.lean (deleted, renamed, turned into an `example`) breaks the check;
new theorems are picked up by `python3 harness/obligations.py --update` (run after a deliberate change)."""
import json
import sys
from pathlib import Path

sys.path.insert(0, str(Path(__file__).resolve().parent.parent))
from harness.core import LEAN, theorems_of  # noqa: E402

FILE = LEAN / "obligations.json"


def current():
    out = {}
    for p in sorted((LEAN / "NessaiVerif" / "Props").glob("C*.lean")):
        out[p.stem] = [t[0] for t in theorems_of(p)]
    return out


if __name__ == "__main__":
    cur = current()
    if "--update" in sys.argv:
        FILE.write_text(json.dumps(cur, indent=1) + "\n")
        print("pinned", sum(len(v) for v in cur.values()), "theorems")
    else:
        old = json.loads(FILE.read_text()) if FILE.exists() else {}
        for k, v in old.items():
            missing = [n for n in v if n not in cur.get(k, [])]
            if missing:
                print(k, "MISSING", missing)
