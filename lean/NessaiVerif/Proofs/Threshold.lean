import NessaiVerif.Model.Threshold
import Mathlib.Algebra.Order.Field.Basic
import Mathlib.Tactic.Linarith
import Mathlib.Tactic.Ring
/- Helper lemmas for C17: counts of removed samples on sorted lists, and the algebra of the
   abstract weighted quantile `wq`. -/
namespace NessaiVerif.Threshold

section Count
variable {α : Type} [LinearOrder α]

theorem countBelow_append (thr : α) (xs ys : List α) :
    countBelow thr (xs ++ ys) = countBelow thr xs + countBelow thr ys := by
  simp [countBelow, List.filter_append]

theorem countBelow_of_all_lt (thr : α) (xs : List α) (h : ∀ x ∈ xs, x < thr) :
    countBelow thr xs = xs.length := by
  unfold countBelow
  rw [List.filter_eq_self.mpr]
  intro x hx
  simpa using h x hx

theorem countBelow_of_all_ge (thr : α) (xs : List α) (h : ∀ x ∈ xs, thr ≤ x) :
    countBelow thr xs = 0 := by
  unfold countBelow
  rw [List.length_eq_zero_iff, List.filter_eq_nil_iff]
  intro x hx
  simpa using h x hx

/-- On a sorted list, if everything before position `n` is strictly below `xs[n]` (no tie at the
cut), exactly `n` samples are strictly below the threshold `xs[n]`. -/
theorem countBelow_eq_index (xs : List α) (n : Nat) (hn : n < xs.length)
    (hsorted : xs.Pairwise (· ≤ ·))
    (hcut : ∀ i (hi : i < n), xs[i]'(by omega) < xs[n]) :
    countBelow xs[n] xs = n := by
  have hsplit : xs = xs.take n ++ xs.drop n := (List.take_append_drop n xs).symm
  have h1 : countBelow xs[n] (xs.take n) = n := by
    rw [countBelow_of_all_lt]
    · simp; omega
    · intro y hy
      obtain ⟨i, hi, rfl⟩ := List.mem_take_iff_getElem.mp hy
      exact hcut i (by omega)
  have h2 : countBelow xs[n] (xs.drop n) = 0 := by
    apply countBelow_of_all_ge
    intro y hy
    obtain ⟨i, hi, rfl⟩ := List.mem_drop_iff_getElem.mp hy
    rcases Nat.eq_zero_or_pos i with h0 | hpos
    · subst h0; simp
    · exact List.pairwise_iff_getElem.mp hsorted n (n + i) hn (by omega) (by omega)
  calc countBelow xs[n] xs = countBelow xs[n] (xs.take n ++ xs.drop n) := by rw [← hsplit]
    _ = n := by rw [countBelow_append, h1, h2]; rfl

/-- whatever the ties, a threshold read at position `n` of a sorted list never removes more than `n` -/
theorem countBelow_le_index (xs : List α) (n : Nat) (hn : n < xs.length)
    (hsorted : xs.Pairwise (· ≤ ·)) : countBelow xs[n] xs ≤ n := by
  have hsplit : xs = xs.take n ++ xs.drop n := (List.take_append_drop n xs).symm
  have h2 : countBelow xs[n] (xs.drop n) = 0 := by
    apply countBelow_of_all_ge
    intro y hy
    obtain ⟨i, hi, rfl⟩ := List.mem_drop_iff_getElem.mp hy
    rcases Nat.eq_zero_or_pos i with h0 | hpos
    · subst h0; simp
    · exact List.pairwise_iff_getElem.mp hsorted n (n + i) hn (by omega) (by omega)
  have h1 : countBelow xs[n] (xs.take n) ≤ n := by
    unfold countBelow
    calc _ ≤ (xs.take n).length := List.length_filter_le _ _
      _ ≤ n := by simp
  calc countBelow xs[n] xs = countBelow xs[n] (xs.take n ++ xs.drop n) := by rw [← hsplit]
    _ ≤ n := by rw [countBelow_append, h2]; omega

end Count

section Finish
variable {α : Type}

/-- an in-range index reads that very position -/
theorem finish_index (xs : List α) (n : Int) (h0 : 0 ≤ n) (h1 : n < (xs.length : Int)) :
    finish xs (Clamp.index n) = Outcome.threshold n.toNat (xs[n.toNat]'(by omega)) := by
  have hlt : n.toNat < xs.length := by omega
  simp [finish, pyIndex, h0, h1]

theorem countKept_eq [LinearOrder α] (thr : α) (xs : List α) :
    countKept thr xs + countBelow thr xs = xs.length := by
  unfold countKept
  have : countBelow thr xs ≤ xs.length := by unfold countBelow; exact List.length_filter_le _ _
  omega

end Finish

section Quantile
variable {K : Type} [Field K] [LinearOrder K] [IsStrictOrderedRing K]

omit [LinearOrder K] [IsStrictOrderedRing K] in
theorem wq_eq_dot : ∀ (tbl vals : List K),
    wq tbl vals = (List.zipWith (· * ·) (wqWeights tbl) vals).sum
  | [], _ => by simp [wq, wqWeights]
  | [_], _ => by simp [wq, wqWeights]
  | _ :: _ :: _, [] => by simp [wq, wqWeights]
  | t0 :: t1 :: ts, v :: vs => by
    simp [wq, wqWeights, wq_eq_dot (t1 :: ts) vs]

theorem wqWeights_nonneg : ∀ (tbl : List K), tbl.Pairwise (· ≤ ·) → ∀ w ∈ wqWeights tbl, 0 ≤ w
  | [], _ => by simp [wqWeights]
  | [_], _ => by simp [wqWeights]
  | t0 :: t1 :: ts, h => by
    intro w hw
    simp only [wqWeights, List.mem_cons] at hw
    rcases hw with rfl | hw
    · have := (List.pairwise_cons.mp h).1 t1 (by simp)
      linarith
    · exact wqWeights_nonneg (t1 :: ts) (List.pairwise_cons.mp h).2 w hw

omit [LinearOrder K] [IsStrictOrderedRing K] in
theorem wqWeights_sum : ∀ (t0 : K) (ts : List K),
    (wqWeights (t0 :: ts)).sum = (t0 :: ts).getLastD 0 - t0
  | t0, [] => by simp [wqWeights]
  | t0, t1 :: ts => by
    have ih := wqWeights_sum t1 ts
    simp only [wqWeights, List.sum_cons, ih]
    simp

omit [LinearOrder K] [IsStrictOrderedRing K] in
theorem wqWeights_length : ∀ (tbl : List K), (wqWeights tbl).length = tbl.length - 1
  | [] => by simp [wqWeights]
  | [_] => by simp [wqWeights]
  | t0 :: t1 :: ts => by
    have := wqWeights_length (t1 :: ts)
    simp [wqWeights] at this ⊢
    omega

/-- lower and upper bound of `wq` in terms of the total mass `last - first` of the table -/
theorem wq_bounds (lo hi : K) : ∀ (t0 : K) (ts vals : List K),
    (t0 :: ts).Pairwise (· ≤ ·) → ts.length = vals.length → (∀ v ∈ vals, lo ≤ v ∧ v ≤ hi) →
    lo * ((t0 :: ts).getLastD 0 - t0) ≤ wq (t0 :: ts) vals ∧
      wq (t0 :: ts) vals ≤ hi * ((t0 :: ts).getLastD 0 - t0)
  | t0, [], vals, _, _, _ => by simp [wq]
  | t0, t1 :: ts, [], _, hl, _ => by simp at hl
  | t0, t1 :: ts, v :: vs, hp, hl, hv => by
    have hp' := List.pairwise_cons.mp hp
    have h01 : t0 ≤ t1 := hp'.1 t1 (by simp)
    have ih := wq_bounds lo hi t1 ts vs hp'.2 (by simpa using hl)
      (fun x hx => hv x (List.mem_cons_of_mem _ hx))
    have hv0 := hv v (by simp)
    have hlast : (t0 :: t1 :: ts).getLastD 0 = (t1 :: ts).getLastD 0 := by simp
    rw [hlast]
    simp only [wq]
    have hd : 0 ≤ t1 - t0 := by linarith
    have a1 : lo * (t1 - t0) ≤ (t1 - t0) * v := by nlinarith [mul_le_mul_of_nonneg_left hv0.1 hd]
    have a2 : (t1 - t0) * v ≤ hi * (t1 - t0) := by nlinarith [mul_le_mul_of_nonneg_left hv0.2 hd]
    constructor
    · nlinarith [ih.1]
    · nlinarith [ih.2]

/-- Abel-summation core of the monotonicity in `q`: if the table `s` lies pointwise below the table
`t` (`s` is the CDF table of the stochastically larger distribution), both end in the same value
and the data are sorted, then `wq t vals - wq s vals ≤ -(t₀ - s₀) · vals₀`. -/
theorem wq_diff_le : ∀ (t0 s0 : K) (ts ss vals : List K),
    List.Forall₂ (· ≤ ·) (s0 :: ss) (t0 :: ts) → ts.length = vals.length →
    vals.Pairwise (· ≤ ·) → (t0 :: ts).getLastD 0 = (s0 :: ss).getLastD 0 →
    wq (t0 :: ts) vals - wq (s0 :: ss) vals ≤ -(t0 - s0) * vals.headD 0
  | t0, s0, [], ss, vals, hf, hl, _, hlast => by
    cases ss with
    | nil =>
      have : t0 = s0 := by simpa using hlast
      subst this
      cases vals <;> simp [wq]
    | cons _ _ => cases hf with | cons _ h => cases h
  | t0, s0, t1 :: ts, [], vals, hf, _, _, _ => by
    cases hf with | cons _ h => cases h
  | t0, s0, t1 :: ts, s1 :: ss, [], _, hl, _, _ => by simp at hl
  | t0, s0, t1 :: ts, s1 :: ss, v :: vs, hf, hl, hp, hlast => by
    cases hf with
    | cons h0 hf' =>
      have h1 : s1 ≤ t1 := by cases hf' with | cons h _ => exact h
      have hp' := List.pairwise_cons.mp hp
      have hlast' : (t1 :: ts).getLastD 0 = (s1 :: ss).getLastD 0 := by
        simpa [List.getLastD_cons] using hlast
      have ih := wq_diff_le t1 s1 ts ss vs hf' (by simpa using hl) hp'.2 hlast'
      simp only [wq, List.headD_cons]
      cases vs with
      | nil =>
        have hts : ts = [] := by
          have : ts.length = 0 := by simpa using hl
          exact List.length_eq_zero_iff.mp this
        subst hts
        have hss : ss = [] := by
          cases hf' with | cons _ h => cases h; rfl
        subst hss
        have : t1 = s1 := by simpa using hlast'
        subst this
        simp [wq]
        ring_nf
        exact le_refl _
      | cons v1 vs' =>
        have hvv : v ≤ v1 := hp'.1 v1 (by simp)
        simp only [List.headD_cons] at ih
        have hd1 : 0 ≤ t1 - s1 := by linarith
        nlinarith [mul_nonneg hd1 (sub_nonneg.mpr hvv), ih]

end Quantile
end NessaiVerif.Threshold
