/-
C12 — the accounts (likelihood-evaluation counter, likelihood-evaluation time, sampling time) of a
sampler across checkpoints, kills and resumes.  Core Lean only.

What is modelled (nessai/samplers/base.py, nessai/model.py, nessai/samplers/nestedsampler.py,
nessai/samplers/importancesampler.py):

* `Model.likelihood_evaluations` / `Model.likelihood_evaluation_time` live on the *model object*; a
  fresh process builds a fresh model, so both start at 0 (class attributes).
* `BaseNestedSampler.__getstate__` drops `model` and writes the two counters into the pickle as
  `_previous_likelihood_evaluations` / `_previous_likelihood_evaluation_time`.
* `BaseNestedSampler.resume_from_pickled_sampler` does
  `model.likelihood_evaluations += sampler._previous_likelihood_evaluations` (and the same for the time)
  on the model it is handed.  It does NOT touch `sampling_start_time`: between the resume
  (`FlowSampler.__init__`) and the entry of the sampling loop the sampler carries the pickled start.
* `BaseNestedSampler.checkpoint`: `sampling_time += now - sampling_start_time`, pickle (the pickle
  therefore holds the OLD `sampling_start_time`), then `sampling_start_time = now`.  It can be called at
  any moment a process is alive — in particular by the signal handler (`FlowSampler.safe_exit`) between
  the resume and the loop entry.
* `nested_sampling_loop` of both samplers sets `sampling_start_time = now` on entry (`resetStart`; the
  generated table `loopResetsStart` says whether the current sources do).

Time is a logical clock (`Nat` ticks) that keeps running while no process is alive (`down`).
-/
namespace NessaiVerif.Accounts

/-- One step of a run's life. -/
inductive Op
  /-- a process is started: fresh `Model`, `FlowSampler(resume=True)` — resumes from the checkpoint file if there
      is one (`resume_from_pickled_sampler`), builds a fresh sampler otherwise.  The loop is NOT yet entered. -/
  | resume
  /-- `nested_sampling_loop` is entered by the live process -/
  | enterLoop
  /-- the live process performs `e` likelihood evaluations while `t` ticks elapse, `lt` of them inside
      the timed window of `batch_evaluate_log_likelihood` -/
  | run (e t lt : Nat)
  /-- a checkpoint file is written (completely): periodic, forced, or by the signal handler -/
  | checkpoint
  /-- the process dies; nothing is written -/
  | kill
  /-- `d` ticks pass while no process is alive (ignored while one is) -/
  | down (d : Nat)
  deriving Repr, DecidableEq

/-- What the pickle carries of the accounts. -/
structure Saved where
  evals : Nat      -- `_previous_likelihood_evaluations`
  ltime : Nat      -- `_previous_likelihood_evaluation_time`
  stime : Nat      -- `sampling_time`
  start : Nat      -- `sampling_start_time` (the value BEFORE the checkpoint re-armed it)
  deriving Repr, DecidableEq

structure St where
  clock : Nat := 0
  alive : Bool := false
  /-- control position of the live process: has `nested_sampling_loop` been entered? -/
  inLoop : Bool := false
  mEvals : Nat := 0          -- model.likelihood_evaluations of the live process
  mLtime : Nat := 0          -- model.likelihood_evaluation_time
  stime : Nat := 0           -- sampler.sampling_time
  start : Nat := 0           -- sampler.sampling_start_time
  file : Option Saved := none
  deriving Repr, DecidableEq

/-- How the code is configured / written. -/
structure Cfg where
  /-- the sampling loop re-arms `sampling_start_time` on entry (true for both samplers in the current sources) -/
  resetStart : Bool
  /-- `resume_from_pickled_sampler` re-arms `sampling_start_time` (the current sources do not: generated table
      `resumeRearmsStart`) -/
  rearmOnResume : Bool
  /-- the model object handed to the resume is fresh (counter 0), as in a new process -/
  freshModel : Bool
  deriving Repr, DecidableEq

def step (c : Cfg) (s : St) : Op → St
  | .resume =>
    match s.file with
    | none =>
      -- no checkpoint: a fresh sampler is built (`sampling_time = 0`, `sampling_start_time = now`)
      { s with alive := true, inLoop := false
               mEvals := if c.freshModel then 0 else s.mEvals
               mLtime := if c.freshModel then 0 else s.mLtime
               stime := 0, start := s.clock }
    | some sv =>
      -- unpickle + resume_from_pickled_sampler: counters re-seeded with `+=`, the pickled start is kept
      -- (unless the resume re-arms it)
      { s with alive := true, inLoop := false
               mEvals := (if c.freshModel then 0 else s.mEvals) + sv.evals
               mLtime := (if c.freshModel then 0 else s.mLtime) + sv.ltime
               stime := sv.stime
               start := if c.rearmOnResume then s.clock else sv.start }
  | .enterLoop =>
    -- once per process: a second entry is not modelled (no-op)
    if s.alive && !s.inLoop then { s with inLoop := true, start := if c.resetStart then s.clock else s.start } else s
  | .run e t lt =>
    if s.alive then { s with clock := s.clock + t, mEvals := s.mEvals + e, mLtime := s.mLtime + lt } else s
  | .checkpoint =>
    if s.alive then
      let st' := s.stime + (s.clock - s.start)
      { s with stime := st'
               file := some { evals := s.mEvals, ltime := s.mLtime, stime := st', start := s.start }
               start := s.clock }
    else s
  | .kill => { s with alive := false, inLoop := false }
  | .down d => if s.alive then s else { s with clock := s.clock + d }

def exec (c : Cfg) (s : St) (h : List Op) : St := h.foldl (step c) s

/-- `current_sampling_time` of an unfinalised sampler -/
def St.current (s : St) : Nat := s.stime + (s.clock - s.start)

/-! ### The specification: a commit log, written without any counter that is reset or re-seeded.

`committed` are the `run` steps covered by the last completed checkpoint of the lineage that is alive
(or was alive last), `pending` the ones performed since.  A kill discards `pending`; nothing else is ever
discarded, and nothing is ever added twice.  Sampling time is the time spent inside the sampling loop: the
ticks of a step performed before the loop is entered are recorded as 0. -/
structure Log where
  alive : Bool := false
  inLoop : Bool := false
  committed : List (Nat × Nat × Nat) := []
  pending : List (Nat × Nat × Nat) := []
  hasFile : Bool := false
  deriving Repr, DecidableEq

def logStep (l : Log) : Op → Log
  | .resume => { l with alive := true, inLoop := false, pending := [] }
  | .enterLoop => if l.alive && !l.inLoop then { l with inLoop := true } else l
  | .run e t lt => if l.alive then { l with pending := l.pending ++ [(e, if l.inLoop then t else 0, lt)] } else l
  | .checkpoint => if l.alive then { l with committed := l.committed ++ l.pending, pending := [], hasFile := true } else l
  | .kill => { l with alive := false, inLoop := false }
  | .down _ => l

def logOf (l : Log) (h : List Op) : Log := h.foldl logStep l

def Log.retained (l : Log) : List (Nat × Nat × Nat) := l.committed ++ l.pending

def sumE (xs : List (Nat × Nat × Nat)) : Nat := (xs.map (fun x => x.1)).sum
def sumT (xs : List (Nat × Nat × Nat)) : Nat := (xs.map (fun x => x.2.1)).sum
def sumL (xs : List (Nat × Nat × Nat)) : Nat := (xs.map (fun x => x.2.2)).sum

/-- every `run` step a live process performed, in order (what an uninterrupted observer would add up; ticks
    outside the sampling loop recorded as 0, as in the log) -/
def performed : Bool → Bool → List Op → List (Nat × Nat × Nat)
  | _, _, [] => []
  | _, _, .resume :: h => performed true false h
  | alive, inLoop, .enterLoop :: h => performed alive (alive || inLoop) h
  | _, _, .kill :: h => performed false false h
  | alive, inLoop, .run e t lt :: h =>
    if alive then (e, if inLoop then t else 0, lt) :: performed alive inLoop h else performed alive inLoop h
  | alive, inLoop, .checkpoint :: h => performed alive inLoop h
  | alive, inLoop, .down _ :: h => performed alive inLoop h

/-- histories the harness produces: a process is started only when none is alive, and only a live
    process enters the loop / runs / checkpoints / is killed -/
def wellFormed : Bool → List Op → Bool
  | _, [] => true
  | alive, .resume :: h => !alive && wellFormed true h
  | alive, .enterLoop :: h => alive && wellFormed alive h
  | alive, .kill :: h => alive && wellFormed false h
  | alive, .run _ _ _ :: h => alive && wellFormed alive h
  | alive, .checkpoint :: h => alive && wellFormed alive h
  | alive, .down _ :: h => wellFormed alive h

/-- every checkpoint of the history is written from inside the sampling loop (periodic, on-training and final
    checkpoints are; a signal-handler checkpoint between the resume and the loop entry is not) -/
def ckptInLoop : Bool → Bool → List Op → Bool
  | _, _, [] => true
  | _, _, .resume :: h => ckptInLoop true false h
  | alive, inLoop, .enterLoop :: h => ckptInLoop alive (alive || inLoop) h
  | _, _, .kill :: h => ckptInLoop false false h
  | alive, inLoop, .checkpoint :: h => (!alive || inLoop) && ckptInLoop alive inLoop h
  | alive, inLoop, .run _ _ _ :: h => ckptInLoop alive inLoop h
  | alive, inLoop, .down _ :: h => ckptInLoop alive inLoop h

end NessaiVerif.Accounts
