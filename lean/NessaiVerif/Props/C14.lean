import NessaiVerif.Model.Tables
import NessaiVerif.Gen.Tables
import NessaiVerif.Props.C10
/-
C14 — seeded runs are reproducible and independent of the parallelisation settings.

PARTIAL by nature.  Bit-determinism of NumPy / PyTorch kernels and of process scheduling is not provable; what is
decided here is structural, over whole-package tables regenerated from the current nessai sources on every run
(`Gen/Tables.lean`, by `harness/c14_tables.py`) and judged against hand-written allow-lists (`Model/Tables.lean`):

* the parallelisation settings are read only inside the batch-evaluation layer and its wiring, the pool is used
  only through the order-preserving `map` — and by C10 that layer returns the pointwise values whatever the
  settings are;
* every random-number site draws from a generator that `configure_random_seed` seeds;
* the only random draw whose execution depends on a parallelisation setting is the vectorisation probe, whose
  effect is modelled exactly (it is the recorded finding of this property).
Property theorems only.
-/
namespace NessaiVerif.C14
open NessaiVerif.Np NessaiVerif.Batch NessaiVerif.Tables

/-! ### the settings are confined to the batch layer -/

/-- Every read of `pool`, `n_pool`, `likelihood_chunksize`/`chunksize`, `parallelise_prior`, `allow_vectorised`
anywhere in the package (attribute, local name or keyed lookup) lies in the batch-evaluation layer
(`batch_evaluate_function`, `array_split_chunksize`, `get_n_pool`, `Model.batch_evaluate_*`, `configure_pool`,
`close_pool`, the vectorisation probe) or in a constructor that merely forwards the value.  No sampler, proposal,
flow or evidence code can see the settings. -/
theorem pool_settings_confined : ∀ r ∈ Gen.Tables.poolReads, readAllowed r = true := by decide

/-- non-vacuity: the table is not empty, and the allow-list does reject what it should: a sampler branching on
`n_pool`, a constructor doing more than forwarding, an unknown function. -/
example : Gen.Tables.poolReads.length ≥ 40 ∧
    readAllowed ⟨"nessai/samplers/nestedsampler.py", "NestedSampler.populate_live_points", 1, "n_pool", .test⟩ = false ∧
    readAllowed ⟨"nessai/samplers/nestedsampler.py", "NestedSampler.__init__", 1, "n_pool", .test⟩ = false ∧
    readAllowed ⟨"nessai/samplers/nestedsampler.py", "NestedSampler.__init__", 1, "n_pool", .use⟩ = false ∧
    readAllowed ⟨"nessai/proposal/flowproposal.py", "FlowProposal.populate", 1, "pool", .forward⟩ = false ∧
    readAllowed ⟨"nessai/samplers/nestedsampler.py", "NestedSampler.__init__", 1, "n_pool", .forward⟩ = true := by decide

/-- The pool is only ever used through `map` (results in input order — the `PoolLawful` hypothesis below is a statement
about `map`) and closed/joined/terminated, and only by the batch layer. -/
theorem pool_calls_order_preserving : ∀ c ∈ Gen.Tables.poolCalls, callAllowed c = true := by decide

example : Gen.Tables.poolCalls.length ≥ 3 ∧
    callAllowed ⟨"nessai/utils/multiprocessing.py", "batch_evaluate_function", 1, "imap_unordered"⟩ = false ∧
    callAllowed ⟨"nessai/samplers/nestedsampler.py", "NestedSampler.initialise", 1, "map"⟩ = false := by decide

/-- **Values do not depend on the parallelisation settings** (partial).
What is proved: for ANY two settings — chunk size, pool presence, pool size, vectorised or not — under which the batch
layer returns at all, it returns the same list, namely the pointwise values in input order.  This is C10's
`batchEval_eq_map` applied to each setting, given a batch-consistent likelihood and an order-preserving `pool.map`;
it says nothing about floating-point kernels.  The first conjunct merely restates the closed table fact
`pool_settings_confined` next to it.
What is NOT a Lean statement: no object here represents "a run of the sampler".  The step from these two facts — the
settings are read nowhere outside the batch layer, and the batch layer's values do not depend on them — to "two runs
that differ only in the settings compute the same thing" is an informal composition (it additionally needs that the
layer has no other effect that differs, which is exactly where the vectorisation probe's random draws come in, see
below); the digest runs observe it, no theorem states it. -/
theorem values_independent_of_pool_settings_partial {α β : Type}
    (F : List α → List β) (f : α → β) (pmap : (List α → List β) → List (List α) → List (List β))
    (hF : C10.Consistent F f) (hP : C10.PoolLawful pmap) (xs : List α)
    (vec vec' : Bool) (chunk chunk' : Option Int) (pool pool' : Bool) (nPool nPool' : Option Nat)
    (out out' : List β)
    (h : batchEval F f pmap vec chunk pool nPool xs = .ok out)
    (h' : batchEval F f pmap vec' chunk' pool' nPool' xs = .ok out') :
    (∀ r ∈ Gen.Tables.poolReads, readAllowed r = true) ∧ out = out' ∧ out = xs.map f := by
  have e := C10.batchEval_eq_map F f pmap hF hP vec chunk pool nPool xs out h
  have e' := C10.batchEval_eq_map F f pmap hF hP vec' chunk' pool' nPool' xs out' h'
  exact ⟨pool_settings_confined, by rw [e, e'], e⟩

/-- On the domain of the property (no pool or a pool of known size ≥ 1, chunk size absent or ≥ 0) the layer does
return, so every such run sees exactly `xs.map f`. -/
theorem values_total_on_domain {α β : Type}
    (F : List α → List β) (f : α → β) (pmap : (List α → List β) → List (List α) → List (List β))
    (hF : C10.Consistent F f) (hP : C10.PoolLawful pmap) (xs : List α)
    (vec : Bool) (chunk : Option Int) (pool : Bool) (n : Nat)
    (hchunk : ∀ c, chunk = some c → 0 ≤ c) (hn : 1 ≤ n) :
    batchEval F f pmap vec chunk pool (some n) xs = .ok (xs.map f) := by
  obtain ⟨out, h⟩ := C10.batchEval_total F f pmap vec chunk pool (some n) xs hchunk
    (fun _ _ _ => ⟨n, rfl, hn⟩)
  rw [h, C10.batchEval_eq_map F f pmap hF hP vec chunk pool (some n) xs out h]

/-- non-vacuity: two different settings on a concrete batch -/
example : (batchEval (fun b => b.map (· * 2)) (· * 2) (fun g ys => ys.map g) true (some 2) true (some 3) [1, 2, 3, 4, 5]).toOption
    = (batchEval (fun b => b.map (· * 2)) (· * 2) (fun g ys => ys.map g) false none false none [1, 2, 3, 4, 5]).toOption := by
  decide +kernel

/-- Without batch-consistency the chunk size does change the values: a "likelihood" that adds the batch length. -/
theorem values_independent_fails_without_consistent :
    ∃ (F : List Nat → List Nat) (pmap : (List Nat → List Nat) → List (List Nat) → List (List Nat)),
      C10.PoolLawful pmap ∧
      (batchEval F (· + 1) pmap true (some 1) false none [1, 2, 3]).toOption
        ≠ (batchEval F (· + 1) pmap true none false none [1, 2, 3]).toOption :=
  ⟨fun b => b.map (· + b.length), fun g ys => ys.map g, fun _ _ => rfl, by decide +kernel⟩

/-- Without an order-preserving `pool.map` the pool changes the values: a pool that returns the chunks reversed. -/
theorem values_independent_fails_without_lawful_pool :
    ∃ (pmap : (List Nat → List Nat) → List (List Nat) → List (List Nat)),
      C10.Consistent (fun b : List Nat => b.map (· + 1)) (· + 1) ∧
      (batchEval (fun b => b.map (· + 1)) (· + 1) pmap true (some 1) true (some 2) [1, 2, 3]).toOption
        ≠ (batchEval (fun b => b.map (· + 1)) (· + 1) pmap true (some 1) false none [1, 2, 3]).toOption :=
  ⟨fun g ys => (ys.map g).reverse, fun _ => rfl, by decide +kernel⟩

/-! ### every random-number site is seeded -/

/-- `configure_random_seed` seeds both global generators nessai draws from. -/
theorem seed_covers_numpy_and_torch :
    Gen.Tables.seededSources.contains .numpyGlobal = true ∧ Gen.Tables.seededSources.contains .torchGlobal = true := by
  decide

/-- Every random-number site of the package (NumPy, torch, scipy `rvs`, `.sample…` of flows, generator
constructions, stdlib `random`, OS entropy) draws from a generator that `configure_random_seed` seeds, or
constructs a generator with an explicit seed; no site builds an unseeded generator, passes its own generator,
uses the `random` module or OS entropy (the exception list is empty).  Partial: that the third-party
`.sample…` methods (`delegated` rows) draw from the default torch generator is assumed. -/
theorem rng_sites_seeded : ∀ s ∈ Gen.Tables.rngSites, siteOk Gen.Tables.seededSources s = true := by decide

example : Gen.Tables.rngSites.length ≥ 40 ∧
    siteOk Gen.Tables.seededSources ⟨"nessai/proposal/flowproposal.py", "FlowProposal.populate", 1, "numpy.random.default_rng", .construct, .freshUnseeded⟩ = false ∧
    siteOk Gen.Tables.seededSources ⟨"nessai/proposal/flowproposal.py", "FlowProposal.populate", 1, "random.random", .draw, .stdlibRandom⟩ = false ∧
    siteOk [.numpyGlobal] ⟨"nessai/flowmodel/base.py", "FlowModel._train", 410, "torch.randperm", .draw, .torchGlobal⟩ = false ∧
    siteOk Gen.Tables.seededSources ⟨"nessai/flowmodel/base.py", "FlowModel._train", 410, "torch.randperm", .draw, .torchGlobal⟩ = true := by
  decide

/-! ### `configure_random_seed`: the user's seed is used, whatever its value -/

/-- The branch of `configure_random_seed` that REPLACES the seed by a random one (its condition is regenerated from the
source) is taken exactly when the seed is `None` — for every integer seed, including `0`, the user's value is kept. -/
theorem seed_replaced_iff_none : ∀ s : Option Int, Gen.Tables.seedReplaced s = s.isNone := by
  intro s; cases s <;> rfl

/-- the edge seeds of the digest runs, by evaluation -/
example : Gen.Tables.seedReplaced (some 0) = false ∧ Gen.Tables.seedReplaced (some 1) = false ∧
    Gen.Tables.seedReplaced (some 4294967294) = false ∧ Gen.Tables.seedReplaced none = true := by decide

/-- …whereas the truthiness test `if not seed:` would replace the legal seed 0 (what the theorem above excludes). -/
theorem seed_kept_fails_without_is_none_test : (!pyTruthy (some 0)) = true ∧ (some (0 : Int)).isNone = false := by decide

/-- In `configure_random_seed` the argument is rebound only inside the replacement branch, `self.seed` stores exactly
the argument, and afterwards — as top-level statements, hence on every path — both the NumPy and the torch global
generators are seeded with that stored value. -/
theorem seeding_unconditional_with_stored_seed :
    seedingOk Gen.Tables.seedBinds Gen.Tables.seedCalls = true := by decide

example : seedingOk [⟨5, "self.seed", "seed", false⟩] [⟨6, "numpy.random.seed", .numpyGlobal, "self.seed", true⟩] = false ∧
    seedingOk [⟨5, "self.seed", "seed", false⟩, ⟨4, "seed", "seed or 1", false⟩]
      [⟨6, "numpy.random.seed", .numpyGlobal, "self.seed", true⟩, ⟨7, "torch.manual_seed", .torchGlobal, "self.seed", true⟩] = false ∧
    seedingOk [⟨5, "self.seed", "seed", false⟩]
      [⟨6, "numpy.random.seed", .numpyGlobal, "self.seed", true⟩, ⟨7, "torch.manual_seed", .torchGlobal, "self.seed", false⟩] = false := by
  decide

/-! ### seeding happens before the first draw that matters -/

/-- In the constructor chain of a new run (`FlowSampler.__init__` → `NestedSampler.__init__` /
`ImportanceNestedSampler.__init__` → `BaseNestedSampler.__init__`, expanded in execution order from the source)
`configure_random_seed` is called exactly once, and the only call before it that can draw random numbers is
`model.verify_model()`, whose draws are discarded.  Every other drawing call of the constructors — and everything
`FlowSampler.run` does afterwards — comes after the generators have been seeded.
Partial: "can draw" is by callee name over a name-based call graph; that `verify_model` leaves nothing behind that
depends on its draws is read from the source and observed by the digest runs (each starts from a different ambient
generator state), not proved; the resume branch of `FlowSampler.__init__` is not part of the chain. -/
theorem seeded_before_first_draw_partial :
    chainSeedsFirst Gen.Tables.constructorChainStandard = true ∧
    chainSeedsFirst Gen.Tables.constructorChainImportance = true := by decide

/-- non-vacuity: the chains are long, do contain a pre-seed draw, and the predicate rejects a drawing call moved in
front of the seeding step, a chain that never seeds, and one that seeds twice -/
example : Gen.Tables.constructorChainStandard.length ≥ 20 ∧
    (Gen.Tables.constructorChainStandard.takeWhile (fun s => !s.seeds)).any (·.draws) = true ∧
    chainSeedsFirst [⟨0, "nessai/samplers/base.py", "BaseNestedSampler.__init__", 90, "self.model.new_point", true, false⟩,
                     ⟨1, "nessai/samplers/base.py", "BaseNestedSampler.__init__", 109, "self.configure_random_seed", false, true⟩] = false ∧
    chainSeedsFirst [⟨0, "nessai/samplers/base.py", "BaseNestedSampler.__init__", 88, "model.verify_model", true, false⟩] = false ∧
    chainSeedsFirst [⟨0, "a", "b", 1, "self.configure_random_seed", false, true⟩,
                     ⟨1, "a", "b", 2, "self.configure_random_seed", false, true⟩] = false := by decide

/-! ### the one interference: the vectorisation probe -/

/-- The only draws of random numbers whose execution is conditional on a parallelisation setting are those of the
vectorisation probe (`Model.vectorised_likelihood` behind `allow_vectorised`).  Partial: "draws" are found through a
name-based call graph (over-approximate callee resolution, constructors not followed). -/
theorem guarded_draws_only_probe_partial : ∀ g ∈ Gen.Tables.guardedDraws, guardedKnown g = true := by decide

example : Gen.Tables.guardedDraws.length ≥ 1 ∧
    guardedKnown ⟨"nessai/samplers/nestedsampler.py", "NestedSampler.populate_live_points", 1, "n_pool", "self.model.new_point"⟩ = false := by
  decide

/-- **The probe consumes the same random numbers whatever the pool settings are — provided the pool's size is known.**
For a fresh or identically cached model: with no pool, with `n_pool`, or with a user pool whose size is found
(`detected = some n`, `n ≥ 1`) or given, the number of prior points the probe draws from the seeded generator and the
`vectorised` flag it yields are those of the run without any pool.  (Partial: a statement about this model of
`configure_pool` + the probe, tied to the real methods by the correspondence.) -/
theorem probe_independent_of_pool_settings_partial (allow0 : Bool) (a : PoolArgs) (cached : Option Bool) (isVec : Bool)
    (hknown : a.userPool = true → (∃ n, a.detected = some n) ∨ truthy a.nPoolArg = true) :
    probe (configurePool allow0 a).1 cached isVec = probe (configurePool allow0 ⟨false, none, none⟩).1 cached isVec := by
  have hallow : (configurePool allow0 a).1 = allow0 := by
    unfold configurePool
    cases hu : a.userPool
    · simp; split <;> rfl
    · rcases hknown hu with ⟨n, hn⟩ | hn
      · simp [hn]; split <;> rfl
      · simp [hn]; split <;> rfl
  rw [hallow]
  simp [configurePool, truthy]

example : probe (configurePool true ⟨true, some 3, none⟩).1 none true = (10, true, some true) := by decide

/-- …and it fails without that hypothesis: a user pool whose size can neither be detected nor was given makes
`configure_pool` switch `allow_vectorised` off, the probe is skipped, and the run consumes ten prior points fewer
from the seeded generator than the same run without a pool (KNOWN FINDING: such a pool changes the results). -/
theorem probe_independent_fails_without_known_pool_size :
    probeDraws true ⟨true, none, none⟩ none true = 0 ∧ probeDraws true ⟨false, none, none⟩ none true = 10 := by decide

/-- …and the cache matters: a `Model` instance that has already been through a run (`_vectorised_likelihood` cached)
skips the probe, so a second same-seed run that reuses the instance consumes ten prior points fewer than the first.
(Outside the property's domain — it compares equal model definitions, i.e. fresh instances; this is why every run of
the check builds a fresh `Model`.  Recorded as an observation only.) -/
theorem probe_independent_fails_without_fresh_model :
    probeDraws true ⟨false, none, none⟩ (some true) true = 0 ∧ probeDraws true ⟨false, none, none⟩ none true = 10 := by decide

end NessaiVerif.C14
