import NessaiVerif.Model.Quadrature
import Mathlib.Algebra.Order.Field.Basic
import Mathlib.Tactic.Ring
import Mathlib.Tactic.Linarith
import Mathlib.Tactic.FieldSimp
import Mathlib.Tactic.Positivity
/- Helper lemmas for C02 (any linearly ordered field). -/
namespace NessaiVerif.Quad

/-! ### schedules -/

theorem length_countdown (n : Nat) : (countdown n).length = n := by
  induction n with
  | zero => rfl
  | succ n ih => simp [countdown, ih]

theorem scheduleOnePass_of_le (len n : Nat) (hn : 1 ≤ n) (h : n ≤ len) :
    scheduleOnePass len n = .ok (List.replicate (len - n) n ++ countdown n) := by
  unfold scheduleOnePass
  have h0 : n ≠ 0 := by omega
  simp [h0, h, List.take_replicate]

theorem countdown_mem (n m : Nat) (h : m ∈ countdown n) : 1 ≤ m ∧ m ≤ n := by
  induction n with
  | zero => simp [countdown] at h
  | succ n ih =>
    simp only [countdown, List.mem_cons] at h
    rcases h with rfl | h
    · omega
    · have := ih h; omega

/-- every live count of the sampler's schedule is at least one when `n ≥ 1` -/
theorem scheduleIncr_pos (k n : Nat) (hn : 1 ≤ n) : ∀ m ∈ scheduleIncr k n, 1 ≤ m := by
  intro m hm
  simp only [scheduleIncr, List.mem_append, List.mem_replicate] at hm
  rcases hm with ⟨_, rfl⟩ | hm
  · exact hn
  · exact (countdown_mem n m hm).1

theorem length_scheduleIncr (k n : Nat) : (scheduleIncr k n).length = k + n := by
  simp [scheduleIncr, length_countdown]

section field
variable {K : Type} [Field K]

/-! ### volumes -/

theorem volsFrom_cons (w t : K) (ts : List K) :
    volsFrom w (t :: ts) = w :: volsFrom (w * t) ts := rfl

theorem cumprodFrom_append (w : K) (as bs : List K) :
    cumprodFrom w (as ++ bs) = cumprodFrom w as ++ cumprodFrom ((volsFrom w as).getLastD w) bs := by
  induction as generalizing w with
  | nil => simp [cumprodFrom, volsFrom]
  | cons a as ih =>
    simp only [List.cons_append, cumprodFrom, ih, volsFrom]
    cases as <;> simp [cumprodFrom, List.getLastD]

/-! ### the incremental fold -/

/-- resolved live counts of a list of `increment` arguments -/
def resolved (base : Nat) (args : List (K × Option Nat)) : List Nat :=
  args.map fun a => a.2.getD base

theorem incrMany_spec (shrink : Nat → K) (s : St K) (args : List (K × Option Nat)) :
    let ts := (resolved s.base args).map shrink
    let r := s.incrMany shrink args
    r.base = s.base ∧ r.ns = s.ns ++ resolved s.base args ∧ r.Ls = s.Ls ++ args.map (·.1) ∧
    r.Xs = s.Xs ++ cumprodFrom s.w ts ∧ r.w = (volsFrom s.w ts).getLastD s.w ∧
    r.Z = s.Z + rectOnePass (args.map (·.1)) (volsFrom s.w ts) := by
  induction args generalizing s with
  | nil => simp [St.incrMany, resolved, cumprodFrom, volsFrom, rectOnePass, dot, diffs]
  | cons a rest ih =>
    obtain ⟨L, n⟩ := a
    have h := ih (s.increment shrink L n)
    simp only [St.incrMany]
    simp only [St.increment, resolved] at h ⊢
    obtain ⟨h1, h2, h3, h4, h5, h6⟩ := h
    refine ⟨h1, ?_, ?_, ?_, ?_, ?_⟩
    · simp [h2]
    · simp [h3]
    · simp [h4, cumprodFrom]
    · rw [h5]
      simp only [List.map_cons, volsFrom, cumprodFrom]
      cases hc : cumprodFrom (s.w * shrink (n.getD s.base))
        (List.map shrink (List.map (fun a => a.2.getD s.base) rest)) <;> simp [List.getLastD]
    · rw [h6]
      simp only [List.map_cons, volsFrom, cumprodFrom, rectOnePass, diffs, dot]
      ring

omit [Field K] in
theorem consume_eq (s : St K) (dead : List K) :
    resolved s.base (dead.map fun L => ((L, none) : K × Option Nat)) = List.replicate dead.length s.base := by
  induction dead with
  | nil => rfl
  | cons d ds ih => simp [resolved, List.replicate_succ] at ih ⊢; exact ih

theorem finaliseLoopFrom_eq (shrink : Nat → K) (n i : Nat) (s : St K) (live : List K) :
    finaliseLoopFrom shrink n i s live =
      s.incrMany shrink (live.zipIdx.map fun p => (p.1, some (n - (i + p.2)))) := by
  induction live generalizing i s with
  | nil => rfl
  | cons p ps ih =>
    simp only [finaliseLoopFrom, List.zipIdx_cons, List.map_cons, St.incrMany, Nat.add_zero]
    rw [ih]
    congr 1
    rw [List.zipIdx_succ, List.map_map]
    apply List.map_congr_left
    intro a _
    simp only [Function.comp]
    congr 3
    omega

omit [Field K] in
theorem loop_counts (n i : Nat) (base : Nat) (live : List K) (h : i + live.length = n) :
    resolved base ((live.zipIdx (0 : Nat)).map fun p => ((p.1, some (n - (i + p.2))) : K × Option Nat)) =
      countdown live.length := by
  induction live generalizing i with
  | nil => rfl
  | cons p ps ih =>
    simp only [List.length_cons] at h
    have := ih (i + 1) (by omega)
    simp only [resolved, List.zipIdx_cons, List.map_cons, List.map_map, List.length_cons, countdown,
      Option.getD_some, Nat.add_zero] at this ⊢
    refine congrArg₂ _ (by omega) ?_
    rw [← this, List.zipIdx_succ, List.map_map]
    apply List.map_congr_left
    intro a _
    simp only [Function.comp, Option.getD_some]
    omega

omit [Field K] in
theorem loop_vals (n i : Nat) (live : List K) :
    ((live.zipIdx (0 : Nat)).map fun p => ((p.1, some (n - (i + p.2))) : K × Option Nat)).map (·.1) = live := by
  rw [List.map_map]
  have : ((fun x : K × Option Nat => x.1) ∘ fun p : K × Nat => (p.1, some (n - (i + p.2)))) = Prod.fst := rfl
  rw [this]
  exact List.zipIdx_map_fst 0 live

/-! ### trapezoid algebra -/

theorem dot_map_mul_left (c : K) (as bs : List K) : dot (as.map (c * ·)) bs = c * dot as bs := by
  induction as generalizing bs with
  | nil => simp [dot]
  | cons a as ih =>
    cases bs with
    | nil => simp [dot]
    | cons b bs => simp only [List.map_cons, dot, ih]; ring

theorem avgs_map_mul (c : K) (f : List K) : avgs (f.map (c * ·)) = (avgs f).map (c * ·) := by
  induction f with
  | nil => rfl
  | cons a f ih =>
    cases f with
    | nil => rfl
    | cons b f =>
      simp only [List.map_cons, avgs] at ih ⊢
      rw [ih]
      congr 1
      ring

theorem trap_map_mul (c : K) (f X : List K) : trap (f.map (c * ·)) X = c * trap f X := by
  simp [trap, avgs_map_mul, dot_map_mul_left]

theorem postWeights_map_mul (c : K) (hc : c ≠ 0) (L X : List K) (Z : K) :
    postWeights (L.map (c * ·)) X (c * Z) = postWeights L X Z := by
  unfold postWeights
  rw [← List.map_tail, ← List.map_dropLast, List.zipWith_map_left]
  congr 1
  funext l d
  rw [mul_assoc, mul_div_mul_left _ _ hc]

/-! ### closed forms -/

theorem diffs_concat (xs : List K) (a : K) (h : xs ≠ []) :
    diffs (xs ++ [a]) = diffs xs ++ [xs.getLast h - a] := by
  induction xs with
  | nil => exact absurd rfl h
  | cons x xs ih =>
    cases xs with
    | nil => simp [diffs]
    | cons y ys =>
      have := ih (by simp)
      simp only [List.cons_append, diffs] at this ⊢
      rw [this]
      simp

theorem sumL_zipWith_div (Z : K) (as bs : List K) :
    sumL (List.zipWith (fun l d => l * d / Z) as bs) = dot as bs / Z := by
  induction as generalizing bs with
  | nil => simp [sumL, dot]
  | cons a as ih =>
    cases bs with
    | nil => simp [sumL, dot]
    | cons b bs => simp only [List.zipWith_cons_cons, sumL, dot, ih, add_div]

theorem weights_eq (samples ts : List K) :
    weights samples ts =
      List.zipWith (fun l d => l * d / evidence samples ts) samples (diffs (vols ts)) := by
  unfold weights postWeights closedL closedX
  have hne : vols ts ≠ [] := by simp [vols, volsFrom]
  rw [diffs_concat _ _ hne]
  simp

theorem getLastD_zero_cons (ls : List K) : ((0 : K) :: ls).getLastD 0 = ls.getLastD 0 := by
  cases ls <;> simp [List.getLastD]

/-- what `finalise` and `log_posterior_weights` return, for ANY sequence of `increment` calls -/
theorem state_closed (shrink : Nat → K) (base : Nat) (args : List (K × Option Nat)) :
    let s := (St.init base : St K).incrMany shrink args
    let ls := args.map (·.1)
    let ts := (resolved base args).map shrink
    s.finalise = evidence ls ts ∧ s.postW = weights ls ts ∧ s.Xs = vols ts ∧
      s.Z = rectOnePass ls (vols ts) ∧ s.ns = resolved base args ∧ s.Ls = 0 :: ls := by
  have h := incrMany_spec shrink (St.init base : St K) args
  simp only [St.init] at h
  obtain ⟨_, h2, h3, h4, _, h6⟩ := h
  simp only [St.init]
  refine ⟨?_, ?_, ?_, ?_, ?_, ?_⟩
  · simp only [St.finalise, evidence, closedL, closedX, h3, h4, vols, volsFrom]
    rw [show ([0] ++ List.map (fun x => x.1) args) = (0 : K) :: List.map (fun x => x.1) args from rfl,
      getLastD_zero_cons]
    simp
  · simp only [St.postW, weights, evidence, closedL, closedX, h3, h4, vols, volsFrom]
    rw [show ([0] ++ List.map (fun x => x.1) args) = (0 : K) :: List.map (fun x => x.1) args from rfl,
      getLastD_zero_cons]
    simp
  · simpa [vols, volsFrom] using h4
  · simpa [vols] using h6
  · simpa using h2
  · simpa using h3

theorem sampler_eq_incrMany (shrink : Nat → K) (n : Nat) (dead live : List K) :
    sampler shrink n dead live = (St.init n : St K).incrMany shrink
      ((dead.map fun L => (L, none)) ++ (live.zipIdx.map fun p => (p.1, some (n - (0 + p.2))))) := by
  unfold sampler consume
  rw [finaliseLoopFrom_eq]
  generalize (St.init n : St K) = s
  generalize (List.map (fun p : K × Nat => (p.1, some (n - (0 + p.2)))) live.zipIdx) = b
  induction (List.map (fun L => ((L, none) : K × Option Nat)) dead) generalizing s with
  | nil => rfl
  | cons a as ih => obtain ⟨L, m⟩ := a; simp only [List.cons_append, St.incrMany]; exact ih _

omit [Field K] in
theorem resolved_append (base : Nat) (a b : List (K × Option Nat)) :
    resolved base (a ++ b) = resolved base a ++ resolved base b := by
  simp [resolved]

omit [Field K] in
theorem resolved_zip_some (base : Nat) (Ls : List K) (ns : List Nat) (h : ns.length = Ls.length) :
    resolved base (Ls.zip (ns.map some)) = ns ∧ (Ls.zip (ns.map some)).map (·.1) = Ls := by
  induction Ls generalizing ns with
  | nil => cases ns <;> simp_all [resolved]
  | cons L Ls ih =>
    cases ns with
    | nil => simp at h
    | cons m ns =>
      have := ih ns (by simpa using h)
      simp only [resolved] at this ⊢
      simp [this.1, this.2]

theorem getLastD_map_mul (c : K) (ls : List K) :
    (ls.map (c * ·)).getLastD 0 = c * ls.getLastD 0 := by
  induction ls with
  | nil => simp
  | cons a as ih =>
    cases as with
    | nil => simp
    | cons b bs => simpa [List.getLastD] using ih

theorem closedL_map_mul (c : K) (ls : List K) : closedL (ls.map (c * ·)) = (closedL ls).map (c * ·) := by
  unfold closedL
  rw [getLastD_map_mul]
  simp

theorem evidence_map_mul (c : K) (ls ts : List K) :
    evidence (ls.map (c * ·)) ts = c * evidence ls ts := by
  simp [evidence, closedL_map_mul, trap_map_mul]

theorem weights_map_mul (c : K) (hc : c ≠ 0) (ls ts : List K) :
    weights (ls.map (c * ·)) ts = weights ls ts := by
  simp only [weights, evidence_map_mul, closedL_map_mul]
  exact postWeights_map_mul c hc _ _ _

end field

section ordered
variable {K : Type} [Field K] [LinearOrder K] [IsStrictOrderedRing K]

def Unit01 (ts : List K) : Prop := ∀ t ∈ ts, 0 < t ∧ t < 1

omit [IsStrictOrderedRing K] in
theorem unit01_of_sched (shrink : Nat → K) (hs : ∀ m, 1 ≤ m → 0 < shrink m ∧ shrink m < 1)
    (ns : List Nat) (h : ∀ m ∈ ns, 1 ≤ m) : Unit01 (ns.map shrink) := by
  intro t ht
  simp only [List.mem_map] at ht
  obtain ⟨m, hm, rfl⟩ := ht
  exact hs m (h m hm)

theorem cumprodFrom_bounds (w : K) (hw : 0 < w) (ts : List K) (h : Unit01 ts) :
    ∀ x ∈ cumprodFrom w ts, 0 < x ∧ x < w := by
  induction ts generalizing w with
  | nil => simp [cumprodFrom]
  | cons t ts ih =>
    have ht := h t (by simp)
    have hpos : 0 < w * t := mul_pos hw ht.1
    have hlt : w * t < w := by nlinarith [ht.2]
    intro x hx
    simp only [cumprodFrom, List.mem_cons] at hx
    rcases hx with rfl | hx
    · exact ⟨hpos, hlt⟩
    · have := ih (w * t) hpos (fun u hu => h u (by simp [hu])) x hx
      exact ⟨this.1, lt_trans this.2 hlt⟩

theorem volsFrom_pairwise (w : K) (hw : 0 < w) (ts : List K) (h : Unit01 ts) :
    (volsFrom w ts).Pairwise (fun a b => b < a) := by
  induction ts generalizing w with
  | nil => simp [volsFrom, cumprodFrom]
  | cons t ts ih =>
    have ht := h t (by simp)
    have hpos : 0 < w * t := mul_pos hw ht.1
    have hlt : w * t < w := by nlinarith [ht.2]
    have hts : Unit01 ts := fun u hu => h u (by simp [hu])
    rw [volsFrom_cons, List.pairwise_cons]
    refine ⟨?_, ih (w * t) hpos hts⟩
    intro x hx
    simp only [volsFrom, List.mem_cons] at hx
    rcases hx with rfl | hx
    · exact hlt
    · exact lt_trans (cumprodFrom_bounds (w * t) hpos ts hts x hx).2 hlt

theorem diffs_pos_of_pairwise (xs : List K) (h : xs.Pairwise (fun a b => b < a)) :
    ∀ d ∈ diffs xs, 0 < d := by
  induction xs with
  | nil => simp [diffs]
  | cons a xs ih =>
    cases xs with
    | nil => simp [diffs]
    | cons b xs =>
      rw [List.pairwise_cons] at h
      intro d hd
      simp only [diffs, List.mem_cons] at hd
      rcases hd with rfl | hd
      · exact sub_pos.mpr (h.1 b (by simp))
      · exact ih h.2 d hd

omit [LinearOrder K] [IsStrictOrderedRing K] in
theorem length_diffs (xs : List K) : (diffs xs).length = xs.length - 1 := by
  induction xs with
  | nil => rfl
  | cons a xs ih =>
    cases xs with
    | nil => rfl
    | cons b xs => simp [diffs, ih]

omit [LinearOrder K] [IsStrictOrderedRing K] in
theorem length_avgs (xs : List K) : (avgs xs).length = xs.length - 1 := by
  induction xs with
  | nil => rfl
  | cons a xs ih =>
    cases xs with
    | nil => rfl
    | cons b xs => simp [avgs, ih]

theorem avgs_nonneg (f : List K) (h : ∀ x ∈ f, 0 ≤ x) : ∀ a ∈ avgs f, 0 ≤ a := by
  induction f with
  | nil => simp [avgs]
  | cons a f ih =>
    cases f with
    | nil => simp [avgs]
    | cons b f =>
      intro x hx
      simp only [avgs, List.mem_cons] at hx
      rcases hx with rfl | hx
      · have ha := h a (by simp); have hb := h b (by simp)
        positivity
      · exact ih (fun y hy => h y (by simp [hy])) x hx

theorem avgs_exists_pos (f : List K) (h : ∀ x ∈ f, 0 ≤ x) (hlen : 2 ≤ f.length)
    (hex : ∃ x ∈ f, 0 < x) : ∃ a ∈ avgs f, 0 < a := by
  induction f with
  | nil => simp at hlen
  | cons a f ih =>
    cases f with
    | nil => simp at hlen
    | cons b f =>
      have ha := h a (by simp); have hb := h b (by simp)
      obtain ⟨x, hx, hxpos⟩ := hex
      simp only [List.mem_cons] at hx
      have two : (0 : K) < 1 + 1 := by positivity
      rcases hx with rfl | rfl | hx
      · exact ⟨(x + b) / (1 + 1), by simp [avgs], div_pos (by linarith) two⟩
      · exact ⟨(a + x) / (1 + 1), by simp [avgs], div_pos (by linarith) two⟩
      · cases f with
        | nil => simp at hx
        | cons c f =>
          obtain ⟨y, hy, hypos⟩ := ih (fun y hy => h y (by simp [hy])) (by simp)
            ⟨x, List.mem_cons_of_mem _ hx, hxpos⟩
          exact ⟨y, by simp only [avgs, List.mem_cons] at hy ⊢; exact Or.inr hy, hypos⟩

theorem dot_nonneg (as bs : List K) (ha : ∀ a ∈ as, 0 ≤ a) (hb : ∀ b ∈ bs, 0 < b) : 0 ≤ dot as bs := by
  induction as generalizing bs with
  | nil => simp [dot]
  | cons a as ih =>
    cases bs with
    | nil => simp [dot]
    | cons b bs =>
      simp only [dot]
      have := ih bs (fun x hx => ha x (by simp [hx])) (fun x hx => hb x (by simp [hx]))
      have h1 := ha a (by simp); have h2 := hb b (by simp)
      positivity

theorem dot_pos (as bs : List K) (ha : ∀ a ∈ as, 0 ≤ a) (hb : ∀ b ∈ bs, 0 < b)
    (hlen : as.length ≤ bs.length) (hex : ∃ a ∈ as, 0 < a) : 0 < dot as bs := by
  induction as generalizing bs with
  | nil => simp at hex
  | cons a as ih =>
    cases bs with
    | nil => simp at hlen
    | cons b bs =>
      simp only [dot]
      have h1 := ha a (by simp); have h2 := hb b (by simp)
      have hrest := dot_nonneg as bs (fun x hx => ha x (by simp [hx])) (fun x hx => hb x (by simp [hx]))
      obtain ⟨x, hx, hxpos⟩ := hex
      simp only [List.mem_cons] at hx
      rcases hx with rfl | hx
      · have : 0 < x * b := mul_pos hxpos h2
        linarith
      · have := ih bs (fun x hx => ha x (by simp [hx])) (fun x hx => hb x (by simp [hx]))
          (by simpa using hlen) ⟨x, hx, hxpos⟩
        have : 0 ≤ a * b := by positivity
        linarith

/-- volumes followed by the closing point `X = 0` are strictly decreasing -/
theorem closed_vols_pairwise (ts : List K) (h : Unit01 ts) :
    (vols ts ++ [0]).Pairwise (fun a b => b < a) := by
  rw [List.pairwise_append]
  refine ⟨volsFrom_pairwise 1 one_pos ts h, by simp, ?_⟩
  intro a ha b hb
  simp only [List.mem_singleton] at hb
  subst hb
  simp only [vols, volsFrom, List.mem_cons] at ha
  rcases ha with rfl | ha
  · exact one_pos
  · exact (cumprodFrom_bounds 1 one_pos ts h a ha).1

omit [LinearOrder K] [IsStrictOrderedRing K] in
/-- every posterior weight is `l * d / Z` for a likelihood `l` and a volume difference `d` -/
theorem postWeights_mem (L X : List K) (Z : K) (w : K) (hw : w ∈ postWeights L X Z) :
    ∃ l ∈ L, ∃ d ∈ diffs X, w = l * d / Z := by
  unfold postWeights at hw
  rw [List.mem_iff_getElem] at hw
  obtain ⟨i, hi, rfl⟩ := hw
  simp only [List.getElem_zipWith]
  refine ⟨_, ?_, _, ?_, rfl⟩
  · exact List.mem_of_mem_tail (List.mem_of_mem_dropLast (List.getElem_mem _))
  · exact List.mem_of_mem_dropLast (List.getElem_mem _)

omit [IsStrictOrderedRing K] in
theorem getLastD_nonneg (ls : List K) (hL : ∀ l ∈ ls, 0 ≤ l) : 0 ≤ ls.getLastD 0 := by
  cases ls with
  | nil => simp
  | cons a as =>
    rw [List.getLastD_cons]
    cases h : as.getLast? with
    | none => simpa [List.getLastD_eq_getLast?, h] using hL a (by simp)
    | some x => simpa [List.getLastD_eq_getLast?, h] using hL x (List.mem_cons_of_mem _ (List.mem_of_getLast? h))

omit [IsStrictOrderedRing K] in
theorem closedL_nonneg (ls : List K) (hL : ∀ l ∈ ls, 0 ≤ l) : ∀ x ∈ closedL ls, 0 ≤ x := by
  intro x hx
  simp only [closedL, List.mem_append, List.mem_singleton] at hx
  rcases hx with (rfl | hx) | rfl
  · exact le_refl _
  · exact hL x hx
  · exact getLastD_nonneg ls hL

theorem evidence_nonneg (ls ts : List K) (hL : ∀ l ∈ ls, 0 ≤ l) (ht : Unit01 ts) :
    0 ≤ evidence ls ts :=
  dot_nonneg _ _ (avgs_nonneg _ (closedL_nonneg ls hL))
    (diffs_pos_of_pairwise _ (closed_vols_pairwise ts ht))

omit [LinearOrder K] [IsStrictOrderedRing K] in
theorem length_vols (ts : List K) : (vols ts).length = ts.length + 1 := by
  have : ∀ w : K, (cumprodFrom w ts).length = ts.length := by
    induction ts with
    | nil => intro w; rfl
    | cons t ts ih => intro w; simp [cumprodFrom, ih]
  simp [vols, volsFrom, this]

theorem evidence_pos (ls ts : List K) (hL : ∀ l ∈ ls, 0 ≤ l) (ht : Unit01 ts)
    (hlen : ls.length ≤ ts.length) (hex : ∃ l ∈ ls, 0 < l) : 0 < evidence ls ts := by
  unfold evidence trap
  apply dot_pos _ _ (avgs_nonneg _ (closedL_nonneg ls hL))
    (diffs_pos_of_pairwise _ (closed_vols_pairwise ts ht))
  · rw [length_avgs, length_diffs]
    simp only [closedL, List.length_append, length_vols, List.length_cons, List.length_nil]
    omega
  · apply avgs_exists_pos _ (closedL_nonneg ls hL)
    · simp [closedL]
    · obtain ⟨l, hl, hpos⟩ := hex
      exact ⟨l, by simp [closedL, hl], hpos⟩

theorem weights_nonneg (ls ts : List K) (hL : ∀ l ∈ ls, 0 ≤ l) (ht : Unit01 ts) :
    ∀ w ∈ weights ls ts, 0 ≤ w := by
  intro w hw
  obtain ⟨l, hl, d, hd, rfl⟩ := postWeights_mem _ _ _ w hw
  have h1 := closedL_nonneg ls hL l hl
  have h2 := diffs_pos_of_pairwise _ (closed_vols_pairwise ts ht) d hd
  have h3 := evidence_nonneg ls ts hL ht
  positivity

end ordered

/-- concrete data used by the `example`s of Props/C02 -/
theorem unit01_example : Unit01 [(1 : ℚ) / 2, 2 / 3] := by
  intro t ht; simp at ht; rcases ht with rfl | rfl <;> norm_num

theorem nonneg_example : ∀ l ∈ [(0 : ℚ), 3], 0 ≤ l := by
  intro l hl; simp at hl; rcases hl with rfl | rfl <;> norm_num

end NessaiVerif.Quad
