/-
C08 / C12 — the tail of `FlowModel.train` (nessai/flowmodel/base.py) as a three-operation state machine.

    if validate: self.model.load_state_dict(best_model)     -- restore the best-epoch weights
    self.finalise()                                          -- re-estimate what depends on the weights (LARS normalisation)
    self.save_weights(current_weights_file)                  -- write the weights (and buffers) to disk

State: which weights the model holds, for which weights the weight-dependent constant was computed, and what the
weights file holds.  Core Lean only.
-/
namespace NessaiVerif.FlowTrain

inductive Op | restoreBest | finalise | saveWeights
deriving DecidableEq, Repr

structure St where
  weights : Nat          -- identifier of the weights in the model
  normFor : Nat          -- identifier of the weights the normalisation constant was estimated for
  fileWeights : Option Nat
  fileNormFor : Option Nat
deriving DecidableEq, Repr

/-- after the last epoch: the model holds the last-epoch weights `last`, its constant is stale (`stale`), nothing saved -/
def St.afterLoop (last stale : Nat) : St := ⟨last, stale, none, none⟩

def step (best : Nat) (s : St) : Op → St
  | .restoreBest => { s with weights := best }
  | .finalise => { s with normFor := s.weights }
  | .saveWeights => { s with fileWeights := some s.weights, fileNormFor := some s.normFor }

def run (best : Nat) (s : St) (ops : List Op) : St := ops.foldl (step best) s

/-- what training must leave behind: the model holds the best weights with a constant computed for them, and the file on
disk (what a resume reloads) holds exactly that -/
def Good (best : Nat) (s : St) : Prop :=
  s.weights = best ∧ s.normFor = best ∧ s.fileWeights = some best ∧ s.fileNormFor = some best

instance (best : Nat) (s : St) : Decidable (Good best s) := by unfold Good; infer_instance

def canonical : List Op := [.restoreBest, .finalise, .saveWeights]

end NessaiVerif.FlowTrain
