#!/bin/bash
# usage: harness/seedtest.sh <worktree> <Cxx> [tier]   — run a check against another checkout, in a scratch COPY of this
# directory (generated Lean files, lake build and evidence are per-checkout state), so several can run in parallel and
# /verif itself always describes /repo.  Prints the VIOLATION / TIE-DOWNGRADED / summary lines and exit=<code>.
SRC="$(dirname "$(readlink -f "$0")")/.."
WT="$1"; P="$2"; TIER="${3:-quick}"
COPY=$(mktemp -d /tmp/seedtest-XXXXXX)
rsync -a --exclude replay --exclude .git "$SRC/" "$COPY/"; [ -x "$COPY/check" ] || exit 2
cd "$COPY"
TAG=$(basename "$(dirname "$WT")")-$(basename "$WT")
NESSAI_REPO="$WT" ./check "$P" --tier "$TIER" > "/tmp/seedtest-$TAG-$P.log" 2>&1
RC=$?
grep -a "VIOLATION\|TIE-DOWNGRADED\|^\[$P\]" "/tmp/seedtest-$TAG-$P.log" | grep -v "KNOWN-FINDING" | cut -c1-220 | tail -6
mkdir -p "$SRC/replay"; cp -n replay/*.json "$SRC/replay/" 2>/dev/null
echo "$TAG $P exit=$RC"
cd /; rm -rf "$COPY"
exit 0
