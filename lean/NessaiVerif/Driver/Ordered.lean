import NessaiVerif.Model.OrderedSamples
import NessaiVerif.Driver.Parse
/-
`os run <strict 0/1> <replAll 0/1> <op>;<op>;…` — runs an op sequence from a fresh store and prints the
state after every op, separated by `|`.  Ops: `init [key:id,…]`, `add [key:id,…]`, `thr k`, `remove`, `finalise`.
State rendering: `keys=[..] ids=[..] rows=[..] live=[..]|none nested=[..] ret=n|-` or `err=<kind>` (state unchanged).
-/
namespace NessaiVerif.Driver.Ordered
open NessaiVerif NessaiVerif.Parse NessaiVerif.Ordered

def parseSmp? (s : String) : Option (Smp × Nat) :=
  match s.splitOn ":" with
  | [k, i] => do
      let k ← parseInt? k
      let i ← parseNat? i
      some ({ key := k, id := i }, i)
  | [k, i, r] => do
      let k ← parseInt? k
      let i ← parseNat? i
      let r ← parseNat? r
      some ({ key := k, id := i }, r)
  | _ => none

def parseOp? (s : String) : Option Op :=
  match (s.splitOn " ").filter (· ≠ "") with
  | ["init", b] => (parseList? parseSmp? b).map Op.init
  | ["add", b] => (parseList? parseSmp? b).map Op.add
  | ["thr", t] => (parseInt? t).map Op.thr
  | ["remove"] => some Op.remove
  | ["finalise"] => some Op.finalise
  | _ => none

def showErr : Err → String
  | .typeErr => "err=type"
  | .valueErr => "err=value"
  | .runtimeErr => "err=runtime"

def showState (s : OS) (ret : Option Nat) : String :=
  let smp := s.samples.getD []
  s!"keys={showList toString (smp.map (·.key))} ids={showList toString (smp.map (·.id))} " ++
  s!"rows={showList toString s.rows} live={showOpt (showList toString) s.live} " ++
  s!"nested={showList toString s.nested} ret={showOpt toString ret}"

def runOps (s : OS) : List Op → List String
  | [] => []
  | op :: ops =>
    match step s op with
    | .ok (s', r) => showState s' r :: runOps s' ops
    | .error e => showErr e :: runOps s ops

def handle (toks : List String) : String :=
  match toks with
  | "run" :: st :: ra :: rest =>
    match parseBool? st, parseBool? ra with
    | some st, some ra =>
      let opsStr := " ".intercalate rest
      match (opsStr.splitOn ";").mapM parseOp? with
      | some ops => "|".intercalate (runOps { strict := st, replAll := ra } ops)
      | none => "bad-op"
    | _, _ => "bad-op"
  | _ => "bad-op"

end NessaiVerif.Driver.Ordered
