import NessaiVerif.Proofs.FlowAR
import Mathlib.Algebra.BigOperators.Fin
/-
C08 — the forward maps of `triLower` / `triUpper` are the products with the lower / upper triangular matrices
(diagonal `d`, strict part `A`), so `luLinear` computes `L (U x) + b`.
-/
namespace NessaiVerif.Flow
variable {L K : Type} [Field K] [AddCommGroup L] {n : Nat}

/-- the triangular matrix with diagonal `d` and strictly-lower part `A` -/
def lowerMat (d : Fin n → K) (A : Fin n → Fin n → K) (i j : Fin n) : K :=
  if j.val < i.val then A i j else if j = i then d i else 0

/-- the triangular matrix with diagonal `d` and strictly-upper part `A` -/
def upperMat (d : Fin n → K) (A : Fin n → Fin n → K) (i j : Fin n) : K :=
  if i.val < j.val then A i j else if j = i then d i else 0

theorem triLower_fwd_eq (lg : K → L) (d : Fin n → K) (A : Fin n → Fin n → K) (b x : Fin n → K) (i : Fin n) :
    ((triLower lg d A b).fwd x).1 i = (∑ j, lowerMat d A i j * x j) + b i := by
  simp only [triLower, autoregressive, lowerRow, List.sum_ofFn]
  have : ∀ j : Fin n, lowerMat d A i j * x j
      = (if j.val < i.val then A i j * x j else 0) + (if j = i then d i * x j else 0) := by
    intro j
    unfold lowerMat
    by_cases h1 : j.val < i.val
    · have : j ≠ i := fun h => by subst h; omega
      simp [h1, this]
    · by_cases h2 : j = i <;> simp [h1, h2]
  simp only [this, Finset.sum_add_distrib, Finset.sum_ite_eq', Finset.mem_univ, if_true]
  ring

theorem triUpper_fwd_eq (lg : K → L) (d : Fin n → K) (A : Fin n → Fin n → K) (b x : Fin n → K) (i : Fin n) :
    ((triUpper lg d A b).fwd x).1 i = (∑ j, upperMat d A i j * x j) + b i := by
  have h := triLower_fwd_eq lg (fun i => d (finRev i)) (fun i j => A (finRev i) (finRev j)) (fun i => b (finRev i))
    (fun k => x (finRev k)) (finRev i)
  simp only [triUpper, Transform.comp, permutation]
  rw [h, finRev_finRev]
  congr 1
  let e : Fin n ≃ Fin n := ⟨finRev, finRev, finRev_finRev, finRev_finRev⟩
  rw [← Equiv.sum_comp e (fun j => upperMat d A i j * x j)]
  apply Finset.sum_congr rfl
  intro j _
  show lowerMat _ _ (finRev i) j * x (finRev j) = upperMat d A i (finRev j) * x (finRev j)
  congr 1
  unfold lowerMat upperMat
  have hi := i.isLt
  have hj := j.isLt
  have e1 : (j.val < (finRev i).val) ↔ (i.val < (finRev j).val) := by simp only [finRev]; omega
  have e2 : (j = finRev i) ↔ (finRev j = i) := by
    constructor
    · intro h; rw [h, finRev_finRev]
    · intro h; rw [← h, finRev_finRev]
  by_cases h1 : j.val < (finRev i).val
  · simp [h1, e1.mp h1, finRev_finRev]
  · have h1' : ¬ i.val < (finRev j).val := fun h => h1 (e1.mpr h)
    by_cases h2 : j = finRev i
    · simp [h2, finRev_finRev]
    · have h2' : ¬ finRev j = i := fun h => h2 (e2.mpr h)
      simp [h1, h1', h2, h2']

/-- `luLinear` computes `lower @ (upper @ x) + bias` -/
theorem luLinear_fwd_eq (lg : K → L) (Lo : Fin n → Fin n → K) (ud : Fin n → K) (Up : Fin n → Fin n → K)
    (b x : Fin n → K) (i : Fin n) :
    ((luLinear lg Lo ud Up b).fwd x).1 i
      = (∑ j, lowerMat (fun _ => 1) Lo i j * (∑ k, upperMat ud Up j k * x k)) + b i := by
  simp only [luLinear, Transform.comp]
  rw [triLower_fwd_eq]
  congr 2
  funext j
  rw [triUpper_fwd_eq]
  simp

/-- the cached evaluation path: `luLinear` applies the product matrix `W = lower @ upper` -/
theorem luLinear_fwd_eq_cached (lg : K → L) (Lo : Fin n → Fin n → K) (ud : Fin n → K) (Up : Fin n → Fin n → K)
    (b x : Fin n → K) (i : Fin n) :
    ((luLinear lg Lo ud Up b).fwd x).1 i
      = (∑ k, (∑ j, lowerMat (fun _ => 1) Lo i j * upperMat ud Up j k) * x k) + b i := by
  rw [luLinear_fwd_eq]
  congr 1
  simp only [Finset.mul_sum, Finset.sum_mul]
  rw [Finset.sum_comm]
  apply Finset.sum_congr rfl
  intro k _
  apply Finset.sum_congr rfl
  intro j _
  ring

end NessaiVerif.Flow
