"""C20 — translator: interface-conformance tables of the post-sampling paths, generated from the nessai sources.

With Python `ast` over the package at `core.REPO`:
  * an index of every class (bases, methods with signatures, class attributes, every `self.x = …` target) and
    every module-level function of the package;
  * the set of methods reachable from the post-sampling roots (ROOTS) through `self.m(…)` calls and calls on
    objects whose class is known (declared in ATTR_TYPES, or inferred from `self.x = KnownClass(…)` /
    `v = KnownClass(…)` / `v = self.x`), never descending into CUT (the sampling loop itself);
  * for every call in those methods whose callee resolves inside the package: what the call site passes and the
    callee's signature  -> `callSites`;
  * for every attribute READ on `self` or on an object of known class: (caller, class, attribute) -> `attrReads`;
    and per class the attributes defined anywhere in its hierarchy -> `definedAttrs`.
The Lean side (Model/Term.lean: kwViolations, attrViolations) computes the violations; Props/C20.lean proves by
`decide` that they are exactly the listed known exceptions.
A source shape the translator cannot handle (a root that disappeared, a class hierarchy it cannot linearise) is
reported through `broken`.
"""
import ast
import hashlib
from pathlib import Path

ROOTS = [
    ("FlowSampler", "run_standard_sampler"),
    ("FlowSampler", "run_importance_nested_sampler"),
    ("ImportanceNestedSampler", "finalise"),
    ("ImportanceNestedSampler", "train_final_flow"),
    ("ImportanceNestedSampler", "adjust_final_samples"),
    ("ImportanceNestedSampler", "draw_final_samples"),
    ("ImportanceNestedSampler", "add_level_post_sampling"),
    ("ImportanceNestedSampler", "draw_posterior_samples"),
    ("ImportanceNestedSampler", "draw_more_nested_samples"),
    ("ImportanceNestedSampler", "get_result_dictionary"),
    ("NestedSampler", "finalise"),
    ("NestedSampler", "get_result_dictionary"),
]
# never descended into (the sampling loop itself and the user's model); calls TO them are still checked
CUT = {"nested_sampling_loop", "initialise"}
NO_DESCENT_CLASSES = {"Model"}
# classes of attributes that cannot be inferred from a constructor call (trusted declarations)
ATTR_TYPES = {
    ("FlowSampler.run_standard_sampler", "ns"): "NestedSampler",
    ("FlowSampler.run_importance_nested_sampler", "ns"): "ImportanceNestedSampler",
    ("ImportanceNestedSampler", "proposal"): "ImportanceFlowProposal",
    ("ImportanceNestedSampler", "model"): "Model",
    ("NestedSampler", "model"): "Model",
    ("ImportanceFlowProposal", "model"): "Model",
    ("ImportanceFlowProposal", "flow"): "ImportanceFlowModel",
    ("ImportanceNestedSampler", "state"): "_INSIntegralState",
    ("ImportanceNestedSampler", "final_state"): "_INSIntegralState",
    ("ImportanceNestedSampler", "_ordered_samples"): "OrderedSamples",
    ("ImportanceNestedSampler", "training_samples"): "OrderedSamples",
    ("ImportanceNestedSampler", "iid_samples"): "OrderedSamples",
    ("ImportanceNestedSampler", "_final_samples"): "OrderedSamples",
    ("OrderedSamples", "state"): "_INSIntegralState",
    ("NestedSampler", "state"): "_NSIntegralState",
}
EXTERNAL_OK_BASES = {"object", "ABC"}


class Untranslatable(Exception):
    pass


class Func:
    def __init__(self, node, module, owner=None):
        self.node, self.module, self.owner, self.name = node, module, owner, node.name
        decs = []
        for d in node.decorator_list:
            if isinstance(d, ast.Name):
                decs.append(d.id)
            elif isinstance(d, ast.Attribute):
                decs.append(d.attr)
            elif isinstance(d, ast.Call) and isinstance(d.func, ast.Name):
                decs.append(d.func.id)
        self.decorators = decs
        self.is_property = "property" in decs or "setter" in decs or "cached_property" in decs
        self.is_static = "staticmethod" in decs
        self.is_class = "classmethod" in decs

    def signature(self, bound):
        """(posParams, kwonly, required, varargs, varkw) with self/cls removed when `bound`"""
        a = self.node.args
        pos = [x.arg for x in a.posonlyargs + a.args]
        ndef = len(a.defaults)
        req = pos[: len(pos) - ndef] if ndef else list(pos)
        if bound and not self.is_static and pos:
            req = [r for r in req if r != pos[0]]
            pos = pos[1:]
        kwonly = [x.arg for x in a.kwonlyargs]
        req += [k.arg for k, d in zip(a.kwonlyargs, a.kw_defaults) if d is None]
        return pos, kwonly, req, a.vararg is not None, a.kwarg is not None


class Cls:
    def __init__(self, node, module):
        self.node, self.module, self.name = node, module, node.name
        self.bases = []
        for b in node.bases:
            if isinstance(b, ast.Name):
                self.bases.append(b.id)
            elif isinstance(b, ast.Attribute):
                self.bases.append(b.attr)
            else:
                self.bases.append("?")
        self.methods, self.class_attrs, self.self_attrs = {}, set(), set()
        self.attr_ctor = {}      # attr -> set of constructor names / None assigned to self.attr
        for st in node.body:
            if isinstance(st, (ast.FunctionDef, ast.AsyncFunctionDef)):
                f = Func(st, module, self)
                if st.name in self.methods and self.methods[st.name].is_property:
                    pass       # property setter: keep the getter
                else:
                    self.methods[st.name] = f
                for n in ast.walk(st):
                    for tgt in _store_targets(n):
                        if isinstance(tgt, ast.Attribute) and isinstance(tgt.value, ast.Name) and tgt.value.id in ("self", "cls"):
                            self.self_attrs.add(tgt.attr)
                    if isinstance(n, ast.Assign) and len(n.targets) == 1:
                        t = n.targets[0]
                        if isinstance(t, ast.Attribute) and isinstance(t.value, ast.Name) and t.value.id == "self":
                            self.attr_ctor.setdefault(t.attr, set()).add(_ctor_name(n.value))
            elif isinstance(st, ast.Assign):
                for t in st.targets:
                    for nm in ast.walk(t):
                        if isinstance(nm, ast.Name):
                            self.class_attrs.add(nm.id)
            elif isinstance(st, ast.AnnAssign) and isinstance(st.target, ast.Name):
                self.class_attrs.add(st.target.id)


def _store_targets(n):
    if isinstance(n, ast.Assign):
        out = []
        for t in n.targets:
            out += list(_flatten(t))
        return out
    if isinstance(n, (ast.AugAssign, ast.AnnAssign)):
        return list(_flatten(n.target))
    if isinstance(n, (ast.For, ast.AsyncFor)):
        return list(_flatten(n.target))
    if isinstance(n, (ast.With, ast.AsyncWith)):
        out = []
        for it in n.items:
            if it.optional_vars is not None:
                out += list(_flatten(it.optional_vars))
        return out
    return []


def _flatten(t):
    if isinstance(t, (ast.Tuple, ast.List)):
        for e in t.elts:
            yield from _flatten(e)
    elif isinstance(t, ast.Starred):
        yield from _flatten(t.value)
    else:
        yield t


def _ctor_name(v):
    if isinstance(v, ast.Constant) and v.value is None:
        return None
    if isinstance(v, ast.Call) and isinstance(v.func, ast.Name):
        return v.func.id
    return "?"


class Index:
    def __init__(self, repo):
        self.repo = Path(repo)
        self.classes, self.functions, self.sources = {}, {}, {}
        pkg = self.repo / "nessai"
        if not pkg.is_dir():
            raise Untranslatable(f"no package at {pkg}")
        for p in sorted(pkg.rglob("*.py")):
            rel = p.relative_to(self.repo).as_posix()
            if "/tests/" in rel or rel.endswith("conftest.py"):
                continue
            text = p.read_text()
            try:
                tree = ast.parse(text)
            except SyntaxError as e:
                raise Untranslatable(f"{rel}: {e}")
            self.sources[rel] = text
            for st in tree.body:
                if isinstance(st, ast.ClassDef):
                    self.classes.setdefault(st.name, []).append(Cls(st, rel))
                elif isinstance(st, (ast.FunctionDef, ast.AsyncFunctionDef)):
                    self.functions.setdefault(st.name, []).append(Func(st, rel))

    def cls(self, name):
        c = self.classes.get(name)
        return c[0] if c and len(c) == 1 else None

    def func(self, name):
        f = self.functions.get(name)
        return f[0] if f and len(f) == 1 else None

    def mro(self, name, seen=None):
        """(classes from `name` upwards, closed?)  closed = every base is inside the package (or object/ABC)"""
        seen = seen or set()
        c = self.cls(name)
        if c is None or name in seen:
            return [], False
        seen.add(name)
        out, closed = [c], True
        for b in c.bases:
            if b in EXTERNAL_OK_BASES:
                continue
            sub, cl = self.mro(b, seen)
            if not sub and b not in seen:
                closed = False
            closed = closed and (cl or b in seen)
            out += [s for s in sub if s not in out]
        return out, closed

    def find_method(self, cname, mname, after=None):
        chain, _ = self.mro(cname)
        if after is not None:
            names = [c.name for c in chain]
            chain = chain[names.index(after) + 1:] if after in names else []
        for c in chain:
            if mname in c.methods:
                return c.methods[mname]
        return None

    def defined(self, cname):
        chain, closed = self.mro(cname)
        d = set()
        for c in chain:
            d |= c.self_attrs | c.class_attrs | set(c.methods)
        return d, closed

    def attr_type(self, cname, attr, caller=None):
        if caller and (caller, attr) in ATTR_TYPES:
            return ATTR_TYPES[(caller, attr)]
        chain, _ = self.mro(cname)
        for c in chain:
            if (c.name, attr) in ATTR_TYPES:
                return ATTR_TYPES[(c.name, attr)]
        ctors = set()
        for c in chain:
            ctors |= c.attr_ctor.get(attr, set())
        ctors.discard(None)
        if len(ctors) == 1:
            (k,) = ctors
            if k != "?" and self.cls(k) is not None:
                return k
        return None


class Tables:
    def __init__(self, repo):
        self.ix = Index(repo)
        self.call_sites, self.attr_reads, self.dyn_defined = [], [], {}
        self.scope, self.unresolved_calls, self.files_used = [], 0, set()
        for c, m in ROOTS:
            if self.ix.cls(c) is None:
                raise Untranslatable(f"root class {c} not found (or defined more than once)")
            if self.ix.find_method(c, m) is None:
                raise Untranslatable(f"root method {c}.{m} not found")
        todo, seen = list(ROOTS), set()
        while todo:
            item = todo.pop(0)
            if item in seen:
                continue
            seen.add(item)
            f = self.ix.find_method(*item)
            if f is None or f.is_property and False:
                continue
            self.scope.append(item)
            for nxt in self.scan(item[0], f):
                if nxt not in seen and nxt[1] not in CUT and nxt[0] not in NO_DESCENT_CLASSES:
                    todo.append(nxt)
        self.call_sites = _dedupe(self.call_sites)
        self.attr_reads = _dedupe(self.attr_reads)

    # ------------------------------------------------------------------ one method
    def scan(self, ctx, f):
        """record call sites / attribute reads of method `f` analysed as a method of class `ctx`;
        returns the (class, method) pairs it calls"""
        ix = self.ix
        caller = f"{ctx}.{f.name}"
        self.files_used.add(f.module)
        selfname = None
        if not f.is_static:
            a = f.node.args
            allp = a.posonlyargs + a.args
            selfname = allp[0].arg if allp else None
        if f.is_class or f.owner is None:
            selfname = None
        local_types = {}
        for n in ast.walk(f.node):
            if isinstance(n, ast.Assign) and len(n.targets) == 1 and isinstance(n.targets[0], ast.Name):
                v, name = n.value, n.targets[0].id
                t = None
                if isinstance(v, ast.Call) and isinstance(v.func, ast.Name) and ix.cls(v.func.id) is not None:
                    t = v.func.id
                elif isinstance(v, ast.Attribute) and isinstance(v.value, ast.Name) and v.value.id == selfname:
                    t = ix.attr_type(ctx, v.attr, caller)
                local_types.setdefault(name, set()).add(t)
        # a local is typed only when every assignment to it agrees; loop / with / tuple targets untype it
        rebound = set()
        for n in ast.walk(f.node):
            if not isinstance(n, ast.Assign) or not (len(n.targets) == 1 and isinstance(n.targets[0], ast.Name)):
                for t in _store_targets(n):
                    if isinstance(t, ast.Name):
                        rebound.add(t.id)
        for a in f.node.args.posonlyargs + f.node.args.args + f.node.args.kwonlyargs:
            rebound.add(a.arg)
        ltypes = {k: next(iter(v)) for k, v in local_types.items() if len(v) == 1 and None not in v and k not in rebound}

        def typeof(e):
            if isinstance(e, ast.Name):
                if e.id == selfname:
                    return ctx
                return ltypes.get(e.id)
            if isinstance(e, ast.Attribute):
                t = typeof(e.value)
                if t is not None:
                    return ix.attr_type(t, e.attr, caller if t == ctx else None)
            return None

        called = []
        callee_funcs = set()
        for n in ast.walk(f.node):
            if isinstance(n, ast.Call):
                callee_funcs.add(id(n.func))
                res = self.resolve_call(n, ctx, f, typeof)
                if res is None:
                    self.unresolved_calls += 1
                    continue
                callee_name, func, bound, nxt = res
                pos, kwonly, req, va, vk = func.signature(bound) if func is not None else ([], [], [], False, False)
                npos = sum(1 for a in n.args if not isinstance(a, ast.Starred))
                star = any(isinstance(a, ast.Starred) for a in n.args) or any(k.arg is None for k in n.keywords)
                kws = [k.arg for k in n.keywords if k.arg is not None]
                self.call_sites.append((caller, callee_name, npos, star, tuple(kws), tuple(pos), tuple(kwonly), tuple(req), va, vk))
                if func is not None:
                    self.files_used.add(func.module)
                if nxt is not None:
                    called.append(nxt)
        for n in ast.walk(f.node):
            if isinstance(n, ast.Attribute) and not (n.attr.startswith("__") and n.attr.endswith("__")):
                t = typeof(n.value)
                if t is None:
                    continue
                if isinstance(n.ctx, ast.Load):
                    _, closed = ix.defined(t)
                    if closed:
                        self.attr_reads.append((caller, t, n.attr))
                        # a property read on the way is code that runs: descend into it
                        m = ix.find_method(t, n.attr)
                        if m is not None and m.is_property:
                            called.append((t, n.attr))
                elif isinstance(n.ctx, ast.Store) and t != ctx:
                    self.dyn_defined.setdefault(t, set()).add(n.attr)
            if isinstance(n, ast.AugAssign) and isinstance(n.target, ast.Attribute):
                t = typeof(n.target.value)
                if t is not None and ix.defined(t)[1]:
                    self.attr_reads.append((caller, t, n.target.attr))
        return called

    def resolve_call(self, n, ctx, f, typeof):
        """-> (callee display name, Func or None (object()), bound?, (class, method) to descend into or None)"""
        ix = self.ix
        fn = n.func
        if isinstance(fn, ast.Name):
            c = ix.cls(fn.id)
            if c is not None:
                chain, closed = ix.mro(c.name)
                init = ix.find_method(c.name, "__init__")
                if init is None:
                    if not closed:
                        return None
                    return (c.name, None, True, None)
                return (c.name, init, True, (c.name, "__init__"))
            g = ix.func(fn.id)
            if g is not None and fn.id not in _local_names(f.node):
                return (fn.id, g, False, None)
            return None
        if isinstance(fn, ast.Attribute):
            # super().m(...)
            v = fn.value
            if isinstance(v, ast.Call) and isinstance(v.func, ast.Name) and v.func.id == "super":
                owner = f.owner.name if f.owner else ctx
                m = ix.find_method(ctx, fn.attr, after=owner)
                if m is None or m.is_property:
                    return None
                return (f"{m.owner.name}.{m.name}", m, True, None)
            t = typeof(v)
            if t is None:
                return None
            m = ix.find_method(t, fn.attr)
            if m is None or m.is_property:
                return None     # undefined attribute: reported by the attribute table
            return (f"{t}.{m.name}", m, True, (t, m.name))
        return None

    # ------------------------------------------------------------------ output
    def defined_table(self):
        out = []
        for c in sorted({r[1] for r in self.attr_reads}):
            d, _ = self.ix.defined(c)
            d = set(d) | self.dyn_defined.get(c, set())
            out.append((c, sorted(d)))
        return out

    def violations(self):
        """the same computation as the Lean side (used to cross-check the driver)"""
        kv = []
        for (caller, callee, npos, star, kws, pos, kwonly, req, va, vk) in self.call_sites:
            bad = [] if vk else [k for k in kws if k not in pos and k not in kwonly]
            if not va and len(pos) < npos:
                bad.append("<positional>")
            if not star:
                sup = list(pos[:npos]) + list(kws)
                bad += ["missing:" + r for r in req if r not in sup]
            kv += [(caller, callee, k) for k in bad]
        d = dict(self.defined_table())
        av = [(a, c, x) for (a, c, x) in self.attr_reads if x not in d.get(c, [])]
        return kv, av

    def lean(self, validation=None):
        def s(x):
            return '"' + x.replace("\\", "\\\\").replace('"', '\\"') + '"'

        def sl(xs):
            return "[" + ", ".join(s(x) for x in xs) + "]"

        def b(x):
            return "true" if x else "false"

        hdr = ["/- GENERATED by harness/c20_tables.py from the nessai sources — do not edit by hand.",
               "   Regenerated on every run of ./check C20; written only when the text changes.",
               "   C20: interface-conformance tables of the post-sampling paths.",
               "   roots: " + ", ".join(f"{c}.{m}" for c, m in ROOTS),
               f"   methods analysed: {len(self.scope)}; call sites resolved inside the package: {len(self.call_sites)}; "
               f"attribute reads on objects of known class: {len(self.attr_reads)}",
               "   sources (path, sha256 of the text):"]
        for rel in sorted(self.files_used):
            hdr.append(f"     {rel}  {hashlib.sha256(self.ix.sources[rel].encode()).hexdigest()}")
        hdr.append("-/")
        out = hdr + ["import NessaiVerif.Model.Term", "namespace NessaiVerif.Gen.Term", "open NessaiVerif.Term", ""]
        out.append("/-- calls with a callee resolved inside the package: what the site passes / the callee's signature -/")
        out.append("def callSites : List CallSite := [")
        rows = []
        for (caller, callee, npos, star, kws, pos, kwonly, req, va, vk) in self.call_sites:
            rows.append(f"  ⟨{s(caller)}, {s(callee)}, {npos}, {b(star)}, {sl(kws)}, {sl(pos)}, {sl(kwonly)}, {sl(req)}, {b(va)}, {b(vk)}⟩")
        out.append(",\n".join(rows) + "]")
        out.append("")
        out.append("/-- attribute reads on `self` / on objects of known class -/")
        out.append("def attrReads : List AttrRead := [")
        out.append(",\n".join(f"  ⟨{s(a)}, {s(c)}, {s(x)}⟩" for a, c, x in self.attr_reads) + "]")
        out.append("")
        out.append("/-- per class: every name assigned to `self` anywhere in the hierarchy, methods, properties, class attributes -/")
        out.append("def definedAttrs : List (String × List String) := [")
        out.append(",\n".join(f"  ({s(c)}, {sl(d)})" for c, d in self.defined_table()) + "]")
        if validation is not None:
            out += ["", validation.lean()]
        out += ["", "end NessaiVerif.Gen.Term", ""]
        return "\n".join(out)


# ------------------------------------------------------------------------------------------------
# where option values are validated: `raise` sites reachable before / only after sampling starts
# ------------------------------------------------------------------------------------------------
OPTION_CLASSES = ["FlowSampler", "NestedSampler", "ImportanceNestedSampler", "BaseNestedSampler", "FlowProposal",
                  "AugmentedFlowProposal", "ImportanceFlowProposal", "RejectionProposal"]
OPTION_METHODS = [("FlowSampler", "run"), ("FlowSampler", "run_standard_sampler"), ("FlowSampler", "run_importance_nested_sampler"),
                  ("ImportanceNestedSampler", "draw_final_samples")]
OPTION_DATACLASSES = ["FlowConfig", "TrainingConfig"]
NOT_OPTIONS = {"self", "model", "output", "kwargs", "resume", "resume_file", "resume_data", "weights_file", "weights_path", "pool",
               "n_pool", "seed", "plot", "save", "flow", "flow_config", "training_config", "importance_nested_sampler"}
# up front = constructors (and what they call) of FlowSampler / both samplers / their proposals, plus NestedSampler.initialise
# (the standard sampler initialises its proposals, hence the flow, BEFORE drawing the live points); never past the drawing of
# the live points.  late = reachable from the sampling loops / run methods and NOT up front (the importance sampler draws its live
# points first and initialises its proposal afterwards)
UPFRONT_ROOTS = [("FlowSampler", "__init__"), ("NestedSampler", "__init__"), ("ImportanceNestedSampler", "__init__"),
                 ("FlowProposal", "__init__"), ("AugmentedFlowProposal", "__init__"), ("ImportanceFlowProposal", "__init__"),
                 ("RejectionProposal", "__init__"), ("NestedSampler", "initialise")]
UPFRONT_CUT = {"populate_live_points", "nested_sampling_loop"}
LATE_ROOTS = [("NestedSampler", "nested_sampling_loop"), ("NestedSampler", "populate_live_points"),
              ("ImportanceNestedSampler", "nested_sampling_loop"), ("FlowSampler", "run_standard_sampler"),
              ("FlowSampler", "run_importance_nested_sampler")]
REACH_TYPES = {("NestedSampler", "_flow_proposal"): "FlowProposal", ("NestedSampler", "_uninformed_proposal"): "RejectionProposal",
               ("NestedSampler", "proposal"): "FlowProposal", ("FlowProposal", "flow"): "FlowModel"}


class Reach(Tables):
    """closure of (class, method) / ("", function) pairs reachable from `roots`, descending into module-level functions too"""

    def __init__(self, ix, roots, cut):
        self.ix = ix
        self.call_sites, self.attr_reads, self.dyn_defined = [], [], {}
        self.scope, self.unresolved_calls, self.files_used = [], 0, set()
        saved = dict(ATTR_TYPES)
        ATTR_TYPES.update(REACH_TYPES)
        try:
            todo, seen = list(roots), set()
            while todo:
                item = todo.pop(0)
                if item in seen:
                    continue
                seen.add(item)
                f = self.lookup(item)
                if f is None:
                    continue
                self.scope.append(item)
                for nxt in self.scan(item[0], f):
                    if nxt not in seen and nxt[1] not in cut and nxt[0] not in NO_DESCENT_CLASSES:
                        todo.append(nxt)
        finally:
            ATTR_TYPES.clear()
            ATTR_TYPES.update(saved)

    def lookup(self, item):
        return self.ix.func(item[1]) if item[0] == "" else self.ix.find_method(*item)

    def resolve_call(self, n, ctx, f, typeof):
        res = super().resolve_call(n, ctx, f, typeof)
        if res is not None and res[3] is None and res[1] is not None and res[1].owner is None:
            return (res[0], res[1], res[2], ("", res[1].name))
        return res


def _parents(node):
    par = {}
    for n in ast.walk(node):
        for ch in ast.iter_child_nodes(n):
            par[ch] = n
    return par


class Validation:
    """raise sites whose guarding conditions mention an option, classified up front / late"""

    def __init__(self, ix):
        self.ix = ix
        opts = set()
        for c in OPTION_CLASSES:
            f = ix.find_method(c, "__init__")
            if f is None:
                raise Untranslatable(f"constructor of {c} not found")
            pos, kwo, _, _, _ = f.signature(True)
            opts |= set(pos) | set(kwo)
        for c, m in OPTION_METHODS:
            f = ix.find_method(c, m)
            if f is None:
                raise Untranslatable(f"{c}.{m} not found")
            pos, kwo, _, _, _ = f.signature(True)
            opts |= set(pos) | set(kwo)
        for c in OPTION_DATACLASSES:
            k = ix.cls(c)
            if k is None:
                raise Untranslatable(f"dataclass {c} not found")
            opts |= k.class_attrs
        self.options = opts - NOT_OPTIONS
        self.up = Reach(ix, UPFRONT_ROOTS, UPFRONT_CUT)
        self.late = Reach(ix, LATE_ROOTS, set())
        upset = set(self.up.scope)
        alias = {}
        for reach in (self.up, self.late):
            for item in reach.scope:
                f = reach.lookup(item)
                for n in ast.walk(f.node):
                    if not isinstance(n, ast.Call):
                        continue
                    name = n.func.attr if isinstance(n.func, ast.Attribute) else (n.func.id if isinstance(n.func, ast.Name) else None)
                    for k in n.keywords:
                        v = k.value
                        src = None
                        if isinstance(v, ast.Attribute) and isinstance(v.value, ast.Name) and v.value.id == "self":
                            src = v.attr.lstrip("_")
                        elif isinstance(v, ast.Name):
                            src = v.id
                        if k.arg is not None and src in self.options and k.arg != src:
                            alias.setdefault(name, {})[k.arg] = src
        self.alias = alias
        rows = []
        for phase, reach, keep in (("upfront", self.up, lambda it: True), ("late", self.late, lambda it: it not in upset)):
            for item in reach.scope:
                if not keep(item):
                    continue
                f = reach.lookup(item)
                site = f"{item[0]}.{f.name}" if item[0] else f.name
                amap = alias.get(f.name, {})
                par = _parents(f.node)
                for n in ast.walk(f.node):
                    if not isinstance(n, ast.Raise):
                        continue
                    ids, cur = set(), n
                    while cur in par:
                        p_ = par[cur]
                        if isinstance(p_, ast.If):
                            for t in ast.walk(p_.test):
                                if isinstance(t, ast.Attribute) and isinstance(t.value, ast.Name) and t.value.id == "self":
                                    ids.add(t.attr.lstrip("_"))
                                elif isinstance(t, ast.Name):
                                    ids.add(t.id)
                        cur = p_
                    exc = "?"
                    if isinstance(n.exc, ast.Call) and isinstance(n.exc.func, ast.Name):
                        exc = n.exc.func.id
                    elif isinstance(n.exc, ast.Name):
                        exc = n.exc.id
                    o = sorted({amap.get(i, i) for i in ids} & self.options)
                    if o:
                        rows.append((phase, site, exc, tuple(o)))
        self.rows = _dedupe(rows)

    def late_options(self):
        out = []
        for phase, _, _, o in self.rows:
            if phase == "late":
                out += [x for x in o if x not in out]
        return out

    def lean(self):
        def s(x):
            return '"' + x + '"'
        out = ["/-- `raise` statements guarded by a condition that mentions an option: phase \"upfront\" = reachable from the constructors /",
               "    NestedSampler.initialise before the live points are drawn; \"late\" = reachable only once sampling has started -/",
               "def raiseSites : List RaiseSite := ["]
        out.append(",\n".join(f"  ⟨{s(ph)}, {s(site)}, {s(exc)}, [{', '.join(s(x) for x in o)}]⟩" for ph, site, exc, o in self.rows) + "]")
        return "\n".join(out)


def _local_names(fnode):
    names = set()
    for n in ast.walk(fnode):
        for t in _store_targets(n):
            if isinstance(t, ast.Name):
                names.add(t.id)
    return names


def _dedupe(rows):
    seen, out = set(), []
    for r in rows:
        if r not in seen:
            seen.add(r)
            out.append(r)
    return out
