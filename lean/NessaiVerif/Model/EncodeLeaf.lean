import NessaiVerif.Model.Encode
/-
C19 — ASSUMED behaviour of the external layers below `hdf5_file[name] = value` (numpy's list→array coercion,
h5py's dtype support and what `dataset[()]` returns), as an executable table.  Nothing is proved about it; it is
validated against numpy/h5py by the correspondence on every run.  Numbers are compared by exact value
(`<odd mantissa>e<binary exponent>`), so int 1 and float 1.0 written into a float array agree.
-/
namespace NessaiVerif.Encode

def stripTwos : Nat → Nat → Int → Nat × Int
  | 0, m, e => (m, e)
  | fuel + 1, m, e => if m != 0 && m % 2 == 0 then stripTwos fuel (m / 2) (e + 1) else (m, e)

def tokOf (neg : Bool) (m : Nat) (e : Int) : String :=
  let s := if neg then "-" else ""
  if m == 0 then s ++ "0e0"
  else
    let (m', e') := stripTwos 1200 m e
    s ++ toString m' ++ "e" ++ toString e'

def tokOfInt (i : Int) : String := tokOf (i < 0) i.natAbs 0

/-- exact value of an IEEE-754 binary64 bit pattern -/
def tokOfBits (b : Nat) : String :=
  let neg := b / 2 ^ 63 % 2 == 1
  let ex : Nat := b / 2 ^ 52 % 2048
  let fr : Nat := b % 2 ^ 52
  if ex == 2047 then (if fr == 0 then (if neg then "-inf" else "inf") else "nan")
  else if ex == 0 then tokOf neg fr (-1074)
  else tokOf neg (fr + 2 ^ 52) (Int.ofNat ex - 1075)

/-- canonical scalar read back from a dataset -/
inductive Sc | num (tok : String) | bool (b : Bool) | str (s : String) | bad
deriving DecidableEq, Repr

def scOf : Tree → Sc
  | .int i => .num (tokOfInt i)
  | .float b => .num (tokOfBits b)
  | .bool b => .bool b
  | .str s => .str s
  | .npInt i => .num (tokOfInt i)
  | .npFloat _ b e => .num (e.getD (tokOfBits b))
  | .npBool b => .bool b
  | _ => .bad

def seqShape (n : Nat) : Option (List (List Nat)) → Option (List Nat)
  | none => none
  | some [] => some [0]
  | some (s :: ss) => if ss.all (· == s) then some (n :: s) else none

mutual
/-- shape numpy gives to nested sequences; `none` = inhomogeneous (ValueError) -/
def shapeOf : Tree → Option (List Nat)
  | .list xs => seqShape xs.length (shapesOf xs)
  | .tuple xs => seqShape xs.length (shapesOf xs)
  | .ndarray _ shape _ => some shape
  | .structured _ n _ => some [n]
  | _ => some []
def shapesOf : List Tree → Option (List (List Nat))
  | [] => some []
  | x :: xs => match shapeOf x, shapesOf xs with
    | some s, some ss => some (s :: ss)
    | _, _ => none
end

mutual
def flatOf : Tree → List Tree
  | .list xs => flatsOf xs
  | .tuple xs => flatsOf xs
  | .ndarray _ _ flat => flat
  | t => [t]
def flatsOf : List Tree → List Tree
  | [] => []
  | x :: xs => flatOf x ++ flatsOf xs
end

def cps (s : String) : String := ".".intercalate (s.toList.map (fun c => toString c.toNat))

def scTok (allBool : Bool) : Sc → String
  | .num t => "v:" ++ t
  | .bool b => if allBool then (if b then "b:1" else "b:0") else (if b then "v:1e0" else "v:0e0")
  | .str s => "s:" ++ cps s
  | .bad => "bad"

def isStr : Sc → Bool | .str _ => true | _ => false
def isBool : Sc → Bool | .bool _ => true | _ => false
def hasNul (s : String) : Bool := s.toList.any (· == Char.ofNat 0)
def scHasNul : Sc → Bool | .str s => hasNul s | _ => false

/-- tokens of an array with this shape holding these scalars; 0-d arrays read back as scalars -/
def arrToks (shape : List Nat) (scs : List Sc) : Except Err (List String) :=
  if scs.any (· == .bad) then .error .type
  else if scs.any isStr && !(scs.all isStr) then .error .type
  else if scs.any scHasNul then .error .value
  else
    let allBool := scs.all isBool && !scs.isEmpty
    let toks := scs.map (scTok allBool)
    match shape with
    | [] => .ok toks
    | _ => .ok (["A", toString shape.length] ++ shape.map toString ++ [toString toks.length] ++ toks)

/-- what is read back from the dataset written for a stored value (`sentinel` decoded by the reader) -/
def h5LeafToks (sentinel : String) : Tree → Except Err (List String)
  | .dict _ => .error .type
  | .none => .error .type                      -- never stored: encode_for_hdf5 replaced it
  | .str s => if hasNul s then .error .value else if s == sentinel then .ok ["N"] else .ok ["s:" ++ cps s]
  | .int i => if -(2 : Int) ^ 63 ≤ i ∧ i < (2 : Int) ^ 64 then .ok ["v:" ++ tokOfInt i] else .error .type
  | .float b => .ok ["v:" ++ tokOfBits b]
  | .bool b => .ok [if b then "b:1" else "b:0"]
  | .npInt i => .ok ["v:" ++ tokOfInt i]
  | .npFloat _ b e => .ok ["v:" ++ e.getD (tokOfBits b)]
  | .npBool b => .ok [if b then "b:1" else "b:0"]
  | .npStr _ => .error .type
  | .opaque _ => .error .type
  | .ndarray dt shape flat =>
    if dt == .ustr || dt == .obj then .error .type else arrToks shape (flat.map scOf)
  | .structured names nrows cells =>
    match arrToks [nrows, names.length] (cells.map scOf) with
    | .ok toks => .ok (["S", toString names.length] ++ names.map (fun n => "s:" ++ cps n) ++ toks)
    | .error e => .error e
  | .list xs =>
    match shapeOf (.list xs) with
    | none => .error .value
    | some shape => arrToks shape ((flatsOf xs).map scOf)
  | .tuple xs =>
    match shapeOf (.tuple xs) with
    | none => .error .value
    | some shape => arrToks shape ((flatsOf xs).map scOf)

mutual
/-- `add_dict_to_hdf5_file` up to the first key that is not a str (`path + key` raises TypeError there) -/
def flattenP (sentinel : String) : List (Key × Tree) → List (Path × Tree) × Option Err
  | [] => ([], none)
  | (k, v) :: rest =>
    match k with
    | .str s =>
      let (here, e1) := flattenPVal sentinel v
      let here' := here.map (fun e => (segs s ++ e.1, e.2))
      match e1 with
      | some e => (here', some e)
      | none => let (more, e2) := flattenP sentinel rest; (here' ++ more, e2)
    | _ => ([], some .type)
def flattenPVal (sentinel : String) : Tree → List (Path × Tree) × Option Err
  | .dict kvs => flattenP sentinel kvs
  | v => ([([], h5Encode sentinel v)], none)
end

/-- the writes in order: convert the value (numpy/h5py), then link the name -/
def writeSeq (sentinel : String) : List (Path × Tree) → Kids → Except Err Kids
  | [], f => .ok f
  | (p, v) :: rest, f =>
    match h5LeafToks sentinel v with
    | .error e => .error e
    | .ok _ =>
      match insertKids p v f with
      | .error e => .error e
      | .ok f' => writeSeq sentinel rest f'

def h5WriteFull (sentinel : String) (kvs : List (Key × Tree)) : Except Err Kids :=
  let (es, e) := flattenP sentinel kvs
  match writeSeq sentinel es [] with
  | .error e' => .error e'
  | .ok f => match e with
    | some e' => .error e'
    | none => .ok f

/-- the full HDF5 round trip at dictionary level: write (values converted by numpy/h5py, names linked), then
read groups as dicts and datasets as stored values with the sentinel decoded -/
def h5RoundTripFull (sentinel : String) (kvs : List (Key × Tree)) : Except Err Tree :=
  match h5WriteFull sentinel kvs with
  | .ok f => .ok (.dict (h5ReadKids sentinel f))
  | .error e => .error e

mutual
/-- what the reader sees in the file, leaf values in their canonical read-back form (tokens) -/
def h5ReadToks (sentinel : String) : H5 → Except Err (List String)
  | .ds v => h5LeafToks sentinel v
  | .grp kids => do
    let body ← h5ReadToksKids sentinel kids
    pure (["D", toString kids.length] ++ body)
def h5ReadToksKids (sentinel : String) : List (String × H5) → Except Err (List String)
  | [] => .ok []
  | (k, h) :: rest => do
    let a ← h5ReadToks sentinel h
    let b ← h5ReadToksKids sentinel rest
    pure (("ks:" ++ cps k) :: a ++ b)
end

/-- the stored form of a leaf is something numpy/h5py can write (and read back) -/
def leafOk (sentinel : String) (v : Tree) : Bool :=
  match h5LeafToks sentinel (h5Encode sentinel v) with
  | .ok _ => true
  | .error _ => false

mutual
/-- every leaf of the nested dictionary is writable: no arbitrary object, no None/ragged rows inside a list,
no mixed str/number list, … (the assumed numpy/h5py table `h5LeafToks`) -/
def LeavesOk (sentinel : String) : Tree → Prop
  | .dict kvs => LeavesOkKvs sentinel kvs
  | v => leafOk sentinel v = true
def LeavesOkKvs (sentinel : String) : List (Key × Tree) → Prop
  | [] => True
  | (_, v) :: rest => LeavesOk sentinel v ∧ LeavesOkKvs sentinel rest
end

end NessaiVerif.Encode
