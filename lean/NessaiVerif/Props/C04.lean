import NessaiVerif.Model.OrderedSamples
import NessaiVerif.Proofs.Ordered
import NessaiVerif.Gen.OrderedTx
import NessaiVerif.Gen.OrderedOps
/-
C04 — the INS sample store stays sorted, partitioned and aligned under all updates.
Property theorems only; lemmas are in Proofs/{InsertMany,MergeInsert,Ordered}.lean.
The model (Model/OrderedSamples.lean) is the literal index program of
`nessai.samplers.importancesampler.OrderedSamples`.

NOT MODELLED: keys are integers (`Smp.key : Int`), so NaN likelihoods have no counterpart (nessai rejects NaN
log-likelihoods before they reach the store); `-inf` likelihoods are ordinary smallest keys for NumPy's sort /
searchsorted / comparisons and are driven through the correspondence as the sentinel key -999.  States reached
after an exception are not explored.  There is no separate abstract "spec" object: the observational theorems
(`add_soft_observable`, `strict_live_eq`, `removed_count_eq`, `removed_all`, `finalise_moves_all`,
`insert_at_searchsorted_is_merge`) play that role.
-/
namespace NessaiVerif.C04
open NessaiVerif.Np NessaiVerif.Ordered

/-- samples contributed by an operation -/
def batchOf : Op → List Smp
  | .init b => b.map (·.1)
  | .add b => b.map (·.1)
  | _ => []

def isInit : Op → Bool
  | .init _ => true
  | _ => false

/-- rows of a batch are the rows of its samples (`r` = "the density row belonging to sample x") -/
def rowsOk (r : Smp → Nat) : Op → Prop
  | .init b => ∀ x ∈ b, x.2 = r x.1
  | .add b => ∀ x ∈ b, x.2 = r x.1
  | _ => True

/-- The structural clause of the property, in plain terms. -/
structure WellFormed (s : OS) (smp : List Smp) : Prop where
  stored : s.samples = some smp
  sorted : smp.Pairwise (fun a b => a.key ≤ b.key)
  live_strictly_increasing : (s.live.getD []).Pairwise (· < ·)
  nested_strictly_increasing : s.nested.Pairwise (· < ·)
  partition : ((s.live.getD []) ++ s.nested).Perm (List.range smp.length)
  rows_len : s.rows.length = smp.length

theorem wellFormed_of_inv {s : OS} {smp : List Smp} (h : Inv s smp) : WellFormed s smp :=
  ⟨h.hs, h.sorted.imp (fun h => by omega), h.liveInc, h.nestedInc, h.part, h.rowsLen⟩

/-- a state reachable by a history `init b; ops` (ops without a second initial insertion) that did not raise -/
def Reachable (s : OS) : Prop :=
  ∃ (st ra : Bool) (b : List (Smp × Nat)) (ops : List Op),
    (∀ op ∈ ops, isInit op = false) ∧ run { strict := st, replAll := ra } (.init b :: ops) = .ok s

/-- One step from a state satisfying the invariant: invariant kept, every sample conserved, rows attached. -/
theorem step_preserves (s : OS) (smp : List Smp) (h : Inv s smp) (op : Op) (hop : isInit op = false)
    (s' : OS) (out : Option Nat) (hok : step s op = .ok (s', out)) :
    ∃ smp', Inv s' smp' ∧ smp'.Perm (smp ++ batchOf op) ∧
      (∀ r, s.rows = smp.map r → rowsOk r op → s'.rows = smp'.map r) ∧
      s'.strict = s.strict ∧ s'.replAll = s.replAll := by
  cases op with
  | init b => simp [isInit] at hop
  | thr t =>
    simp [step, setThreshold] at hok
    obtain ⟨rfl, _⟩ := hok
    exact ⟨smp, ⟨h.hs, h.sorted, h.rowsLen, h.liveInc, h.nestedInc, h.part⟩, by simp [batchOf],
      fun r hr _ => hr, rfl, rfl⟩
  | add b =>
    simp only [step, Except.map] at hok
    split at hok
    · cases hok
    · rename_i s1 hs1
      cases hok
      cases hst : s.strict with
      | true =>
        obtain ⟨smp', hinv, hperm, _, hrows, _, h2, h3⟩ := addSamples_strict_observe s smp h hst b s' hs1
        refine ⟨smp', hinv, hperm.trans ?_, fun r hr hb => hrows r hr hb, by rw [h2, hst], h3⟩
        exact List.Perm.append_left _ ((sortBatch_perm b).map _)
      | false =>
        by_cases hb : b = []
        · subst hb
          unfold addSamples at hs1
          simp [h.hs, hst, sortBatch, shiftIdx] at hs1
        · obtain ⟨s2, smp', hok2, hinv, hperm, _, _, hrows, _, h2, h3⟩ := addSamples_soft_observe s smp h hst b hb
          rw [hs1] at hok2
          cases hok2
          refine ⟨smp', hinv, hperm.trans ?_, fun r hr hbr => hrows r hr hbr, by rw [h2, hst], h3⟩
          exact List.Perm.append_left _ ((sortBatch_perm b).map _)
  | remove =>
    simp only [step, Except.map] at hok
    split at hok
    · cases hok
    · rename_i v hv
      obtain ⟨s1, n⟩ := v
      cases hok
      cases hr : s.replAll with
      | false =>
        obtain ⟨hinv, _, _, h2, h3, h4⟩ := removeSamples_observe s smp h hr s1 n hv
        exact ⟨smp, hinv, by simp [batchOf], fun r hrr _ => h4 ▸ hrr, h2, h3.trans hr⟩
      | true =>
        unfold removeSamples at hv
        split at hv
        · rename_i smp0 l hsm hlive
          rw [if_pos hr] at hv
          have hsmp : smp0 = smp := by rw [h.hs] at hsm; cases hsm; rfl
          subst hsmp
          simp only [Except.ok.injEq, Prod.mk.injEq] at hv
          obtain ⟨hv1, _⟩ := hv
          subst hv1
          exact ⟨smp0, (moveAll_observe s smp0 h l hlive).1, by simp [batchOf], fun r hrr _ => hrr, rfl, hr⟩
        · cases hv
  | finalise =>
    simp only [step, Except.map] at hok
    split at hok
    · cases hok
    · rename_i s1 hs1
      cases hok
      unfold Ordered.finalise at hs1
      split at hs1
      · rename_i smp0 l hsm hlive
        cases hs1
        have hsmp : smp0 = smp := by rw [h.hs] at hsm; cases hsm; rfl
        subst hsmp
        exact ⟨smp0, (moveAll_observe s smp0 h l hlive).1, by simp [batchOf], fun r hrr _ => hrr, rfl, rfl⟩
      · cases hs1

/-- Invariant, conservation and row attachment along any init-free op list. -/
theorem run_preserves (ops : List Op) : ∀ (s : OS) (smp : List Smp), Inv s smp →
    (∀ op ∈ ops, isInit op = false) → ∀ s', run s ops = .ok s' →
    ∃ smp', Inv s' smp' ∧ smp'.Perm (smp ++ (ops.map batchOf).flatten) ∧
      (∀ r, s.rows = smp.map r → (∀ op ∈ ops, rowsOk r op) → s'.rows = smp'.map r) := by
  induction ops with
  | nil =>
    intro s smp h _ s' hok
    simp [run] at hok
    subst hok
    exact ⟨smp, h, by simp, fun r hr _ => hr⟩
  | cons op ops ih =>
    intro s smp h hops s' hok
    simp only [run] at hok
    split at hok
    · rename_i s1 out hstep
      obtain ⟨smp1, hinv1, hperm1, hrows1, _, _⟩ :=
        step_preserves s smp h op (hops op (by simp)) s1 out hstep
      obtain ⟨smp2, hinv2, hperm2, hrows2⟩ :=
        ih s1 smp1 hinv1 (fun o ho => hops o (by simp [ho])) s' hok
      refine ⟨smp2, hinv2, ?_, ?_⟩
      · refine hperm2.trans ?_
        simp only [List.map_cons, List.flatten_cons, ← List.append_assoc]
        exact List.Perm.append_right _ hperm1
      · intro r hr hall
        exact hrows2 r (hrows1 r hr (hall op (by simp))) (fun o ho => hall o (by simp [ho]))
    · cases hok

/-- **Main theorem (structure).**  For each of the four modes, every initial batch and every sequence of
batch insertions, threshold updates, removals and finalisation — of any length, any batch sizes, ties and values
below/at/above the threshold included — if no call raised, the store is sorted, live and discarded index sets
are strictly increasing and partition the stored samples, every sample ever added is present exactly once
(multiset equality), and every density-table row is attached to its sample. -/
theorem store_invariant (st ra : Bool) (b : List (Smp × Nat)) (ops : List Op)
    (hops : ∀ op ∈ ops, isInit op = false) (s : OS)
    (hok : run { strict := st, replAll := ra } (.init b :: ops) = .ok s) :
    ∃ smp, WellFormed s smp ∧
      smp.Perm (b.map (·.1) ++ (ops.map batchOf).flatten) ∧
      (∀ r : Smp → Nat, (∀ x ∈ b, x.2 = r x.1) → (∀ op ∈ ops, rowsOk r op) → s.rows = smp.map r) := by
  simp only [run, step] at hok
  have hinv0 := inv_addInitial { strict := st, replAll := ra } b rfl
  obtain ⟨smp, hinv, hperm, hrows⟩ := run_preserves ops _ _ hinv0 hops s hok
  refine ⟨smp, wellFormed_of_inv hinv, ?_, ?_⟩
  · exact hperm.trans (List.Perm.append_right _ ((sortBatch_perm b).map _))
  · intro r hb hall
    apply hrows r ?_ hall
    simp only [addInitial, List.map_map]
    exact List.map_congr_left (fun x hx => by simp [hb x ((sortBatch_perm b).mem_iff.mp hx)])

theorem reachable_inv (s : OS) (h : Reachable s) : ∃ smp, Inv s smp := by
  obtain ⟨st, ra, b, ops, hops, hok⟩ := h
  simp only [run, step] at hok
  obtain ⟨smp, hinv, _, _⟩ := run_preserves ops _ _ (inv_addInitial { strict := st, replAll := ra } b rfl) hops s hok
  exact ⟨smp, hinv⟩

/-- Soft threshold: inserting a batch leaves the discarded samples exactly as they were (same samples,
same order) and the live samples gain exactly the batch. -/
theorem add_soft_observable (s : OS) (hr : Reachable s) (hst : s.strict = false)
    (b : List (Smp × Nat)) (s' : OS) (hok : addSamples s b = .ok s') :
    nestedSamples s' = nestedSamples s ∧ (liveSamples s').Perm (liveSamples s ++ b.map (·.1)) := by
  obtain ⟨smp, hinv⟩ := reachable_inv s hr
  by_cases hb : b = []
  · subst hb
    unfold addSamples at hok
    simp [hinv.hs, hst, sortBatch, shiftIdx] at hok
  · obtain ⟨s2, smp', hok2, _, _, hn, hl, _⟩ := addSamples_soft_observe s smp hinv hst b hb
    rw [hok] at hok2; cases hok2
    exact ⟨hn, hl.trans (List.Perm.append_left _ ((sortBatch_perm b).map _))⟩

/-- Strict threshold: after an insertion the live set is exactly the stored samples at or above the
threshold and the discarded set exactly those strictly below — with no side condition (this is what the
`fix:` of the argmax defect restores: with `argmax` it failed when no sample reached the threshold). -/
theorem strict_live_eq (s : OS) (hr : Reachable s) (hst : s.strict = true) (t : Int) (ht : s.thr = some t)
    (b : List (Smp × Nat)) (s' : OS) (hok : addSamples s b = .ok s') :
    ∃ smp', s'.samples = some smp' ∧
      liveSamples s' = smp'.filter (fun y => !decide (y.key < t)) ∧
      nestedSamples s' = smp'.filter (fun y => decide (y.key < t)) := by
  obtain ⟨smp, hinv⟩ := reachable_inv s hr
  obtain ⟨smp', hinv', _, hobs, _⟩ := addSamples_strict_observe s smp hinv hst b s' hok
  exact ⟨smp', hinv'.hs, hobs t ht⟩

/-- Removal (not replace-all): the reported count is the number of live samples strictly below the
threshold; exactly those are moved to the discarded set, the others stay live. -/
theorem removed_count_eq (s : OS) (hr : Reachable s) (hra : s.replAll = false) (t : Int) (ht : s.thr = some t)
    (s' : OS) (n : Nat) (hok : removeSamples s = .ok (s', n)) :
    n = ((liveSamples s).filter (fun y => decide (y.key < t))).length ∧
    liveSamples s' = (liveSamples s).filter (fun y => !decide (y.key < t)) ∧
    (nestedSamples s').Perm (nestedSamples s ++ (liveSamples s).filter (fun y => decide (y.key < t))) := by
  obtain ⟨smp, hinv⟩ := reachable_inv s hr
  exact (removeSamples_observe s smp hinv hra s' n hok).2.1 t ht

/-- Removal in replace-all mode: all live samples are reported and moved. -/
theorem removed_all (s : OS) (hr : Reachable s) (hra : s.replAll = true)
    (s' : OS) (n : Nat) (hok : removeSamples s = .ok (s', n)) :
    n = (liveSamples s).length ∧ liveSamples s' = [] ∧
    (nestedSamples s').Perm (nestedSamples s ++ liveSamples s) := by
  obtain ⟨smp, hinv⟩ := reachable_inv s hr
  unfold removeSamples at hok
  split at hok
  · rename_i smp0 l hsm hlive
    rw [if_pos hra] at hok
    cases hok
    have hsmp : smp0 = smp := by rw [hinv.hs] at hsm; cases hsm; rfl
    subst hsmp
    have := moveAll_observe s smp0 hinv l hlive
    exact ⟨this.2.2.2, this.2.1, this.2.2.1⟩
  · cases hok

/-- Finalisation consumes every live sample exactly once. -/
theorem finalise_moves_all (s : OS) (hr : Reachable s) (s' : OS) (hok : Ordered.finalise s = .ok s') :
    liveSamples s' = [] ∧ (nestedSamples s').Perm (nestedSamples s ++ liveSamples s) := by
  obtain ⟨smp, hinv⟩ := reachable_inv s hr
  unfold Ordered.finalise at hok
  split at hok
  · rename_i smp0 l hsm hlive
    cases hok
    have hsmp : smp0 = smp := by rw [hinv.hs] at hsm; cases hsm; rfl
    subst hsmp
    have := moveAll_observe s smp0 hinv l hlive
    exact ⟨this.2.1, this.2.2.1⟩
  · cases hok

/-- the literal `np.insert(a, np.searchsorted(a, b), b)` program on sorted inputs is the merge (ties: new first) -/
theorem insert_at_searchsorted_is_merge (old new : List Smp) (ho : SortedK Smp.key old) :
    insertMany old (new.map (fun v => ssl (keys old) v.key)) new 0 = mergeNew Smp.key old new :=
  insert_eq_merge old new ho

/-- non-vacuity: a concrete history with ties, a below-threshold batch and a removal runs without error -/
example : (run { strict := false, replAll := false }
    [.init [(⟨3, 1⟩, 1), (⟨1, 2⟩, 2), (⟨2, 3⟩, 3)], .thr 2, .remove,
     .add [(⟨2, 4⟩, 4), (⟨0, 5⟩, 5), (⟨5, 6⟩, 6)], .remove, .finalise]).toOption.map (·.nested)
    = some [0, 1, 2, 3, 4, 5] := by decide +kernel

/-- non-vacuity, strict threshold: a new sample below the threshold is stored straight among the nested samples;
live = exactly the stored samples at/above the threshold -/
example : (run { strict := true, replAll := false }
    [.init [(⟨3, 1⟩, 1), (⟨1, 2⟩, 2), (⟨2, 3⟩, 3)], .thr 2, .remove,
     .add [(⟨1, 4⟩, 4), (⟨2, 5⟩, 5), (⟨4, 6⟩, 6)]]).toOption.map (fun s => (s.samples.map (·.map (·.key)), s.live, s.nested))
    = some (some [1, 1, 2, 2, 3, 4], some [2, 3, 4, 5], [0, 1]) := by decide +kernel

/-- non-vacuity, replace-all: a removal moves EVERY live sample, whatever the threshold (`live_points_indices = None`) -/
example : (run { strict := false, replAll := true }
    [.init [(⟨3, 1⟩, 1), (⟨1, 2⟩, 2), (⟨2, 3⟩, 3)], .thr 2, .remove]).toOption.map (fun s => (s.live, s.nested))
    = some (none, [0, 1, 2]) := by decide +kernel

/-- non-vacuity, empty initial batch followed by an addition -/
example : (run { strict := false, replAll := false }
    [.init [], .add [(⟨2, 1⟩, 1), (⟨1, 2⟩, 2)], .thr 2, .remove]).toOption.map (fun s => (s.live, s.nested))
    = some (some [1], [0]) := by decide +kernel

/-- the theorems apply to such a history (strict mode): it runs without error … -/
example : (run { strict := true, replAll := false }
    [.init [(⟨3, 1⟩, 1), (⟨1, 2⟩, 2)], .thr 2, .remove, .add [(⟨1, 4⟩, 4), (⟨4, 6⟩, 6)]]).toOption.isSome = true := by
  decide +kernel

/-- … and its final state is well formed, by `reachable_inv` -/
example (s : OS) (hs : run { strict := true, replAll := false }
    [.init [(⟨3, 1⟩, 1), (⟨1, 2⟩, 2)], .thr 2, .remove, .add [(⟨1, 4⟩, 4), (⟨4, 6⟩, 6)]] = .ok s) :
    ∃ smp, WellFormed s smp := by
  obtain ⟨smp, hinv⟩ := reachable_inv s ⟨true, false, _, _, by decide, hs⟩
  exact ⟨smp, wellFormed_of_inv hinv⟩

/-- **The source of `add_to_nested_samples` IS the modelled index program** (translation tie).  `Gen/OrderedTx.lean` is
regenerated on every run from the current text of `OrderedSamples.add_to_nested_samples` by `harness/pyarr2lean.py`
(`np.searchsorted` of an index array in an index array, `np.insert` at those positions).  The generated definition never
raises and returns the model's `addToNested` — the step through which `remove_samples` and `finalise` move live points to the
nested samples — for every pair of index arrays. -/
theorem add_to_nested_samples_source_eq_model (nested idxs : List Nat) :
    Gen.OrderedTx.add_to_nested_samples nested idxs = .ok (addToNested nested idxs) := rfl

example := add_to_nested_samples_source_eq_model [0, 2, 5] [1, 3]

/-! ## The four operations of the source, regenerated on every run, ARE the model's operations

`Gen/OrderedOps.lean` is produced by `harness/pyidx2lean.py` from the current text of `OrderedSamples.add_initial_samples`,
`add_samples`, `remove_samples` and `finalise` (statement by statement; an Optional value is unwrapped, with `TypeError`, exactly
where the code needs a value).  On every state whose `samples` is `None` only if `live_points_indices` is (every reachable
state: `add_initial_samples` sets both) the generated definitions compute the fields of the model's operations — so
`store_invariant` and the observational theorems above are about the source as it is now. -/

/-- the four mutable fields, in the order the generated definitions return them -/
def fieldsOf (s : OS) : Option (List Smp) × List Nat × Option (List Nat) × List Nat := (s.samples, s.rows, s.live, s.nested)

theorem zip_map_fst_snd {α β : Type} (b : List (α × β)) : (b.map (·.1)).zip (b.map (·.2)) = b := by
  induction b with
  | nil => rfl
  | cons x xs ih => simp [ih]

/-- the side condition of `remove_samples_source_eq_model` / `finalise_source_eq_model` holds in every reachable state
(`samples` is never `None` once `add_initial_samples` has run) -/
theorem reachable_samples_some (s : OS) (hr : Reachable s) : s.samples = none → s.live = none := by
  obtain ⟨smp, hinv⟩ := reachable_inv s hr
  intro h
  rw [hinv.hs] at h
  cases h

theorem add_initial_samples_source_eq_model (s : OS) (b : List (Smp × Nat)) :
    Gen.OrderedOps.add_initial_samples s.samples s.rows s.live s.nested s.thr s.strict s.replAll (b.map (·.1)) (b.map (·.2)) =
      .ok (fieldsOf (addInitial s b)) := by
  simp [Gen.OrderedOps.add_initial_samples, addInitial, fieldsOf, zip_map_fst_snd]

theorem remove_samples_source_eq_model (s : OS) (hs : s.samples = none → s.live = none) :
    Gen.OrderedOps.remove_samples s.samples s.rows s.live s.nested s.thr s.strict s.replAll =
      (removeSamples s).map (fun p => (p.1.samples, p.1.rows, p.1.live, p.1.nested, p.2)) := by
  unfold Gen.OrderedOps.remove_samples removeSamples
  cases hl : s.live with
  | none => cases s.samples <;> cases s.replAll <;> simp [Except.map]
  | some l =>
    cases hsm : s.samples with
    | none => rw [hs hsm] at hl; cases hl
    | some smp =>
      cases s.replAll
      · simp only [Bool.false_eq_true, if_false, countBelowOpt, keys, fancySmp, List.map_map, List.isEmpty_map]
        by_cases he : l.isEmpty
        · simp [he, Except.map, Function.comp_def]
        · cases s.thr <;> simp [he, Except.map, Function.comp_def]
      · simp [Except.map]

theorem finalise_source_eq_model (s : OS) (hs : s.samples = none → s.live = none) :
    Gen.OrderedOps.finalise s.samples s.rows s.live s.nested s.thr s.strict s.replAll =
      (Ordered.finalise s).map fieldsOf := by
  unfold Gen.OrderedOps.finalise Ordered.finalise
  cases hl : s.live with
  | none => cases s.samples <;> simp [Except.map]
  | some l =>
    cases hsm : s.samples with
    | none => rw [hs hsm] at hl; cases hl
    | some smp => simp [Except.map, fieldsOf, hsm]

theorem countBelow_le (t : Int) (ks : List Int) : countBelow t ks ≤ ks.length := by
  unfold countBelow; exact List.length_filter_le _ _

theorem take_drop_range (m n : Nat) (h : n ≤ m) :
    (List.range m).take n = List.range n ∧ (List.range m).drop n = List.range' n (m - n) := by
  constructor
  · rw [List.take_range, Nat.min_eq_left h]
  · rw [List.range_eq_range', List.drop_range']; simp

theorem add_samples_source_eq_model (s : OS) (b : List (Smp × Nat)) :
    Gen.OrderedOps.add_samples s.samples s.rows s.live s.nested s.thr s.strict s.replAll (b.map (·.1)) (b.map (·.2)) =
      (addSamples s b).map fieldsOf := by
  unfold Gen.OrderedOps.add_samples addSamples
  cases hsm : s.samples with
  | none => simp [Except.map]
  | some old =>
    simp only [zip_map_fst_snd, keys, List.map_map, Function.comp_def]
    generalize sortBatch b = sb
    generalize List.map (fun x => ssl (List.map (fun x => x.key) old) x.1.key) sb = idx
    generalize insertMany old idx (List.map (fun x => x.1) sb) 0 = smp'
    generalize insertMany s.rows idx (List.map (fun x => x.2) sb) 0 = rows'
    cases hst : s.strict
    · simp only [Bool.false_eq_true, if_false, inverseIndices, fancy]
      generalize shiftIdx idx 0 = ni
      by_cases he : ni.isEmpty
      · simp [he, Except.map]
      · simp only [he, Bool.false_eq_true, if_false]
        generalize complement smp'.length ni = oi
        by_cases hlen : oi.length = smp'.length - sb.length
        · cases hl : s.live <;> simp [Except.map, fieldsOf, hlen]
        · cases hl : s.live <;> simp [Except.map, fieldsOf, hlen]
    · simp only [if_true, countBelowOpt]
      by_cases he : smp'.isEmpty
      · have hl0 : smp'.length = 0 := by simpa using he
        simp [he, Except.map, fieldsOf, hl0]
      · have he' : (List.map (fun x => x.key) smp').isEmpty = false := by simpa using he
        cases ht : s.thr with
        | none => simp [he, he', Except.map]
        | some t =>
          have hle : countBelow t (List.map (fun x => x.key) smp') ≤ smp'.length := by
            simpa using countBelow_le t (List.map (fun x => x.key) smp')
          obtain ⟨h1, h2⟩ := take_drop_range smp'.length _ hle
          simp [he, he', Except.map, fieldsOf, h1, h2]

end NessaiVerif.C04
