"""C14 translator — whole-package tables regenerated from the nessai sources with `ast`.

Tables (emitted to lean/NessaiVerif/Gen/Tables.lean):
  poolReads        every READ of a likelihood-parallelisation setting (attribute, local name, keyed lookup)
  poolCalls        every method called on a pool object
  rngSites         every call site that draws (or seeds, or constructs) random numbers
  seededSources    the random sources seeded by BaseNestedSampler.configure_random_seed
  guardedDraws     places where drawing random numbers is conditional on a parallelisation setting
  constructorChainStandard / constructorChainImportance   the calls of the FlowSampler -> sampler -> BaseNestedSampler
                   constructor chain in execution order, with the drawing and the seeding steps marked
  seedReplaced / seedBinds / seedCalls   the decision logic of configure_random_seed (when the seed is replaced, what is
                   stored, which generators are seeded with it and whether unconditionally)

Nothing here decides what is acceptable: the allow-lists live in the hand-written Lean model
(lean/NessaiVerif/Model/Tables.lean) and the theorems of Props/C14.lean are re-proved over the regenerated tables.
"""
import ast
import hashlib
from pathlib import Path

SETTINGS = ("pool", "n_pool", "likelihood_chunksize", "parallelise_prior", "allow_vectorised", "chunksize")
KEY_METHODS = ("pop", "get", "setdefault")

NP_FRESH = {"default_rng", "RandomState", "Generator", "SeedSequence", "PCG64", "PCG64DXSM", "MT19937", "Philox", "SFC64",
            "BitGenerator"}
NP_STATE = {"get_state", "set_state", "get_bit_generator", "set_bit_generator"}
TORCH_DRAW = {"rand", "randn", "randint", "randperm", "rand_like", "randn_like", "randint_like", "normal", "bernoulli",
              "multinomial", "poisson"}
TORCH_SEED = {"manual_seed"}
TORCH_INPLACE = {"normal_", "uniform_", "random_", "bernoulli_", "exponential_", "cauchy_", "geometric_", "log_normal_"}
SAMPLE_METHODS = {"sample", "rsample", "sample_n", "sample_and_log_prob", "sample_latent_distribution"}
ENTROPY = {"os.urandom", "uuid.uuid1", "uuid.uuid4", "secrets.token_bytes", "secrets.randbits", "secrets.randbelow",
           "secrets.choice", "secrets.token_hex", "torch.seed", "torch.initial_seed", "torch.random.seed"}


class ScanError(Exception):
    pass


# ------------------------------------------------------------------------------------------------ helpers
def dotted(node):
    """a.b.c for Name/Attribute chains, else None"""
    parts = []
    while isinstance(node, ast.Attribute):
        parts.append(node.attr)
        node = node.value
    if isinstance(node, ast.Name):
        parts.append(node.id)
        return ".".join(reversed(parts))
    return None


def src(node, limit=60):
    try:
        s = ast.unparse(node)
    except Exception:  # noqa
        s = type(node).__name__
    s = "".join(s.split())          # no spaces: the texts travel through the driver's line protocol
    return s if len(s) <= limit else s[: limit - 1] + "…"


class Aliases:
    """module-level import aliases -> canonical dotted names"""

    def __init__(self, tree):
        self.map = {}
        for node in ast.walk(tree):
            if isinstance(node, ast.Import):
                for a in node.names:
                    if a.asname:
                        self.map[a.asname] = a.name
                    else:
                        self.map[a.name.split(".")[0]] = a.name.split(".")[0]
            elif isinstance(node, ast.ImportFrom) and node.module and node.level == 0:
                for a in node.names:
                    self.map[a.asname or a.name] = node.module + "." + a.name

    def canon(self, name):
        if name is None:
            return None
        head, _, rest = name.partition(".")
        if head in self.map:
            return self.map[head] + ("." + rest if rest else "")
        return name


def annotate(tree):
    for node in ast.walk(tree):
        for child in ast.iter_child_nodes(node):
            child._parent = node
    tree._parent = None


def func_of(node):
    """qualified name of the innermost enclosing def chain: Class.method / function / <module>"""
    names = []
    n = node
    while n is not None:
        if isinstance(n, (ast.FunctionDef, ast.AsyncFunctionDef, ast.ClassDef, ast.Lambda)):
            if not isinstance(n, ast.Lambda):
                names.append(n.name)
        n = getattr(n, "_parent", None)
    return ".".join(reversed(names)) if names else "<module>"


def outer_function(node):
    n = node
    last = None
    while n is not None:
        if isinstance(n, (ast.FunctionDef, ast.AsyncFunctionDef)):
            last = n
        n = getattr(n, "_parent", None)
    return last


# ------------------------------------------------------------------------------------------------ T1: setting reads
def _only_wiring(stmts):
    """True when a block only stores settings / logs (the `if x: model.x = x` wiring pattern)"""
    for s in stmts:
        if isinstance(s, ast.Assign) and all(isinstance(t, ast.Attribute) and t.attr in SETTINGS for t in s.targets):
            continue
        if isinstance(s, ast.Expr) and isinstance(s.value, ast.Call):
            d = dotted(s.value.func) or ""
            if d.startswith("logger.") or d.startswith("logging."):
                continue
        if isinstance(s, ast.Pass):
            continue
        return False
    return True


def read_kind(node):
    """forward | guard | test | use  for a node that reads a setting"""
    p = getattr(node, "_parent", None)
    if isinstance(p, ast.keyword) and p.value is node:
        return "forward"
    if isinstance(p, (ast.Assign, ast.AnnAssign)) and p.value is node:
        targets = p.targets if isinstance(p, ast.Assign) else [p.target]
        if all(isinstance(t, (ast.Attribute, ast.Name)) for t in targets):
            return "forward"
    child, n = node, p
    while n is not None and not isinstance(n, (ast.FunctionDef, ast.AsyncFunctionDef, ast.ClassDef, ast.Module)):
        if isinstance(n, (ast.If, ast.While)) and n.test is child:
            if isinstance(n, ast.If) and _only_wiring(n.body) and _only_wiring(n.orelse):
                return "guard"
            return "test"
        if isinstance(n, (ast.IfExp, ast.Assert)) and n.test is child:
            return "test"
        if isinstance(n, ast.comprehension) and child in n.ifs:
            return "test"
        if isinstance(n, ast.BoolOp) and len(n.values) > 1:
            # short-circuit: operands after this one are evaluated conditionally on it
            if child is not n.values[-1]:
                return "test"
        if isinstance(n, ast.stmt):
            # keep climbing only through expression nodes and the owning If/While
            if not isinstance(n, (ast.If, ast.While, ast.Assert)):
                break
        child, n = n, getattr(n, "_parent", None)
    return "use"


def scan_pool_reads(rel, tree):
    reads, calls = [], []
    for node in ast.walk(tree):
        setting = expr = None
        if isinstance(node, ast.Attribute) and isinstance(node.ctx, ast.Load) and node.attr in SETTINGS:
            # `multiprocessing.pool` (module attribute) is not a setting
            if dotted(node) in ("multiprocessing.pool",):
                continue
            setting, expr = node.attr, src(node)
        elif isinstance(node, ast.Name) and isinstance(node.ctx, ast.Load) and node.id in SETTINGS:
            setting, expr = node.id, node.id
        elif isinstance(node, ast.Call):
            f = node.func
            # getattr(x, "pool", ...)
            if isinstance(f, ast.Name) and f.id in ("getattr", "hasattr") and len(node.args) >= 2 \
                    and isinstance(node.args[1], ast.Constant) and node.args[1].value in SETTINGS:
                setting, expr = node.args[1].value, src(node)
            # kwargs.pop("n_pool", ...), d.get("pool")
            elif isinstance(f, ast.Attribute) and f.attr in KEY_METHODS and node.args \
                    and isinstance(node.args[0], ast.Constant) and node.args[0].value in SETTINGS:
                setting, expr = node.args[0].value, src(node)
        elif isinstance(node, ast.Subscript) and isinstance(node.ctx, ast.Load) \
                and isinstance(node.slice, ast.Constant) and node.slice.value in SETTINGS:
            setting, expr = node.slice.value, src(node)
        if setting is None:
            continue
        p = getattr(node, "_parent", None)
        # the receiver of a method call on the pool: record the method (order-preserving API check)
        if setting == "pool" and isinstance(p, ast.Attribute) and p.value is node \
                and isinstance(getattr(p, "_parent", None), ast.Call) and p._parent.func is p:
            calls.append(dict(file=rel, func=func_of(node), line=node.lineno, method=p.attr, expr=src(p._parent)))
        reads.append(dict(file=rel, func=func_of(node), line=node.lineno, setting=setting, kind=read_kind(node), expr=expr))
    return reads, calls


# ------------------------------------------------------------------------------------------------ T2: RNG sites
def _kw(call, name):
    for k in call.keywords:
        if k.arg == name:
            return k.value
    return None


def _is_none(node):
    return isinstance(node, ast.Constant) and node.value is None


def classify_call(call, al):
    """(call text, kind, source) or None"""
    name = al.canon(dotted(call.func))
    f = call.func
    if name:
        parts = name.split(".")
        if name.startswith("numpy.random."):
            fn = parts[2] if len(parts) > 2 else ""
            if fn == "seed":
                return name, "seed", "numpyGlobal"
            if fn in NP_FRESH:
                seeded = bool(call.args and not _is_none(call.args[0])) or (
                    _kw(call, "seed") is not None and not _is_none(_kw(call, "seed")))
                return name, "construct", "freshSeeded" if seeded else "freshUnseeded"
            if fn in NP_STATE:
                return name, "state", "numpyGlobal"
            return name, "draw", "numpyGlobal"
        if name in ENTROPY:
            return name, "draw", "osEntropy"
        if name in ("torch.manual_seed", "torch.random.manual_seed", "torch.cuda.manual_seed", "torch.cuda.manual_seed_all"):
            return name, "seed", "torchGlobal"
        if name == "torch.Generator":
            return name, "construct", "freshUnseeded"
        if name.startswith("torch.") and parts[-1] in TORCH_DRAW and len(parts) == 2:
            if _kw(call, "generator") is not None and not _is_none(_kw(call, "generator")):
                return name, "draw", "explicitGenerator"
            return name, "draw", "torchGlobal"
        if name.startswith("torch.nn.init."):
            return name, "draw", "torchGlobal"
        if name in ("torch.utils.data.DataLoader", "torch.utils.data.RandomSampler", "torch.utils.data.random_split"):
            shuffle = _kw(call, "shuffle")
            if name.endswith("DataLoader") and (shuffle is None or (isinstance(shuffle, ast.Constant) and not shuffle.value)):
                return None
            if _kw(call, "generator") is not None and not _is_none(_kw(call, "generator")):
                return name, "draw", "explicitGenerator"
            return name, "draw", "torchGlobal"
        if parts[0] == "random" and len(parts) == 2:
            return name, "seed" if parts[1] == "seed" else "draw", "stdlibRandom"
    if isinstance(f, ast.Attribute):
        if f.attr == "rvs":
            rs = _kw(call, "random_state")
            if rs is not None and not _is_none(rs):
                return src(f), "draw", "explicitGenerator"
            return src(f), "draw", "numpyGlobal"
        if f.attr in TORCH_INPLACE:
            if _kw(call, "generator") is not None and not _is_none(_kw(call, "generator")):
                return src(f), "draw", "explicitGenerator"
            return src(f), "draw", "torchGlobal"
        if f.attr in SAMPLE_METHODS:
            return src(f), "draw", "delegated"
    return None


def scan_rng_sites(rel, tree, al):
    sites = []
    for node in ast.walk(tree):
        if not isinstance(node, ast.Call):
            continue
        c = classify_call(node, al)
        if c is None:
            continue
        text, kind, source = c
        sites.append(dict(file=rel, func=func_of(node), line=node.lineno, call=text, kind=kind, source=source, _node=node))
    # function objects of numpy.random / random passed around without being called here (e.g. `f = np.random.rand`)
    for node in ast.walk(tree):
        if isinstance(node, ast.Attribute) and isinstance(node.ctx, ast.Load):
            p = getattr(node, "_parent", None)
            if isinstance(p, ast.Call) and p.func is node:
                continue
            if isinstance(p, ast.Attribute):
                continue
            name = al.canon(dotted(node))
            if name and name.startswith("numpy.random.") and name.count(".") == 2:
                sites.append(dict(file=rel, func=func_of(node), line=node.lineno, call=name, kind="reference",
                                  source="numpyGlobal", _node=node))
            elif name and name.startswith("random.") and al.map.get("random") == "random":
                sites.append(dict(file=rel, func=func_of(node), line=node.lineno, call=name, kind="reference",
                                  source="stdlibRandom", _node=node))
    return sites


# ------------------------------------------------------------------------------------------------ guarded draws
def draw_names(all_trees, sites):
    """bare names of functions that draw random numbers, closed under 'calls a function of that name';
    returns (names, property names)"""
    defs = {}          # bare name -> list of def nodes
    props = set()
    for rel, tree in all_trees:
        for node in ast.walk(tree):
            if isinstance(node, (ast.FunctionDef, ast.AsyncFunctionDef)):
                defs.setdefault(node.name, []).append(node)
                for d in node.decorator_list:
                    if (isinstance(d, ast.Name) and d.id == "property") or (isinstance(d, ast.Attribute) and d.attr == "getter"):
                        props.add(node.name)
    drawing = set()
    for s in sites:
        if s["kind"] in ("draw", "reference"):
            f = outer_function(s["_node"])
            n = s["_node"]
            while n is not None:
                if isinstance(n, (ast.FunctionDef, ast.AsyncFunctionDef)) and not n.name.startswith("__"):
                    drawing.add(n.name)
                n = getattr(n, "_parent", None)
            del f
    changed = True
    while changed:
        changed = False
        for name, nodes in defs.items():
            if name in drawing or name.startswith("__"):
                continue
            for d in nodes:
                hit = False
                for node in ast.walk(d):
                    if isinstance(node, ast.Call):
                        f = node.func
                        callee = f.attr if isinstance(f, ast.Attribute) else (f.id if isinstance(f, ast.Name) else None)
                        if callee in drawing:
                            hit = True
                            break
                    elif isinstance(node, ast.Attribute) and isinstance(node.ctx, ast.Load) \
                            and node.attr in drawing and node.attr in props:
                        hit = True
                        break
                if hit:
                    drawing.add(name)
                    changed = True
                    break
    return drawing, props & drawing


def _reads_setting(node):
    out = []
    for n in ast.walk(node):
        if isinstance(n, ast.Attribute) and isinstance(n.ctx, ast.Load) and n.attr in SETTINGS:
            out.append(n.attr)
        elif isinstance(n, ast.Name) and isinstance(n.ctx, ast.Load) and n.id in SETTINGS:
            out.append(n.id)
    return out


def _draws_in(nodes, drawing, props, al):
    out = []
    for root in nodes:
        for n in ast.walk(root):
            if isinstance(n, ast.Call):
                if classify_call(n, al) is not None and classify_call(n, al)[1] in ("draw",):
                    out.append((n.lineno, classify_call(n, al)[0]))
                    continue
                f = n.func
                callee = f.attr if isinstance(f, ast.Attribute) else (f.id if isinstance(f, ast.Name) else None)
                if callee in drawing:
                    out.append((n.lineno, src(f)))
            elif isinstance(n, ast.Attribute) and isinstance(n.ctx, ast.Load) and n.attr in props:
                out.append((n.lineno, src(n)))
    return out


def scan_guarded_draws(rel, tree, drawing, props, al):
    res = []
    for node in ast.walk(tree):
        cond, guarded = None, []
        if isinstance(node, (ast.If, ast.While)):
            cond, guarded = node.test, list(node.body) + list(node.orelse)
        elif isinstance(node, ast.IfExp):
            cond, guarded = node.test, [node.body, node.orelse]
        elif isinstance(node, ast.BoolOp) and len(node.values) > 1:
            for i in range(len(node.values) - 1):
                ss = _reads_setting(node.values[i])
                if ss:
                    for ln, what in _draws_in(node.values[i + 1:], drawing, props, al):
                        res.append(dict(file=rel, func=func_of(node), line=ln, setting=ss[0], draw=what))
                    break
            continue
        if cond is None:
            continue
        ss = _reads_setting(cond)
        if not ss:
            continue
        for ln, what in _draws_in(guarded, drawing, props, al):
            res.append(dict(file=rel, func=func_of(node), line=ln, setting=ss[0], draw=what))
    # de-duplicate (nested ifs report the same draw twice)
    seen, out = set(), []
    for r in res:
        k = (r["file"], r["func"], r["line"], r["setting"], r["draw"])
        if k not in seen:
            seen.add(k)
            out.append(r)
    return out



# ------------------------------------------------------------------------------------------------ configure_random_seed
SEED_FILE, SEED_CLASS, SEED_FUNC = "nessai/samplers/base.py", "BaseNestedSampler", "configure_random_seed"
_CMP = {ast.Eq: "eq", ast.NotEq: "ne", ast.Lt: "lt", ast.LtE: "le", ast.Gt: "gt", ast.GtE: "ge"}


def guard_to_lean(node, var):
    """Lean Bool expression over `seed : Option Int` for a Python condition on the seed argument"""
    if isinstance(node, ast.Name) and node.id == var:
        return "pyTruthy seed"
    if isinstance(node, ast.UnaryOp) and isinstance(node.op, ast.Not):
        return "!(" + guard_to_lean(node.operand, var) + ")"
    if isinstance(node, ast.BoolOp):
        op = " && " if isinstance(node.op, ast.And) else " || "
        return "(" + op.join(guard_to_lean(v, var) for v in node.values) + ")"
    if isinstance(node, ast.Compare) and len(node.ops) == 1 and isinstance(node.left, ast.Name) and node.left.id == var:
        op, rhs = node.ops[0], node.comparators[0]
        if isinstance(rhs, ast.Constant) and rhs.value is None:
            if isinstance(op, (ast.Is, ast.Eq)):
                return "pyIsNone seed"
            if isinstance(op, (ast.IsNot, ast.NotEq)):
                return "!(pyIsNone seed)"
        if isinstance(rhs, ast.UnaryOp) and isinstance(rhs.op, ast.USub) and isinstance(rhs.operand, ast.Constant):
            rhs = ast.Constant(-rhs.operand.value)
        if isinstance(rhs, ast.Constant) and isinstance(rhs.value, int) and not isinstance(rhs.value, bool) and type(op) in _CMP:
            c = rhs.value
            return f"pyCmp .{_CMP[type(op)]} seed ({c})"
    raise ScanError(f"{SEED_FUNC}: condition `{src(node, 200)}` on the seed is outside the translated fragment")


def scan_seed_function(tree, al):
    fn = None
    for node in ast.walk(tree):
        if isinstance(node, ast.ClassDef) and node.name == SEED_CLASS:
            for b in node.body:
                if isinstance(b, ast.FunctionDef) and b.name == SEED_FUNC:
                    fn = b
    if fn is None:
        raise ScanError(f"{SEED_CLASS}.{SEED_FUNC} not found in {SEED_FILE}")
    args = [a.arg for a in fn.args.args]
    if len(args) != 2:
        raise ScanError(f"{SEED_FUNC}: expected (self, seed), found {args}")
    var = args[1]
    if any(isinstance(n, (ast.Return, ast.Try, ast.While, ast.For, ast.With, ast.Raise)) for n in ast.walk(fn)):
        raise ScanError(f"{SEED_FUNC}: control flow outside the translated fragment (return/try/loop/with/raise)")
    guard = None
    binds, calls = [], []

    def visit(stmts, in_guard, top):
        nonlocal guard
        for st in stmts:
            if isinstance(st, ast.If):
                rebinding = any(isinstance(n, ast.Assign) and any(isinstance(t, ast.Name) and t.id == var for t in n.targets)
                                for b in st.body for n in ast.walk(b))
                if rebinding and top:
                    if guard is not None:
                        raise ScanError(f"{SEED_FUNC}: more than one branch rebinds `{var}`")
                    if st.orelse:
                        raise ScanError(f"{SEED_FUNC}: the replacement branch has an else")
                    guard = st
                    visit(st.body, True, False)
                else:
                    visit(st.body, in_guard, False)
                    visit(st.orelse, in_guard, False)
                continue
            for n in ast.walk(st):
                if isinstance(n, (ast.Assign, ast.AugAssign, ast.AnnAssign)):
                    targets = n.targets if isinstance(n, ast.Assign) else [n.target]
                    for tg in targets:
                        name = dotted(tg)
                        if name in (var, "self.seed"):
                            val = src(n.value, 120) if n.value is not None else ""
                            if isinstance(n, ast.AugAssign):
                                val = "<augmented>" + val
                            binds.append(dict(line=n.lineno, target="seed" if name == var else "self.seed",
                                              value=val.replace(var, "seed") if val == var else val, inGuard=in_guard))
                if isinstance(n, ast.Call):
                    c = classify_call(n, al)
                    if c is not None and c[1] == "seed":
                        a = n.args[0] if n.args else _kw(n, "seed")
                        arg = src(a, 80) if a is not None else ""
                        if arg == var:
                            arg = "seed"
                        calls.append(dict(line=n.lineno, call=c[0], source=c[2], arg=arg,
                                          unconditional=bool(top and isinstance(st, ast.Expr) and st.value is n)))

    visit(fn.body, False, True)
    if guard is None:
        lean, text, line = "false", "<no branch rebinds the seed>", fn.lineno
    else:
        lean, text, line = guard_to_lean(guard.test, var), " ".join(ast.unparse(guard.test).split()).replace("-/", "- /"), guard.lineno
    seg = ast.get_source_segment  # noqa
    return dict(guard_lean=lean, guard_src=text, guard_line=line, binds=binds, calls=calls,
                first=fn.lineno, last=fn.end_lineno)


# ------------------------------------------------------------------------------------------------ constructor call order
CHAINS = {   # chain name -> (file, class) of the sampler FlowSampler constructs
    "standard": ("nessai/samplers/nestedsampler.py", "NestedSampler"),
    "importance": ("nessai/samplers/importancesampler.py", "ImportanceNestedSampler"),
}
FLOWSAMPLER = ("nessai/flowsampler.py", "FlowSampler")
BASE = ("nessai/samplers/base.py", "BaseNestedSampler")


def _find_init(trees, file, cls):
    for rel, tree in trees:
        if rel != file:
            continue
        for node in ast.walk(tree):
            if isinstance(node, ast.ClassDef) and node.name == cls:
                for b in node.body:
                    if isinstance(b, ast.FunctionDef) and b.name == "__init__":
                        return b
    raise ScanError(f"{cls}.__init__ not found in {file}")


def _calls_in_order(fn):
    """Call nodes of a function body (not of nested defs/lambdas), inner before outer, in source order"""
    out = []

    def walk(n):
        for c in ast.iter_child_nodes(n):
            if isinstance(c, (ast.FunctionDef, ast.AsyncFunctionDef, ast.Lambda, ast.ClassDef)):
                continue
            walk(c)
            if isinstance(c, ast.Call):
                out.append(c)

    for st in fn.body:
        walk(st)
        if isinstance(st, ast.Call):
            out.append(st)
    out.sort(key=lambda c: (c.end_lineno, c.end_col_offset))
    return out


def scan_constructor_chain(trees, aliases, drawing, chain):
    """the calls executed by FlowSampler(...) for a new (not resumed) run, in order: FlowSampler.__init__ with the
    sampler construction expanded into <Sampler>.__init__ and its `super().__init__` into BaseNestedSampler.__init__.
    Each step: does the callee (by name) draw random numbers; is it the seeding step."""
    sfile, scls = CHAINS[chain]
    steps = []

    def resume_branch_calls(fn):
        """ids of the calls in the `if resume …:` branch of FlowSampler.__init__ (the sibling of the construction)"""
        skip = set()
        for node in ast.walk(fn):
            if isinstance(node, ast.If) and any(isinstance(c, ast.Call) and src(c.func) == "SamplerClass"
                                                 for b in node.orelse for c in ast.walk(b)):
                for b in node.body:
                    skip |= {id(c) for c in ast.walk(b) if isinstance(c, ast.Call)}
        return skip

    def emit(file, cls, fn, depth):
        al = aliases[file]
        skip = resume_branch_calls(fn) if depth == 0 else set()
        for c in _calls_in_order(fn):
            if id(c) in skip:
                continue
            text = src(c.func, 70)
            callee = c.func.attr if isinstance(c.func, ast.Attribute) else (c.func.id if isinstance(c.func, ast.Name) else "")
            if (file, cls) == FLOWSAMPLER and text == "SamplerClass" and depth == 0:
                # the non-resume construction is the call that passes `close_pool=`; resume paths pass the class as an argument
                steps.append(dict(file=file, func=f"{cls}.__init__", line=c.lineno, call=f"{scls}(…)", draws=False, seeds=False))
                emit(sfile, scls, _find_init(trees, sfile, scls), 1)
                continue
            if text == "super().__init__" and depth == 1:
                steps.append(dict(file=file, func=f"{cls}.__init__", line=c.lineno, call=text, draws=False, seeds=False))
                emit(BASE[0], BASE[1], _find_init(trees, *BASE), 2)
                continue
            if text in ("super", "logger.info", "logger.debug", "logger.warning", "logger.error", "logger.isEnabledFor"):
                continue
            seeds = callee == SEED_FUNC
            direct = classify_call(c, al)
            draws = (not seeds) and (callee in drawing or (direct is not None and direct[1] == "draw"))
            steps.append(dict(file=file, func=f"{cls}.__init__", line=c.lineno, call=text, draws=bool(draws), seeds=bool(seeds)))

    emit(FLOWSAMPLER[0], FLOWSAMPLER[1], _find_init(trees, *FLOWSAMPLER), 0)
    if not any(s["call"].startswith(scls + "(") for s in steps):
        raise ScanError(f"FlowSampler.__init__: construction of the sampler (SamplerClass(...)) not found")
    if not any(s["call"] == "super().__init__" for s in steps):
        raise ScanError(f"{scls}.__init__: super().__init__ not found")
    for i, s_ in enumerate(steps):
        s_["idx"] = i
    return steps

# ------------------------------------------------------------------------------------------------ whole package
def scan(repo):
    repo = Path(repo)
    pkg = repo / "nessai"
    files = sorted(p for p in pkg.rglob("*.py"))
    if not files:
        raise ScanError(f"no python sources under {pkg}")
    trees, h = [], hashlib.sha256()
    for p in files:
        rel = str(p.relative_to(repo))
        text = p.read_text()
        h.update(rel.encode() + b"\0" + text.encode() + b"\0")
        try:
            tree = ast.parse(text, filename=rel)
        except SyntaxError as e:
            raise ScanError(f"{rel} does not parse: {e}")
        annotate(tree)
        trees.append((rel, tree))
    reads, calls, sites = [], [], []
    aliases = {}
    for rel, tree in trees:
        al = aliases[rel] = Aliases(tree)
        r, c = scan_pool_reads(rel, tree)
        reads += r
        calls += c
        sites += scan_rng_sites(rel, tree, al)
    drawing, props = draw_names(trees, sites)
    guarded = []
    for rel, tree in trees:
        guarded += scan_guarded_draws(rel, tree, drawing, props, aliases[rel])
    seeded = sorted({s["source"] for s in sites
                     if s["kind"] == "seed" and s["func"].endswith("configure_random_seed")
                     and s["file"] == "nessai/samplers/base.py"})
    seedfn = None
    for rel, tree in trees:
        if rel == SEED_FILE:
            seedfn = scan_seed_function(tree, aliases[rel])
    if seedfn is None:
        raise ScanError(f"{SEED_FILE} not found")
    chains = {name: scan_constructor_chain(trees, aliases, drawing, name) for name in CHAINS}
    for s in sites:
        s.pop("_node", None)
    key = lambda d: (d["file"], d["line"], d.get("setting", ""), d.get("call", ""), d.get("method", ""), d.get("draw", ""))  # noqa
    return dict(reads=sorted(reads, key=key), calls=sorted(calls, key=key), sites=sorted(sites, key=key),
                guarded=sorted(guarded, key=key), seeded=seeded, seedfn=seedfn, chains=chains, n_files=len(files), sha256=h.hexdigest())


# ------------------------------------------------------------------------------------------------ rendering
def lstr(s):
    return '"' + s.replace("\\", "\\\\").replace('"', '\\"') + '"'


def render(t):
    L = []
    L.append("/- GENERATED by harness/c14_tables.py from the nessai sources — do not edit by hand.")
    L.append("   Regenerated on every run of the owning check (C14); written only when the text changes.")
    L.append(f"   source: every *.py under nessai/ ({t['n_files']} files); sha256 over (path, text) of all of them:")
    L.append(f"   {t['sha256']} -/")
    L.append("import NessaiVerif.Model.Tables")
    L.append("namespace NessaiVerif.Gen.Tables")
    L.append("open NessaiVerif.Tables")
    L.append("")
    L.append("/-- every read of a likelihood-parallelisation setting (`pool`, `n_pool`, `likelihood_chunksize`, `chunksize`,")
    L.append("`parallelise_prior`, `allow_vectorised`) anywhere in the package: attribute loads, local-name loads, keyed lookups -/")
    L.append("def poolReads : List PoolRead := [")
    rows = [f"  ⟨{lstr(r['file'])}, {lstr(r['func'])}, {r['line']}, {lstr(r['setting'])}, .{r['kind']}⟩  -- {r['expr']}"
            for r in t["reads"]]
    L += _commas(rows)
    L.append("]")
    L.append("")
    L.append("/-- every method called on a pool object -/")
    L.append("def poolCalls : List PoolCall := [")
    rows = [f"  ⟨{lstr(r['file'])}, {lstr(r['func'])}, {r['line']}, {lstr(r['method'])}⟩  -- {r['expr']}" for r in t["calls"]]
    L += _commas(rows)
    L.append("]")
    L.append("")
    L.append("/-- every random-number call site of the package -/")
    L.append("def rngSites : List RngSite := [")
    rows = [f"  ⟨{lstr(r['file'])}, {lstr(r['func'])}, {r['line']}, {lstr(r['call'])}, .{r['kind']}, .{r['source']}⟩" for r in t["sites"]]
    L += _commas(rows)
    L.append("]")
    L.append("")
    L.append("/-- the sources seeded in `BaseNestedSampler.configure_random_seed` (nessai/samplers/base.py) -/")
    L.append("def seededSources : List RngSource := [" + ", ".join("." + s for s in t["seeded"]) + "]")
    L.append("")
    L.append("/-- draws of random numbers that are executed conditionally on a parallelisation setting -/")
    L.append("def guardedDraws : List GuardedDraw := [")
    rows = [f"  ⟨{lstr(r['file'])}, {lstr(r['func'])}, {r['line']}, {lstr(r['setting'])}, {lstr(r['draw'])}⟩" for r in t["guarded"]]
    L += _commas(rows)
    L.append("]")
    L.append("")
    sf = t["seedfn"]
    L.append(f"/- source: {SEED_FILE} lines {sf['first']}-{sf['last']} ({SEED_CLASS}.{SEED_FUNC}); guard at line {sf['guard_line']}:")
    L.append(f"   if {sf['guard_src']}: seed = <random replacement> -/")
    L.append("/-- is the seed argument REPLACED by a randomly drawn one? (the condition of the branch that rebinds `seed`) -/")
    L.append("def seedReplaced (seed : Option Int) : Bool := " + sf["guard_lean"])
    L.append("")
    L.append("/-- every assignment to `seed` / `self.seed` in `configure_random_seed` -/")
    L.append("def seedBinds : List SeedBind := [")
    L += _commas([f"  ⟨{b['line']}, {lstr(b['target'])}, {lstr(b['value'])}, {'true' if b['inGuard'] else 'false'}⟩" for b in sf["binds"]])
    L.append("]")
    L.append("")
    L.append("/-- every seeding call in `configure_random_seed`: generator, argument, and whether it is a top-level statement -/")
    L.append("def seedCalls : List SeedCall := [")
    L += _commas([f"  ⟨{c['line']}, {lstr(c['call'])}, .{c['source']}, {lstr(c['arg'])}, {'true' if c['unconditional'] else 'false'}⟩"
                  for c in sf["calls"]])
    L.append("]")
    L.append("")
    for name in sorted(t["chains"]):
        L.append(f"/-- the calls executed by `FlowSampler(...)` for a new {name} run, in order (sampler construction and")
        L.append("`super().__init__` expanded in place); `draws`: the callee (by name) can draw random numbers; `seeds`: it is")
        L.append("`configure_random_seed` -/")
        L.append(f"def constructorChain{name.capitalize()} : List CallStep := [")
        L += _commas([f"  ⟨{c['idx']}, {lstr(c['file'])}, {lstr(c['func'])}, {c['line']}, {lstr(c['call'])}, "
                      f"{'true' if c['draws'] else 'false'}, {'true' if c['seeds'] else 'false'}⟩" for c in t["chains"][name]])
        L.append("]")
        L.append("")
    L.append("end NessaiVerif.Gen.Tables")
    return "\n".join(L) + "\n"


def _commas(rows):
    """put the separating comma before a trailing `-- comment`"""
    out = []
    for i, r in enumerate(rows):
        last = i == len(rows) - 1
        if "  -- " in r:
            a, b = r.split("  -- ", 1)
            out.append(a + ("" if last else ",") + "  -- " + b.replace("\n", " "))
        else:
            out.append(r + ("" if last else ","))
    return out


def write_if_changed(path, text):
    path = Path(path)
    if path.exists() and path.read_text() == text:
        return False
    path.write_text(text)
    return True


if __name__ == "__main__":
    import sys
    t = scan(sys.argv[1] if len(sys.argv) > 1 else "/repo")
    sys.stdout.write(render(t))
