import NessaiVerif.Model.Encode
/- helper lemmas for C19, HDF5 side (core Lean only) -/
namespace NessaiVerif.Encode

def keyStr : Key → String
  | .str s => s
  | _ => ""

mutual
/-- the container a safe dictionary is expected to produce -/
def imgVal (sent : String) : Tree → H5
  | .dict kvs => .grp (imgKvs sent kvs)
  | v => .ds (h5Encode sent v)
def imgKvs (sent : String) : List (Key × Tree) → Kids
  | [] => []
  | (k, v) :: rest => (keyStr k, imgVal sent v) :: imgKvs sent rest
end

theorem lookupKid_append_self (k : String) (h : H5) : ∀ f : Kids, lookupKid k f = none →
    lookupKid k (f ++ [(k, h)]) = some h
  | [], _ => by simp [lookupKid]
  | (k', h') :: f, hn => by
      by_cases hk : k' = k
      · simp [lookupKid, hk] at hn
      · simp only [lookupKid, hk, if_false] at hn
        simp [lookupKid, hk, lookupKid_append_self k h f hn]

theorem lookupKid_append_other (k s : String) (h : H5) (hs : s ≠ k) : ∀ f : Kids, lookupKid s f = none →
    lookupKid s (f ++ [(k, h)]) = none
  | [], _ => by simp [lookupKid, Ne.symm hs]
  | (k', h') :: f, hn => by
      by_cases hk : k' = s
      · simp [lookupKid, hk] at hn
      · simp only [lookupKid, hk, if_false] at hn
        simp [lookupKid, hk, lookupKid_append_other k s h hs f hn]

theorem setKid_append_self (k : String) (h h' : H5) : ∀ f : Kids, lookupKid k f = none →
    setKid k h' (f ++ [(k, h)]) = f ++ [(k, h')]
  | [], _ => by simp [setKid]
  | (k', h'') :: f, hn => by
      by_cases hk : k' = k
      · simp [lookupKid, hk] at hn
      · simp only [lookupKid, hk, if_false] at hn
        simp [setKid, hk, setKid_append_self k h h' f hn]

theorem insertAll_append : ∀ (a b : List (Path × Tree)) (f f' : Kids), insertAll a f = .ok f' →
    insertAll (a ++ b) f = insertAll b f'
  | [], b, f, f', h => by simp [insertAll] at h; simp [h]
  | (p, v) :: a, b, f, f', h => by
      simp only [insertAll, List.cons_append] at h ⊢
      cases hi : insertKids p v f with
      | error e => simp [hi] at h
      | ok f1 =>
        simp only [hi] at h ⊢
        exact insertAll_append a b f1 f' h

/-- inserting below an existing group `k` (last child) = inserting into that group -/
theorem insertAll_under (k : String) : ∀ (es : List (Path × Tree)), (∀ e ∈ es, e.1 ≠ []) →
    ∀ (f g0 g : Kids), lookupKid k f = none → insertAll es g0 = .ok g →
    insertAll (es.map (fun e => (k :: e.1, e.2))) (f ++ [(k, .grp g0)]) = .ok (f ++ [(k, .grp g)])
  | [], _, f, g0, g, _, h => by simp [insertAll] at h; simp [insertAll, h]
  | (p, v) :: es, hne, f, g0, g, hf, h => by
      have hp : p ≠ [] := hne (p, v) (by simp)
      match p, hp with
      | k2 :: p', _ =>
        simp only [insertAll] at h
        cases hi : insertKids (k2 :: p') v g0 with
        | error e => simp [hi] at h
        | ok g1 =>
          simp only [hi] at h
          have ih := insertAll_under k es (fun e he => hne e (by simp [he])) f g1 g hf h
          simp only [List.map_cons, insertAll, insertKids, lookupKid_append_self k _ f hf, hi]
          simp only [bind, Except.bind, pure, Except.pure, setKid_append_self k _ _ f hf]
          exact ih

/-- the first insertion below a fresh name creates the group -/
theorem insertAll_fresh (k : String) (es : List (Path × Tree)) (hne : ∀ e ∈ es, e.1 ≠ []) (hes : es ≠ [])
    (f g : Kids) (hf : lookupKid k f = none) (h : insertAll es [] = .ok g) :
    insertAll (es.map (fun e => (k :: e.1, e.2))) f = .ok (f ++ [(k, .grp g)]) := by
  match es, hes with
  | (p, v) :: es, _ =>
    have hp : p ≠ [] := hne (p, v) (by simp)
    match p, hp with
    | k2 :: p', _ =>
      simp only [insertAll] at h
      cases hi : insertKids (k2 :: p') v [] with
      | error e => simp [hi] at h
      | ok g1 =>
        simp only [hi] at h
        have ih := insertAll_under k es (fun e he => hne e (by simp [he])) f g1 g hf h
        simp only [List.map_cons, insertAll, insertKids, hf, hi]
        simp only [bind, Except.bind, pure, Except.pure]
        exact ih

def FreshIn (kvs : List (Key × Tree)) (f : Kids) : Prop :=
  ∀ k ∈ keysOf kvs, ∀ s, k = .str s → lookupKid s f = none

mutual
theorem write_val (sent : String) : ∀ v : Tree, H5Safe sent v →
    ∃ es, flattenVal sent v = .ok es ∧ es ≠ [] ∧
      ∀ (k : String) (f : Kids), lookupKid k f = none →
        insertAll (es.map (fun e => ([k] ++ e.1, e.2))) f = .ok (f ++ [(k, imgVal sent v)])
  | .dict kvs, hs => by
      have hs' : kvs ≠ [] ∧ H5SafeKvs sent kvs := by simpa [H5Safe] using hs
      obtain ⟨es, hfl, hne, hnn, hins⟩ := write_kvs sent kvs hs'.2
      refine ⟨es, by simpa [flattenVal] using hfl, hnn hs'.1, ?_⟩
      intro k f hf
      have h0 := hins [] (by intro k _ s _; simp [lookupKid])
      simp only [List.nil_append] at h0
      simpa [imgVal] using insertAll_fresh k es hne (hnn hs'.1) f _ hf h0
  | .list xs, _ => by
      refine ⟨[([], h5Encode sent (.list xs))], by simp [flattenVal], by simp, ?_⟩
      intro k f hf
      simp [insertAll, insertKids, hf, imgVal]
  | .tuple xs, _ => by
      refine ⟨[([], h5Encode sent (.tuple xs))], by simp [flattenVal], by simp, ?_⟩
      intro k f hf
      simp [insertAll, insertKids, hf, imgVal]
  | .int i, _ => by
      refine ⟨[([], h5Encode sent (.int i))], by simp [flattenVal], by simp, ?_⟩
      intro k f hf
      simp [insertAll, insertKids, hf, imgVal]
  | .float b, _ => by
      refine ⟨[([], h5Encode sent (.float b))], by simp [flattenVal], by simp, ?_⟩
      intro k f hf
      simp [insertAll, insertKids, hf, imgVal]
  | .str s, _ => by
      refine ⟨[([], h5Encode sent (.str s))], by simp [flattenVal], by simp, ?_⟩
      intro k f hf
      simp [insertAll, insertKids, hf, imgVal]
  | .none, _ => by
      refine ⟨[([], h5Encode sent (.none))], by simp [flattenVal], by simp, ?_⟩
      intro k f hf
      simp [insertAll, insertKids, hf, imgVal]
  | .bool b, _ => by
      refine ⟨[([], h5Encode sent (.bool b))], by simp [flattenVal], by simp, ?_⟩
      intro k f hf
      simp [insertAll, insertKids, hf, imgVal]
  | .ndarray a b c, _ => by
      refine ⟨[([], h5Encode sent (.ndarray a b c))], by simp [flattenVal], by simp, ?_⟩
      intro k f hf
      simp [insertAll, insertKids, hf, imgVal]
  | .structured a b c, _ => by
      refine ⟨[([], h5Encode sent (.structured a b c))], by simp [flattenVal], by simp, ?_⟩
      intro k f hf
      simp [insertAll, insertKids, hf, imgVal]
  | .npInt i, _ => by
      refine ⟨[([], h5Encode sent (.npInt i))], by simp [flattenVal], by simp, ?_⟩
      intro k f hf
      simp [insertAll, insertKids, hf, imgVal]
  | .npFloat a b c, _ => by
      refine ⟨[([], h5Encode sent (.npFloat a b c))], by simp [flattenVal], by simp, ?_⟩
      intro k f hf
      simp [insertAll, insertKids, hf, imgVal]
  | .npBool b, _ => by
      refine ⟨[([], h5Encode sent (.npBool b))], by simp [flattenVal], by simp, ?_⟩
      intro k f hf
      simp [insertAll, insertKids, hf, imgVal]
  | .npStr s, _ => by
      refine ⟨[([], h5Encode sent (.npStr s))], by simp [flattenVal], by simp, ?_⟩
      intro k f hf
      simp [insertAll, insertKids, hf, imgVal]
  | .opaque r, _ => by
      refine ⟨[([], h5Encode sent (.opaque r))], by simp [flattenVal], by simp, ?_⟩
      intro k f hf
      simp [insertAll, insertKids, hf, imgVal]
theorem write_kvs (sent : String) : ∀ kvs : List (Key × Tree), H5SafeKvs sent kvs →
    ∃ es, flattenKvs sent kvs = .ok es ∧ (∀ e ∈ es, e.1 ≠ []) ∧ (kvs ≠ [] → es ≠ []) ∧
      ∀ f : Kids, FreshIn kvs f → insertAll es f = .ok (f ++ imgKvs sent kvs)
  | [], _ => ⟨[], by simp [flattenKvs], by simp, by simp, by intro f _; simp [insertAll, imgKvs]⟩
  | (k, v) :: rest, hs => by
      have hs' : (∃ s, k = .str s ∧ segs s = [s]) ∧ k ∉ keysOf rest ∧ H5Safe sent v ∧ H5SafeKvs sent rest := by
        simpa [H5SafeKvs] using hs
      obtain ⟨⟨s, rfl, hseg⟩, hnot, hv, hr⟩ := hs'
      obtain ⟨here, hfv, hhere, hinsv⟩ := write_val sent v hv
      obtain ⟨more, hfr, hmne, _, hinsr⟩ := write_kvs sent rest hr
      refine ⟨here.map (fun e => ([s] ++ e.1, e.2)) ++ more, ?_, ?_, ?_, ?_⟩
      · simp [flattenKvs, hfv, hfr, hseg]; rfl
      · intro e he
        simp only [List.mem_append, List.mem_map] at he
        rcases he with ⟨e', _, rfl⟩ | he
        · simp
        · exact hmne e he
      · intro _
        cases here with
        | nil => exact absurd rfl hhere
        | cons e es => simp
      · intro f hfresh
        have hsf : lookupKid s f = none := hfresh (.str s) (by simp [keysOf]) s rfl
        rw [insertAll_append _ _ f _ (hinsv s f hsf)]
        have : FreshIn rest (f ++ [(s, imgVal sent v)]) := by
          intro k' hk' s' hs'
          subst hs'
          have hne : s' ≠ s := by
            intro h; subst h; exact hnot hk'
          exact lookupKid_append_other s s' _ hne f (hfresh (.str s') (by simp [keysOf, hk']) s' rfl)
        rw [hinsr _ this]
        simp [imgKvs, keyStr]
end

theorem decode_encode (sent : String) : ∀ v : Tree, (∀ s, v = .str s → s ≠ sent) →
    h5Decode sent (h5Encode sent v) = v
  | .none, _ => by simp [h5Encode, h5Decode]
  | .str s, h => by simp [h5Encode, h5Decode, h s rfl]
  | .dict _, _ | .list _, _ | .tuple _, _ | .int _, _ | .float _, _ | .bool _, _
  | .ndarray _ _ _, _ | .structured _ _ _, _ | .npInt _, _ | .npFloat _ _ _, _ | .npBool _, _
  | .npStr _, _ | .opaque _, _ => by simp [h5Encode, h5Decode]

mutual
theorem read_imgVal (sent : String) : ∀ v : Tree, H5Safe sent v → h5Read sent (imgVal sent v) = v
  | .dict kvs, hs => by
      have hs' : kvs ≠ [] ∧ H5SafeKvs sent kvs := by simpa [H5Safe] using hs
      simp [imgVal, h5Read, read_imgKvs sent kvs hs'.2]
  | .str s, hs => by
      have : s ≠ sent := by simpa [H5Safe] using hs
      simp [imgVal, h5Read, h5Encode, h5Decode, this]
  | .none, _ => by simp [imgVal, h5Read, h5Encode, h5Decode]
  | .list _, _ | .tuple _, _ | .int _, _ | .float _, _ | .bool _, _
  | .ndarray _ _ _, _ | .structured _ _ _, _ | .npInt _, _ | .npFloat _ _ _, _ | .npBool _, _
  | .npStr _, _ | .opaque _, _ => by simp [imgVal, h5Read, h5Encode, h5Decode]
theorem read_imgKvs (sent : String) : ∀ kvs : List (Key × Tree), H5SafeKvs sent kvs →
    h5ReadKids sent (imgKvs sent kvs) = kvs
  | [], _ => by simp [imgKvs, h5ReadKids]
  | (k, v) :: rest, hs => by
      have hs' : (∃ s, k = .str s ∧ segs s = [s]) ∧ k ∉ keysOf rest ∧ H5Safe sent v ∧ H5SafeKvs sent rest := by
        simpa [H5SafeKvs] using hs
      obtain ⟨⟨s, rfl, _⟩, _, hv, hr⟩ := hs'
      simp [imgKvs, h5ReadKids, keyStr, read_imgVal sent v hv, read_imgKvs sent rest hr]
end

theorem h5RoundTrip_safe (sent : String) (kvs : List (Key × Tree)) (hs : H5SafeKvs sent kvs) :
    h5RoundTrip sent kvs = .ok (.dict kvs) := by
  obtain ⟨es, hfl, _, _, hins⟩ := write_kvs sent kvs hs
  have h0 := hins [] (by intro k _ s _; simp [lookupKid])
  simp only [List.nil_append] at h0
  simp [h5RoundTrip, h5Write, hfl, h0, read_imgKvs sent kvs hs]

theorem splitSlashAux_free : ∀ (cs cur : List Char), '/' ∉ cs → splitSlashAux cs cur = [cur.reverse ++ cs]
  | [], cur, _ => by simp [splitSlashAux]
  | c :: cs, cur, h => by
      have h' : c ≠ '/' ∧ '/' ∉ cs := by
        constructor
        · intro hc; exact h (by simp [hc])
        · intro hc; exact h (by simp [hc])
      simp [splitSlashAux, h'.1, splitSlashAux_free cs (c :: cur) h'.2]

/-- a non-empty key without '/' other than "." is exactly one path segment -/
theorem segs_single (k : String) (h1 : '/' ∉ k.toList) (h2 : k ≠ "") (h3 : k ≠ ".") : segs k = [k] := by
  have hl : k.toList ≠ [] := by
    intro h; apply h2; exact String.toList_eq_nil_iff.mp h
  have hd : k.toList ≠ ['.'] := by
    intro h; apply h3
    have : String.ofList k.toList = String.ofList ['.'] := by rw [h]
    simpa using this
  simp [segs, splitSlashAux_free _ _ h1, hl, hd]

end NessaiVerif.Encode
