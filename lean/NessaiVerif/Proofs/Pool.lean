import NessaiVerif.Model.Pool
/-
Helper lemmas for C09 (core Lean only).
-/
namespace NessaiVerif.Pool
open EV

/-! ### float semantics -/

theorem gt_true_left {a u : EV} (h : gt a u = true) : a ≠ .nan ∧ a ≠ .ninf := by
  cases a <;> cases u <;> simp [gt] at h ⊢

theorem sub_ninf_left (m : EV) : sub .ninf m = .nan ∨ sub .ninf m = .ninf := by
  cases m <;> simp [sub]

theorem sub_nan_left (m : EV) : sub .nan m = .nan := by
  cases m <;> simp [sub]

/-- an accepted point of the flow branch has a log-weight that is neither NaN nor −inf -/
theorem acceptFlow_weight {lw m u : EV} (h : acceptFlow lw m u = true) : lw ≠ .nan ∧ lw ≠ .ninf := by
  unfold acceptFlow at h
  have := gt_true_left h
  constructor
  · intro e; subst e; exact this.1 (sub_nan_left m)
  · intro e; subst e; rcases sub_ninf_left m with h' | h' <;> simp [h'] at this

theorem acceptRej_weight {lw m u : EV} (h : acceptRej lw m u = true) : lw ≠ .nan ∧ lw ≠ .ninf := by
  unfold acceptRej at h
  constructor
  · intro e; subst e; rw [sub_nan_left, sub_nan_left] at h; simp [ge] at h
  · intro e; subst e
    rcases sub_ninf_left m with h' | h' <;> rw [h'] at h
    · rw [sub_nan_left] at h; simp [ge] at h
    · rcases sub_ninf_left u with h'' | h'' <;> rw [h''] at h <;> simp [ge] at h

/-- with a finite proposal density the weight is NaN / −inf exactly when the prior is -/
theorem logWeight_of_prior {c : Cand} (hq : c.logq.isFinite = true) :
    (logWeight c ≠ .nan ∧ logWeight c ≠ .ninf) → (c.logp ≠ .nan ∧ c.logp ≠ .ninf) := by
  unfold logWeight
  cases hq' : c.logq <;> simp [hq', isFinite] at hq
  cases c.logp <;> simp [sub]

theorem finite_of_not {p : EV} (h1 : p ≠ .nan) (h2 : p ≠ .ninf) (h3 : p ≠ .pinf) : p.isFinite = true := by
  cases p <;> simp_all [isFinite]

/-! ### filters -/

theorem mem_checkPriorBounds {cs : List Cand} {c : Cand} :
    c ∈ checkPriorBounds cs ↔ c ∈ cs ∧ c.inb = true := by
  simp [checkPriorBounds]

theorem mem_backwardPass {cs : List Cand} {c : Cand} :
    c ∈ backwardPass cs ↔ c ∈ cs ∧ c.logq.isFinite = true ∧ c.inb = true := by
  simp [backwardPass, backwardPassX, checkPriorBounds]
  intro _; exact And.comm

theorem mem_truncate {t : Option EV} {cs : List Cand} {c : Cand} (h : c ∈ truncate t cs) : c ∈ cs := by
  cases t with
  | none => simpa [truncate] using h
  | some m => simp [truncate] at h; exact h.1

theorem mem_survivors {t : Option EV} {b : List Cand} {c : Cand} (h : c ∈ survivors t b) :
    c ∈ b ∧ c.logq.isFinite = true ∧ c.inb = true :=
  mem_backwardPass.1 (mem_truncate h)

theorem mem_survivors_filter {t : Option EV} {b : List Cand} {c : Cand} (h : c ∈ survivors t b) :
    c ∈ checkPriorBounds b := by
  have := mem_survivors h
  exact mem_checkPriorBounds.2 ⟨this.1, this.2.2⟩

theorem map_some_ne_none {α : Type} (l : List α) : ∀ s ∈ l.map some, s ≠ none := by
  intro s hs
  simp only [List.mem_map] at hs
  obtain ⟨c, _, rfl⟩ := hs
  simp

/-! ### masks -/

theorem select_sublist {α : Type} : ∀ (m : List Bool) (xs : List α), (select m xs).Sublist xs
  | [], xs => by cases xs <;> simp [select]
  | b :: bs, [] => by simp [select]
  | b :: bs, x :: xs => by
    cases b
    · simpa [select] using (select_sublist bs xs).cons x
    · simpa [select] using (select_sublist bs xs).cons_cons x

theorem mem_of_mem_select {α : Type} {m : List Bool} {xs : List α} {x : α} (h : x ∈ select m xs) : x ∈ xs :=
  (select_sublist m xs).subset h

theorem length_select {α : Type} : ∀ (m : List Bool) (xs : List α), m.length = xs.length →
    (select m xs).length = countTrue m
  | [], [], _ => by simp [select, countTrue]
  | [], _ :: _, h => by simp at h
  | _ :: _, [], h => by simp at h
  | b :: bs, x :: xs, h => by
    have ih := length_select bs xs (by simpa using h)
    cases b <;> simp [select, countTrue, ih] <;> simp [countTrue] at ih ⊢

theorem length_acceptMask : ∀ (lws : List EV) (c : EV) (us : List EV), (acceptMask lws c us).length = lws.length
  | [], _, _ => rfl
  | _ :: ws, c, us => by simp [acceptMask, length_acceptMask ws c us.tail]

theorem length_rejectMask : ∀ (lws : List EV) (c : EV) (us : List EV), (rejectMask lws c us).length = lws.length
  | [], _, _ => rfl
  | _ :: ws, c, us => by simp [rejectMask, length_rejectMask ws c us.tail]

/-- every selected element passed the flow acceptance test with some uniform of the call -/
theorem mem_select_acceptMask {α : Type} (f : α → EV) (m : EV) :
    ∀ (xs : List α) (us : List EV) (x : α), x ∈ select (acceptMask (xs.map f) m us) xs →
      x ∈ xs ∧ ∃ u, acceptFlow (f x) m u = true
  | [], _, _, h => by simp [select, acceptMask] at h
  | y :: ys, us, x, h => by
    simp only [List.map_cons, acceptMask] at h
    by_cases hy : acceptFlow (f y) m (us.headD .nan) = true
    · simp only [hy, select, if_true, List.mem_cons] at h
      rcases h with h | h
      · subst h; exact ⟨List.mem_cons_self, _, hy⟩
      · have := mem_select_acceptMask f m ys us.tail x h
        exact ⟨List.mem_cons_of_mem _ this.1, this.2⟩
    · have hy' : acceptFlow (f y) m (us.headD .nan) = false := by simpa using hy
      simp only [hy', select] at h
      have := mem_select_acceptMask f m ys us.tail x (by simpa using h)
      exact ⟨List.mem_cons_of_mem _ this.1, this.2⟩

theorem mem_select_rejectMask {α : Type} (f : α → EV) (m : EV) :
    ∀ (xs : List α) (us : List EV) (x : α), x ∈ select (rejectMask (xs.map f) m us) xs →
      x ∈ xs ∧ ∃ u, acceptRej (f x) m u = true
  | [], _, _, h => by simp [select, rejectMask] at h
  | y :: ys, us, x, h => by
    simp only [List.map_cons, rejectMask] at h
    by_cases hy : acceptRej (f y) m (us.headD .nan) = true
    · simp only [hy, select, if_true, List.mem_cons] at h
      rcases h with h | h
      · subst h; exact ⟨List.mem_cons_self, _, hy⟩
      · have := mem_select_rejectMask f m ys us.tail x h
        exact ⟨List.mem_cons_of_mem _ this.1, this.2⟩
    · have hy' : acceptRej (f y) m (us.headD .nan) = false := by simpa using hy
      simp only [hy', select] at h
      have := mem_select_rejectMask f m ys us.tail x (by simpa using h)
      exact ⟨List.mem_cons_of_mem _ this.1, this.2⟩

/-- a point accepted by the flow branch: in bounds, finite density, prior neither NaN nor −inf -/
theorem plainAccepted_spec {t : Option EV} {b : List Cand} {u : List EV} {c : Cand}
    (h : c ∈ plainAccepted t b u) :
    c ∈ survivors t b ∧ ∃ m lu, acceptFlow (logWeight c) m lu = true := by
  unfold plainAccepted logWeights at h
  have := mem_select_acceptMask logWeight _ _ _ _ h
  exact ⟨this.1, _, this.2⟩

end NessaiVerif.Pool
