"""C11 fault injection: kill the real write protocols at a chosen file operation / byte offset.

`Injector` wraps (unittest.mock.patch, only while a protocol function is running) os.path.exists, shutil.move,
os.replace, os.rename, builtins.open, pickle.dump and torch.save.  Every wrapped call on a tracked file is one
*operation* (the same alphabet as the Lean model: E exists-check, M move, O open-truncate, W pickle write,
X close (= the point after the write, still inside the `with`), S torch.save).  The injector raises `Kill`
(a BaseException, so no `except Exception` in nessai can swallow it) either *before* operation j, or *inside*
a W/S operation after exactly k bytes have reached the file.  The functions under test themselves are not modified.
"""
import builtins
import contextlib
import io
import os
import pickle
import shutil
from unittest import mock

import torch

_real = dict(exists=os.path.exists, move=shutil.move, replace=os.replace, rename=os.rename, open=builtins.open,
             dump=pickle.dump, dumps=pickle.dumps, save=torch.save)


class Kill(BaseException):
    """the injected process death"""


def resolve_k(k, n):
    """k spec -> byte count: int | 'half' | 'last' (n-1) | 'full' (n)"""
    if k == "half":
        return n // 2
    if k == "last":
        return max(n - 1, 0)
    if k == "full":
        return n
    return int(k)


class TrackedFile:
    """the handle returned by a wrapped open(): forwards everything to the real file; closing it is the operation X.
    A kill never flushes it — the harness lets Python close it while unwinding and then truncates the file back to
    what was on disk at the kill (Injector.restore_disk)."""

    def __init__(self, f, inj, path):
        self._f, self._inj, self._path, self._written = f, inj, path, False
        inj.open_files.append(self)

    def __getattr__(self, a):
        return getattr(self._f, a)

    def write(self, b):
        self._written = True
        return self._f.write(b)

    def __enter__(self):
        return self

    def __exit__(self, et, ev, tb):
        if et is None:
            self.close()
        else:
            self._really_close()
        return False

    def close(self):
        if self._f.closed:
            return
        try:
            if self._inj.cur is not None and not self._inj.inner:
                self._inj._tick("X", self._path)
        finally:
            self._really_close()

    def _really_close(self):
        try:
            self._f.close()
        finally:
            if self in self._inj.open_files:
                self._inj.open_files.remove(self)


class Injector:
    def __init__(self, root):
        self.root = os.path.realpath(root)
        self.calls = []          # one record per protocol call: dict(kind, ops=[...], crashed, j, k, len)
        self.target = None       # (call_index, j, kspec|None)
        self.cur = None
        self.inner = 0
        self.fired = False
        self.open_files = []     # TrackedFile objects not yet closed
        self.snapshot = None     # on-disk sizes at the instant of the kill

    # ------------------------------------------------------------------ bookkeeping
    def tracked(self, path):
        try:
            p = os.path.realpath(os.fspath(path))
        except TypeError:
            return False
        return p.startswith(self.root + os.sep) and os.path.basename(p).split(".")[0] in ("ckpt", "model")

    def rel(self, path):
        return os.path.relpath(os.path.realpath(os.fspath(path)), self.root)

    def arm(self, call_index, j, k=None):
        """call_index: absolute index of the protocol call, or 'c<n>' / 't<n>' = the n-th checkpoint / weights-save
        call from now on; j: operation index, or an operation letter (first operation of that kind)"""
        self.target = (call_index, j, k)
        self.fired = False
        self.kind_counts = {}

    def disarm(self):
        self.target = None

    def _disk_state(self):
        """what a fresh descriptor sees at this instant: sizes of the tracked files, and the on-disk size of the
        file that was written through a still-open handle (its unflushed tail is lost by a kill)"""
        snap = {}
        for root, _, files in os.walk(self.root):
            for f in files:
                p = os.path.join(root, f)
                if self.tracked(p):
                    snap[p] = os.stat(p).st_size
        flushed = None
        for tf in self.open_files:
            if tf._written and not tf._f.closed:
                flushed = os.fstat(tf._f.fileno()).st_size
        return snap, flushed

    def _die(self, msg, **fields):
        self.fired = True
        self.snapshot, flushed = self._disk_state()
        self.cur.update(crashed=True, flushed=flushed, **fields)
        raise Kill(msg)

    def restore_disk(self):
        """after the stack has unwound (context managers closed and thereby flushed their files): put back exactly
        what was on disk when the process died"""
        snap, self.snapshot = self.snapshot, None
        if snap is None:
            return
        for root, _, files in os.walk(self.root):
            for f in files:
                p = os.path.join(root, f)
                if not self.tracked(p):
                    continue
                if p not in snap:
                    os.remove(p)
                elif os.stat(p).st_size > snap[p]:
                    os.truncate(p, snap[p])

    def _tick(self, kind, path, atomic=True):
        """called before an operation starts; returns the k spec if the kill is *inside* this (non-atomic) op"""
        c = self.cur
        idx = len(c["ops"])
        if self.target and not self.fired and self._match_call(c) and \
                (self.target[1] == idx or (self.target[1] == kind and kind not in c["ops"])):
            kspec = self.target[2]
            if kspec is None or atomic:
                # killed before the operation started (an atomic operation has no inside)
                self._die(f"before op {idx} of call {c['index']}", j=idx, k=None if kspec is None else 0,
                          atomic_inside=kspec is not None)
            c["ops"].append(kind)
            c["paths"].append(self.rel(path))
            return kspec
        c["ops"].append(kind)
        c["paths"].append(self.rel(path))
        return None

    def _match_call(self, c):
        sel = self.target[0]
        if isinstance(sel, str):
            return c["kind"] == sel[0] and c.get("nth") == int(sel[1:])
        return sel == c["index"]

    def _die_inside(self, idx, k, n):
        self._die(f"inside op {idx} of call {self.cur['index']} after {k}/{n} bytes", j=idx, k=k, len=n)

    # ------------------------------------------------------------------ wrappers
    def w_exists(self, path):
        if self.cur is not None and not self.inner and self.tracked(path):
            self._tick("E", path)
        return _real["exists"](path)

    def _w_move(self, name):
        def f(src, dst, *a, **kw):
            if self.cur is not None and not self.inner and self.tracked(src):
                self._tick("M", src)
            self.inner += 1
            try:
                return _real[name](src, dst, *a, **kw)
            finally:
                self.inner -= 1
        return f

    def w_open(self, file, mode="r", *a, **kw):
        if self.cur is not None and not self.inner and isinstance(file, (str, os.PathLike)) and "w" in mode \
                and self.tracked(file):
            self._tick("O", file)
            return TrackedFile(_real["open"](file, mode, *a, **kw), self, file)
        return _real["open"](file, mode, *a, **kw)

    def w_dump(self, obj, file, *a, **kw):
        name = getattr(file, "name", None)
        if self.cur is None or self.inner or name is None or not self.tracked(name):
            return _real["dump"](obj, file, *a, **kw)
        idx = len(self.cur["ops"])
        kspec = self._tick("W", name, atomic=False)
        if kspec is not None:
            self.inner += 1
            try:
                data = _real["dumps"](obj, *a, **kw)
            finally:
                self.inner -= 1
            k = min(resolve_k(kspec, len(data)), len(data))
            file.write(data[:k])
            file.flush()           # exactly k bytes have reached the disk
            self._die_inside(idx, k, len(data))
        # the REAL pickle.dump through the real buffered writer: what is flushed and what stays in the user-space
        # buffer is decided by CPython, not by the harness; the close of the handle is its own operation (X),
        # ticked by TrackedFile.close where the code really closes it
        start = file.tell()
        self.inner += 1
        try:
            _real["dump"](obj, file, *a, **kw)
        finally:
            self.inner -= 1
        self.cur["len"] = file.tell() - start

    def w_save(self, obj, f, *a, **kw):
        if self.cur is None or self.inner or not isinstance(f, (str, os.PathLike)) or not self.tracked(f):
            return _real["save"](obj, f, *a, **kw)
        idx = len(self.cur["ops"])
        kspec = self._tick("S", f, atomic=False)
        self.inner += 1
        try:
            buf = io.BytesIO()
            _real["save"](obj, buf, *a, **kw)
            data = buf.getvalue()
            self.cur["len"] = len(data)
            if kspec is not None:
                k = min(resolve_k(kspec, len(data)), len(data))
                with _real["open"](f, "wb") as fh:
                    fh.write(data[:k])
                self._die_inside(idx, k, len(data))
            return _real["save"](obj, f, *a, **kw)
        finally:
            self.inner -= 1

    @contextlib.contextmanager
    def protocol_call(self, kind, meta=None):
        """everything inside is one call of a write protocol (safe_file_dump / save_weights)"""
        if self.cur is not None:      # nested (ImportanceFlowModel.save_weights -> FlowModel.save_weights)
            yield self.cur
            return
        rec = dict(index=len(self.calls), kind=kind, ops=[], paths=[], crashed=False, j=None, k=None, len=None)
        rec.update(meta or {})
        if self.target is not None:
            kc = getattr(self, "kind_counts", {})
            rec["nth"] = kc.get(kind, 0)
            kc[kind] = rec["nth"] + 1
            self.kind_counts = kc
        self.calls.append(rec)
        self.cur = rec
        patches = [mock.patch("os.path.exists", self.w_exists), mock.patch("shutil.move", self._w_move("move")),
                   mock.patch("os.replace", self._w_move("replace")), mock.patch("os.rename", self._w_move("rename")),
                   mock.patch("builtins.open", self.w_open), mock.patch("pickle.dump", self.w_dump),
                   mock.patch("torch.save", self.w_save)]
        try:
            with contextlib.ExitStack() as st:
                for p in patches:
                    st.enter_context(p)
                yield rec
        finally:
            self.cur = None
            for tf in list(self.open_files):
                tf._really_close()
            self.restore_disk()

    # ------------------------------------------------------------------ whole-run instrumentation
    @contextlib.contextmanager
    def instrument(self, ckpt_meta=None):
        """route every safe_file_dump (as called by BaseNestedSampler.checkpoint) and every FlowModel.save_weights
        of a real run through `protocol_call`; the real functions run unmodified inside."""
        import nessai.samplers.base as sb
        from nessai.flowmodel.base import FlowModel
        real_dump = sb.safe_file_dump
        real_sw = FlowModel.save_weights
        inj = self

        def dump(data, filename, module, save_existing=False):
            meta = dict(se=bool(save_existing), file=inj.rel(filename))
            if ckpt_meta:
                meta.update(ckpt_meta(data))
            with inj.protocol_call("c", meta):
                return real_dump(data, filename, module, save_existing=save_existing)

        def save_weights(self_, weights_file):
            with inj.protocol_call("t", dict(file=inj.rel(weights_file))):
                return real_sw(self_, weights_file)

        with mock.patch.object(sb, "safe_file_dump", dump), mock.patch.object(FlowModel, "save_weights", save_weights):
            yield self


def run_in_child(fn, timeout=60.0):
    """run fn() in a forked child; -> (ok, result).  The child cannot hurt the harness process."""
    import select
    import signal
    import time
    r, w = os.pipe()
    pid = os.fork()
    if pid == 0:
        code = 0
        try:
            os.close(r)
            try:
                res = fn()
            except BaseException as e:  # noqa
                res = ("child-error", type(e).__name__, str(e)[:200])
            with os.fdopen(w, "wb") as fh:
                _real["dump"](res, fh)
        except BaseException:  # noqa
            code = 1
        finally:
            os._exit(code)
    os.close(w)
    data = b""
    t0 = time.time()
    ok = True
    while True:
        left = timeout - (time.time() - t0)
        if left <= 0:
            ok = False
            break
        rd, _, _ = select.select([r], [], [], left)
        if not rd:
            ok = False
            break
        chunk = os.read(r, 65536)
        if not chunk:
            break
        data += chunk
    os.close(r)
    if not ok:
        try:
            os.kill(pid, signal.SIGKILL)
        except OSError:
            pass
    os.waitpid(pid, 0)
    if not ok or not data:
        return False, None
    try:
        return True, pickle.loads(data)
    except Exception:  # noqa
        return False, None
