"""C20 — option sweep on the real samplers (oracle / failing-input search; evidence, not proof).

One run = FlowSampler(model, **options).run(**run_options) on a 2-parameter model with tiny settings, executed
in-process under
  * a draw budget: every population / latent batch / importance draw is counted and the run is aborted far above
    the nominal cost (`BudgetExceeded`),
  * a wall-clock bound (SIGALRM -> `WallClockExceeded`),
  * phase tracking: construct -> init -> sampling (from the first `populate_live_points`) -> post (from `finalise`).
The property demands: the run raises before the phase `sampling` starts (rejected up front), or it returns with a
finite log-evidence, nested samples sorted by log-likelihood and posterior samples.
"""
import copy
import itertools
import math
import shutil
import signal
import tempfile
import time
import traceback
from unittest import mock

import numpy as np


class BudgetExceeded(BaseException):
    pass


class WallClockExceeded(BaseException):
    pass


class SlowPopulation(BaseException):
    """a population far above the nominal cost that IS accepting points (low acceptance, not a spin)"""


# ------------------------------------------------------------------------------------------------
# option tables.  An entry is (label, {placement: {name: value}}); placement in init / run / flow / training
# ------------------------------------------------------------------------------------------------
def opt(label, **kw):
    return (label, kw)


STD_BASE = dict(init=dict(nlive=50, max_iteration=300, maximum_uninformed=60, plot=False, checkpointing=False),
                flow=dict(n_blocks=2, n_neurons=4), training=dict(max_epochs=5, patience=5), run=dict(plot=False, save=True))

# values a run must cope with (documented choices); `invalid` entries are choices that do not exist: they must be
# rejected before sampling starts
STD_OPTIONS = {
    "flow_proposal_class": [opt("FlowProposal", init=dict(flow_proposal_class="FlowProposal")),
                            opt("AugmentedFlowProposal", init=dict(flow_proposal_class="AugmentedFlowProposal")),
                            opt("AugmentedFlowProposal+augment_dims=2", init=dict(flow_proposal_class="AugmentedFlowProposal", augment_dims=2))],
    "ftype": [opt("MAF", flow=dict(ftype="MAF")), opt("NSF", flow=dict(ftype="NSF")), opt("RealNVP", flow=dict(ftype="RealNVP"))],
    "n_layers": [opt("1", flow=dict(n_layers=1))],
    "distribution": [opt("lars", flow=dict(distribution="lars")), opt("mvn", flow=dict(distribution="mvn"))],
    "linear_transform": [opt("lu", flow=dict(linear_transform="lu")), opt("svd", flow=dict(linear_transform="svd")),
                         opt("None", flow=dict(linear_transform=None))],
    "batch_norm_between_layers": [opt("True", flow=dict(batch_norm_between_layers=True))],
    "annealing": [opt("True", training=dict(annealing=True))],
    "noise": [opt("constant0.1", training=dict(noise_scale=0.1)), opt("adaptive", training=dict(noise_type="adaptive", noise_scale=0.1))],
    "val_size": [opt("0.3", training=dict(val_size=0.3)), opt("0", training=dict(val_size=0))],
    "batch_size": [opt("all", training=dict(batch_size="all")), opt("10", training=dict(batch_size=10))],
    "optimiser": [opt("adam", training=dict(optimiser="adam")), opt("sgd", training=dict(optimiser="sgd"))],
    "use_dataloader": [opt("True", training=dict(use_dataloader=True))],
    "clip_grad_norm": [opt("None", training=dict(clip_grad_norm=None))],
    "latent_prior": [opt("uniform_nball", init=dict(latent_prior="uniform_nball")),
                     opt("uniform_nsphere", init=dict(latent_prior="uniform_nsphere")),
                     opt("gaussian", init=dict(latent_prior="gaussian")),
                     opt("gaussian+cvm=False", init=dict(latent_prior="gaussian", constant_volume_mode=False)),
                     opt("uniform+cvm=False", init=dict(latent_prior="uniform", constant_volume_mode=False)),
                     opt("flow+cvm=False", init=dict(latent_prior="flow", constant_volume_mode=False)),
                     opt("truncated_gaussian+cvm=False", init=dict(latent_prior="truncated_gaussian", constant_volume_mode=False))],
    "volume_fraction": [opt("0.5", init=dict(volume_fraction=0.5))],
    "fuzz": [opt("1.5+cvm=False", init=dict(fuzz=1.5, constant_volume_mode=False, expansion_fraction=None))],
    "expansion_fraction": [opt("1.0+cvm=False", init=dict(expansion_fraction=1.0, constant_volume_mode=False))],
    "fixed_radius": [opt("2.0+cvm=False", init=dict(fixed_radius=2.0, constant_volume_mode=False))],
    "min_radius": [opt("1.0+cvm=False", init=dict(min_radius=1.0, constant_volume_mode=False))],
    "max_radius": [opt("3.0+cvm=False", init=dict(max_radius=3.0, constant_volume_mode=False)),
                   opt("False+cvm=False", init=dict(max_radius=False, constant_volume_mode=False))],
    "compute_radius_with_all": [opt("True+cvm=False", init=dict(compute_radius_with_all=True, constant_volume_mode=False))],
    "truncate_log_q": [opt("True", init=dict(truncate_log_q=True))],
    "accumulate_weights": [opt("True", init=dict(accumulate_weights=True))],
    "drawsize": [opt("20", init=dict(drawsize=20)), opt("500", init=dict(drawsize=500))],
    "poolsize": [opt("20", init=dict(poolsize=20)), opt("300", init=dict(poolsize=300))],
    "update_poolsize": [opt("False", init=dict(update_poolsize=False))],
    "max_poolsize_scale": [opt("2", init=dict(max_poolsize_scale=2))],
    "check_acceptance": [opt("True", init=dict(check_acceptance=True))],
    "reparameterisations": [opt("default", init=dict(reparameterisations="default")),
                            opt("inversion", init=dict(reparameterisations="inversion")),
                            opt("logit", init=dict(reparameterisations="logit")),
                            opt("zscore", init=dict(reparameterisations="zscore")),
                            opt("dict-x0-default", init=dict(reparameterisations={"x0": "default"})),
                            opt("dict-x0-inversion-duplicate", init=dict(reparameterisations={"x0": {"reparameterisation": "inversion-duplicate"}})),
                            # options of RescaleToBounds given per parameter; `post_rescaling="logit"` with the default
                            # update_bounds=True is a combination nessai refuses when the proposal is built — it has to stay
                            # refused up front (seeded change C20-gB moved the guard below the assignment it reads)
                            opt("dict-x0-rtb-post-logit", init=dict(reparameterisations={"x0": {"reparameterisation": "rescaletobounds", "post_rescaling": "logit"}})),
                            opt("dict-x0-rtb-post-logit-fixed-bounds", init=dict(reparameterisations={"x0": {"reparameterisation": "rescaletobounds", "post_rescaling": "logit", "update_bounds": False}})),
                            opt("dict-x0-rtb-offset", init=dict(reparameterisations={"x0": {"reparameterisation": "rescaletobounds", "offset": True}})),
                            opt("dict-x0-rtb-inversion", init=dict(reparameterisations={"x0": {"reparameterisation": "rescaletobounds", "boundary_inversion": True}})),
                            opt("dict-x0-rtb-unit-bounds", init=dict(reparameterisations={"x0": {"reparameterisation": "rescaletobounds", "rescale_bounds": [0.0, 1.0]}}))],
    "fallback_reparameterisation": [opt("None", init=dict(fallback_reparameterisation=None)),
                                    opt("default", init=dict(fallback_reparameterisation="default"))],
    "use_default_reparameterisations": [opt("True", init=dict(use_default_reparameterisations=True))],
    "reverse_reparameterisations": [opt("True", init=dict(reverse_reparameterisations=True, reparameterisations={"x0": "default", "x1": "zscore"}))],
    "reset_weights": [opt("True", init=dict(reset_weights=True)), opt("2", init=dict(reset_weights=2))],
    "reset_permutations": [opt("True", init=dict(reset_permutations=True))],
    "reset_flow": [opt("True", init=dict(reset_flow=True)), opt("3", init=dict(reset_flow=3))],
    "training_frequency": [opt("20", init=dict(training_frequency=20)), opt("inf", init=dict(training_frequency="inf"))],
    "train_on_empty": [opt("False", init=dict(train_on_empty=False, training_frequency=25))],
    "cooldown": [opt("10", init=dict(cooldown=10))],
    "memory": [opt("20", init=dict(memory=20))],
    "retrain_acceptance": [opt("False", init=dict(retrain_acceptance=False))],
    "reset_acceptance": [opt("True", init=dict(reset_acceptance=True))],
    "acceptance_threshold": [opt("0.5", init=dict(acceptance_threshold=0.5))],
    "maximum_uninformed": [opt("0", init=dict(maximum_uninformed=0)), opt("False", init=dict(maximum_uninformed=False)),
                           opt("None", init=dict(maximum_uninformed=None)), opt("10", init=dict(maximum_uninformed=10))],
    "uninformed_acceptance_threshold": [opt("0.9", init=dict(uninformed_acceptance_threshold=0.9))],
    "analytic_priors": [opt("True", init=dict(analytic_priors=True))],
    "prior_sampling": [opt("True", init=dict(prior_sampling=True))],
    "shrinkage_expectation": [opt("t", init=dict(shrinkage_expectation="t"))],
    "stopping": [opt("1.0", init=dict(stopping=1.0))],
    "max_iteration": [opt("10", init=dict(max_iteration=10)), opt("None", init=dict(max_iteration=None, stopping=2.0))],
    "nlive": [opt("10", init=dict(nlive=10)), opt("20", init=dict(nlive=20))],
    "posterior_sampling_method": [opt("multinomial_resampling", run=dict(posterior_sampling_method="multinomial_resampling")),
                                  opt("importance_sampling", run=dict(posterior_sampling_method="importance_sampling")),
                                  opt("rejection_sampling", run=dict(posterior_sampling_method="rejection_sampling"))],
    "result_extension": [opt("json", init=dict(result_extension="json"), run=dict(save=True)),
                         opt("hdf5", init=dict(result_extension="hdf5"), run=dict(save=True))],
    # not an option but the state an EARLIER run of the same process leaves in nessai's module-level configuration: the
    # importance sampler registers its extra live-point fields globally and nothing un-registers them (seeded change C20-gA)
    "process_history": [opt("after-importance-sampler", env=dict(extra_fields=True))],
}
# documented option values that FAIL on the pinned tree (each is a finding; replayed in every run, kept out of the
# pairwise array because they fail on their own)
STD_KNOWN = {
    "nlive": [opt("5", init=dict(nlive=5)), opt("9", init=dict(nlive=9))],
    "check_acceptance": [opt("True+compute_radius_with_all=True", init=dict(check_acceptance=True, compute_radius_with_all=True, constant_volume_mode=False)),
                         opt("True+maximum_uninformed=0", init=dict(check_acceptance=True, maximum_uninformed=0))],
}
INS_KNOWN = {
    "draw_constant": [opt("False+min_samples=nlive", init=dict(draw_constant=False, min_samples=60))],
}
# known failures that need a particular seed: (sampler, labels, spec, seed, keyed by root cause?)
SEEDED_KNOWN = [
    ("ins", ["min_samples:5", "min_remove:10", "strict_threshold:True", "n_initial:100", "min_iteration:6"],
     dict(init=dict(min_samples=5, min_remove=10, strict_threshold=True, n_initial=100, min_iteration=6, max_iteration=8)), 1, False),
    ("ins", ["n_update:20", "strict_threshold:True", "draw_constant:False", "min_iteration:6"],
     dict(init=dict(n_update=20, strict_threshold=True, draw_constant=False, min_iteration=6, max_iteration=8)), 1, False),
    # a barely trained flow that maps the whole latent contour outside the prior bounds: every batch empty, no guard
    ("std", ["ftype:MAF", "n_layers:1", "latent_prior:uniform+cvm=False", "reverse_reparameterisations:True", "maximum_uninformed:10"],
     dict(init=dict(latent_prior="uniform", constant_volume_mode=False, reverse_reparameterisations=True,
                    reparameterisations={"x0": "default", "x1": "zscore"}, maximum_uninformed=10), flow=dict(ftype="MAF", n_layers=1)), 4, True),
]
STD_INVALID = {
    "flow_proposal_class": [opt("bogusproposal", init=dict(flow_proposal_class="bogusproposal"))],
    "ftype": [opt("bogus", flow=dict(ftype="bogus"))],
    "latent_prior": [opt("bogus", init=dict(latent_prior="bogus"))],
    "reparameterisations": [opt("bogus", init=dict(reparameterisations="bogus"))],
    "distribution": [opt("bogus", flow=dict(distribution="bogus"))],
    "unknown_kwarg": [opt("not_an_option", init=dict(not_an_option=1))],
    "shrinkage_expectation": [opt("bogus", init=dict(shrinkage_expectation="bogus"))],
    # the options the generated table of raise sites lists as validated late (Props/C20.lean knownLateOptions)
    "result_extension": [opt("bogus", init=dict(result_extension="bogus"))],
    "posterior_sampling_method": [opt("bogus", run=dict(posterior_sampling_method="bogus"))],
    "batch_size": [opt("1", training=dict(batch_size=1))],
}
# fixed option pairs that cross the training path with the data-handling options (run in every tier)
STD_QUICK_PAIRS = [
    (["memory:20", "maximum_uninformed:0"], dict(init=dict(memory=20, maximum_uninformed=0))),
    (["reset_flow:True", "maximum_uninformed:0"], dict(init=dict(reset_flow=True, maximum_uninformed=0))),
    (["train_on_empty:False", "memory:20"], dict(init=dict(train_on_empty=False, training_frequency=25, memory=20))),
    (["memory:20", "training_frequency:20", "reset_weights:2"], dict(init=dict(memory=20, training_frequency=20, reset_weights=2))),
    (["use_dataloader:True", "val_size:0"], dict(training=dict(use_dataloader=True, val_size=0))),
    (["use_dataloader:True", "batch_size:10", "batch_norm_between_layers:True"],
     dict(training=dict(use_dataloader=True, batch_size=10), flow=dict(batch_norm_between_layers=True))),
    (["maximum_uninformed:0", "latent_prior:flow+cvm=False", "fixed_radius:2.0"],
     dict(init=dict(maximum_uninformed=0, latent_prior="flow", constant_volume_mode=False, fixed_radius=2.0))),
]
STD_QUICK = ["flow_proposal_class:AugmentedFlowProposal", "linear_transform:svd", "ftype:MAF", "ftype:NSF", "latent_prior:uniform_nball",
             "latent_prior:gaussian+cvm=False", "latent_prior:flow+cvm=False", "truncate_log_q:True", "accumulate_weights:True",
             "reparameterisations:inversion", "reparameterisations:logit", "reset_flow:True", "training_frequency:20",
             "maximum_uninformed:0", "analytic_priors:True", "prior_sampling:True", "max_radius:False+cvm=False",
             "posterior_sampling_method:multinomial_resampling", "noise:adaptive", "batch_size:10", "memory:20",
             "process_history:after-importance-sampler", "reparameterisations:dict-x0-rtb-post-logit",
             "reparameterisations:dict-x0-rtb-post-logit-fixed-bounds", "reparameterisations:dict-x0-rtb-offset"]

INS_BASE = dict(init=dict(importance_nested_sampler=True, nlive=60, min_samples=20, max_iteration=4, plot=False, checkpointing=False,
                          reparameterisation=None),
                flow=dict(n_blocks=2, n_neurons=4), training=dict(max_epochs=5, patience=5), run=dict(plot=False, save=True))
# real neural flows in the importance sampler are given enough epochs to be usable (placed BEFORE the option's own spec, which
# wins): with the 5 epochs of INS_BASE a flow can end up with an acceptance of 1e-5 inside the unit hypercube and one draw then
# takes 45 000 batches (4 minutes) -- slow, not stuck, but indistinguishable from stuck inside the wall-clock bound
REAL_FLOW_TRAINING = dict(training=dict(max_epochs=40, patience=40))
INS_OPTIONS = {
    "threshold_method": [opt("quantile", init=dict(threshold_method="quantile")), opt("entropy", init=dict(threshold_method="entropy")),
                         opt("quantile-q0.5", init=dict(threshold_method="quantile", threshold_kwargs=dict(q=0.5)))],
    "stopping_criterion": [opt(s, init=dict(stopping_criterion=s, tolerance=t)) for s, t in
                           [("ratio", 0.0), ("ratio_all", 0.0), ("ratio_ns", 0.0), ("Z_err", 0.1), ("evidence_error", 0.1), ("log_dZ", 0.1),
                            ("log_evidence", 0.1), ("ess", 1000), ("fractional_error", 0.1)]]
                          + [opt("list-any", init=dict(stopping_criterion=["ratio", "ess"], tolerance=[0.0, 1000], check_criteria="any")),
                             opt("list-all", init=dict(stopping_criterion=["ratio", "ess"], tolerance=[0.0, 1000], check_criteria="all")),
                             # two criteria in an order different from the alias table's, different tolerances, NO iteration cap:
                             # fractional_error <= 0.5 and Z_err = exp(fractional_error) <= 2 hold after the first iteration, while
                             # the swapped pairing Z_err <= 0.5 can never hold — the run would never end (seeded C20-c / C20-d)
                             opt("list-order-nocap", init=dict(stopping_criterion=["fractional_error", "Z_err"], tolerance=[0.5, 2.0],
                                                               check_criteria="all", max_iteration=None))],
    "min_samples": [opt("5", init=dict(min_samples=5)), opt("60", init=dict(min_samples=60))],
    "min_remove": [opt("10", init=dict(min_remove=10)), opt("0", init=dict(min_remove=0))],
    "max_samples": [opt("150", init=dict(max_samples=150))],
    "n_update": [opt("20", init=dict(n_update=20))],
    "replace_all": [opt("True", init=dict(replace_all=True))],
    "strict_threshold": [opt("True", init=dict(strict_threshold=True))],
    "draw_constant": [opt("False", init=dict(draw_constant=False))],
    "draw_iid_live": [opt("False", init=dict(draw_iid_live=False))],
    "weighted_kl": [opt("True", init=dict(weighted_kl=True)), opt("False", init=dict(weighted_kl=False))],
    "reset_flow": [opt("False", init=dict(reset_flow=False)), opt("2", init=dict(reset_flow=2))],
    "clip": [opt("True", init=dict(clip=True))],
    "reparameterisation": [opt("logit", init=dict(reparameterisation="logit"))],
    "n_initial": [opt("100", init=dict(n_initial=100))],
    "min_iteration": [opt("6", init=dict(min_iteration=6, max_iteration=8))],
    "save_log_q": [opt("True", init=dict(save_log_q=True, checkpointing=True))],
    "posterior_sampling_method": [opt("rejection_sampling", run=dict(posterior_sampling_method="rejection_sampling")),
                                  opt("multinomial_resampling", run=dict(posterior_sampling_method="multinomial_resampling")),
                                  opt("importance_sampling", run=dict(posterior_sampling_method="importance_sampling"))],
    "result_extension": [opt("json", init=dict(result_extension="json"), run=dict(save=True))],
    # post-sampling options: every one of them currently fails after sampling (known findings / reported defects)
    "train_final_flow": [opt("True", init=dict(train_final_flow=True))],
    "bootstrap": [opt("True", init=dict(bootstrap=True))],
    "redraw_samples": [opt("True", run=dict(redraw_samples=True)),
                       opt("True+n_posterior_samples=20", run=dict(redraw_samples=True, n_posterior_samples=20)),
                       opt("True+compute_initial_posterior", run=dict(redraw_samples=True, compute_initial_posterior=True)),
                       opt("True+use_counts", run=dict(redraw_samples=True, use_counts=True)),
                       opt("True+optimise_weights", run=dict(redraw_samples=True, optimise_weights=True)),
                       opt("True+max_samples_ratio=None", run=dict(redraw_samples=True, max_samples_ratio=None))],
}
# flow / training options of the importance sampler.  They only act on real neural flows (the scripted tilt flows of the other
# importance-sampler runs ignore them), so these run with real flows, two levels, in every tier.  The importance sampler
# always trains through the weighted data-loader path with batch normalisation between layers.
INS_REAL_OPTIONS = {
    "val_size": [opt("0", training=dict(val_size=0)), opt("0.3", training=dict(val_size=0.3))],
    "batch_size": [opt("all", training=dict(batch_size="all")), opt("10", training=dict(batch_size=10)),
                   opt("7", training=dict(batch_size=7))],
    "noise": [opt("adaptive", training=dict(noise_type="adaptive", noise_scale=0.1))],
    "annealing": [opt("True", training=dict(annealing=True))],
    "optimiser": [opt("sgd", training=dict(optimiser="sgd"))],
    "clip_grad_norm": [opt("None", training=dict(clip_grad_norm=None))],
    "ftype": [opt("MAF", flow=dict(ftype="MAF")), opt("NSF", flow=dict(ftype="NSF"))],
    "batch_norm_between_layers": [opt("False", flow=dict(batch_norm_between_layers=False))],
    "linear_transform": [opt("lu", flow=dict(linear_transform="lu"))],
    "distribution": [opt("lars", flow=dict(distribution="lars"))],
}
INS_INVALID = {
    "threshold_method": [opt("bogus", init=dict(threshold_method="bogus"))],
    "stopping_criterion": [opt("bogus", init=dict(stopping_criterion="bogus"))],
    "check_criteria": [opt("bogus", init=dict(check_criteria="bogus"))],
    "reparameterisation": [opt("bogus", init=dict(reparameterisation="bogus"))],
    "min_samples": [opt(">nlive", init=dict(min_samples=1000))],
    "unknown_kwarg": [opt("not_an_option", init=dict(not_an_option=1))],
    "result_extension": [opt("bogus", init=dict(result_extension="bogus"))],
    "posterior_sampling_method": [opt("bogus", run=dict(posterior_sampling_method="bogus"))],
}
# option values left out of the pairwise array: they fail on their own (replayed as findings)
PAIR_EXCLUDE = {"train_final_flow", "bootstrap", "redraw_samples"}

# stable finding keys: (sampler, label prefix, exception classes, substring of the message) -> key
HANG = ("BudgetExceeded", "WallClockExceeded")
KNOWN_KEYS = [
    ("ins", ["train_final_flow:True"], ("TypeError",), "config", "ImportanceNestedSampler.train_final_flow:TypeError-after-sampling"),
    ("ins", ["bootstrap:True"], ("AttributeError",), "n_requested", "ImportanceNestedSampler.bootstrap:AttributeError-after-sampling"),
    ("ins", ["redraw_samples:True+optimise_weights"], ("AttributeError",), "imp_post",
     "ImportanceNestedSampler.draw_final_samples:optimise_weights-undefined-attribute"),
    ("ins", ["redraw_samples:True+max_samples_ratio=None"], ("TypeError",), "NoneType",
     "ImportanceNestedSampler.draw_final_samples:max_samples_ratio=None-TypeError"),
    ("ins", ["redraw_samples:"], ("AttributeError",), "unnormalised_weights",
     "ImportanceNestedSampler.draw_final_samples:redraw_samples-undefined-attribute"),
    ("std", ["result_extension:bogus"], ("RuntimeError",), "Unknown file extension", "FlowSampler:result_extension=<unknown>:rejected-after-sampling-finished"),
    ("ins", ["result_extension:bogus"], ("RuntimeError",), "Unknown file extension", "FlowSampler:result_extension=<unknown>:rejected-after-sampling-finished"),
    ("std", ["posterior_sampling_method:bogus"], ("ValueError",), "", "FlowSampler:posterior_sampling_method=<unknown>:rejected-after-sampling-finished"),
    ("ins", ["posterior_sampling_method:bogus"], ("ValueError",), "", "FlowSampler:posterior_sampling_method=<unknown>:rejected-after-sampling-finished"),
    ("std", ["batch_size:1"], ("ValueError",), "batch size of 1", "NestedSampler:batch_size=1:rejected-at-first-training"),
    ("ins", ["threshold_method:bogus"], ("ValueError",), "", "ImportanceNestedSampler:threshold_method=<unknown>:rejected-after-sampling-started"),
    ("ins", ["reparameterisation:bogus"], ("ValueError",), "", "ImportanceNestedSampler:reparameterisation=<unknown>:rejected-after-sampling-started"),
    ("ins", ["draw_constant:False"], ("ValueError",), "zero-size array",
     "ImportanceNestedSampler:draw_constant=False:no-samples-removed-ValueError-during-sampling"),
    ("ins", ["min_remove:"], ("IndexError",), "out of bounds", "ImportanceNestedSampler:min_remove>=live-points:IndexError-during-sampling"),
    ("ins", ["n_update:"], ("IndexError",), "out of bounds", "ImportanceNestedSampler:n_update>=live-points:IndexError-during-sampling"),
    ("std", ["nlive:"], ("ZeroDivisionError",), "", "NestedSampler:nlive<10-ZeroDivisionError"),
    ("std", ["check_acceptance:True", "compute_radius_with_all"], ("ValueError",), "broadcast",
     "NestedSampler:check_acceptance=True+compute_radius_with_all=True:ValueError-during-sampling"),
    ("std", ["check_acceptance:True", "maximum_uninformed"], ("TypeError",), "not subscriptable",
     "NestedSampler:check_acceptance=True+maximum_uninformed=0:TypeError-while-drawing-live-points"),
]


def all_singles(options):
    return [(name, lab, spec) for name, vals in options.items() for lab, spec in vals]


def build(base, specs):
    cfg = copy.deepcopy(base)
    for spec in specs:
        for place, kv in spec.items():
            cfg.setdefault(place, {}).update(copy.deepcopy(kv))
    return cfg


# ------------------------------------------------------------------------------------------------
# one bounded run
# ------------------------------------------------------------------------------------------------
ACC_MAX_SAMPLES = 20_000
INS_DRAW_BATCH_LIMIT = 4000     # batches inside ONE ImportanceFlowProposal.draw call (one suffices when the flow is usable)


class Budget:
    """draw budget of one run.  `populate` = populations started; `batches` = latent batches drawn inside ONE population
    (limit max(2000, 200 * N / drawsize): a population whose acceptance is below 1/200 for that long is spinning);
    `ins_draws` = draws of the importance proposal."""

    def __init__(self, populate=100000, ins_draws=3000):
        self.limits = dict(populate=populate, ins_draws=ins_draws)
        self.counts = dict(populate=0, batches=0, ins_draws=0)
        self.call_batches, self.call_limit = 0, 2000
        self.call_empty = self.call_badw = 0
        self.since_progress, self.last_progress, self.accepted = 0, time.time(), 0
        self.ins_call_batches = self.ins_call_nonempty = 0
        self.in_ins_draw = False

    # ---- the draw loop of the importance proposal (`while n_accepted < n and n_draw > 0`)
    def start_ins_draw(self):
        self.hit("ins_draws")
        self.ins_call_batches = self.ins_call_nonempty = 0
        self.in_ins_draw = True

    def end_ins_draw(self):
        self.in_ins_draw = False
        self.last_progress = time.time()

    def ins_draw_is_accepting(self):
        """out of time INSIDE one draw call of the importance proposal whose batches do hold points inside the unit hypercube:
        the loop `while n_accepted < n` is advancing (it ends with probability one), the run is slow, not stuck"""
        return self.in_ins_draw and self.ins_call_nonempty > 0

    def ins_batch(self):
        """one batch drawn from a flow (ImportanceFlowModel.sample_ith)"""
        self.ins_call_batches += 1
        if self.ins_call_batches > INS_DRAW_BATCH_LIMIT:
            n = self.ins_call_batches - 1
            if self.ins_call_nonempty == 0:
                raise BudgetExceeded(f"no-progress: ImportanceFlowProposal.draw drew {n} batches from the flow in one call, none with "
                                     "a single point inside the unit hypercube")
            raise SlowPopulation(f"ImportanceFlowProposal.draw drew {n} batches in one call; {self.ins_call_nonempty} held points inside "
                                 "the unit hypercube")

    def ins_nonempty(self):
        """a batch reached compute_log_Q: at least one of its points is finite and inside the unit hypercube"""
        self.ins_call_nonempty += 1

    def progress(self):
        """the sampler accepted a new live point / finished an iteration"""
        self.since_progress, self.last_progress = 0, time.time()
        self.accepted += 1

    def hit(self, what):
        self.counts[what] += 1
        if self.counts[what] > self.limits[what]:
            raise BudgetExceeded(f"{what} > {self.limits[what]}")

    def start_population(self, proposal, args, kwargs):
        self.since_progress += 1
        if self.since_progress > 400:
            raise BudgetExceeded("400 populations in a row without a single accepted point")
        n = kwargs.get("N", args[1] if len(args) > 1 else 10000)
        try:
            per = max(1, int(getattr(proposal, "drawsize", n) or n))
            self.call_limit = max(2000, 200 * (int(n) // per + 1))
            if getattr(proposal, "accumulate_weights", False):
                # bounded by max_samples (proved): the sweep lowers the default 1e6 to ACC_MAX_SAMPLES
                kwargs.setdefault("max_samples", ACC_MAX_SAMPLES)
                self.call_limit = max(self.call_limit, kwargs["max_samples"] // per + 3)
        except Exception:  # noqa
            self.call_limit = 2000
        self.call_batches = self.call_empty = self.call_badw = 0
        self.counts["populate"] += 1

    def batch(self):
        self.counts["batches"] += 1
        self.counts["populate"] += 0
        self.call_batches += 1
        if self.call_batches > self.call_limit:
            n = self.call_batches - 1
            if self.call_empty + self.call_badw >= n:
                # no batch could accept anything: the excluded hypothesis of populate_terminates (Props/C20.lean)
                cause = "every batch empty" if self.call_badw == 0 else "every batch empty or with NaN/inf weights"
                raise BudgetExceeded(f"no-progress: one population drew {n} latent batches, {cause} ({self.call_empty} empty, "
                                     f"{self.call_badw} with non-finite maximum weight)")
            raise SlowPopulation(f"one population drew {n} latent batches (limit {self.call_limit}); some were accepting points")

    def batch_result(self, n_points):
        if n_points == 0:
            self.call_empty += 1

    def batch_weights(self, log_w):
        try:
            if len(log_w) and not np.isfinite(np.max(log_w)):
                self.call_badw += 1
        except Exception:  # noqa
            pass


def _wrap_after(cls, name, after):
    orig = getattr(cls, name)

    def wrapper(self, *a, **k):
        out = orig(self, *a, **k)
        after(out)
        return out

    wrapper.__name__ = name
    return mock.patch.object(cls, name, wrapper)


def _wrap_both(cls, name, before, after):
    orig = getattr(cls, name)

    def wrapper(self, *a, **k):
        before(self)
        out = orig(self, *a, **k)
        after(out)
        return out

    wrapper.__name__ = name
    return mock.patch.object(cls, name, wrapper)


def _wrap(cls, name, before, with_args=False):
    orig = getattr(cls, name)

    def wrapper(self, *a, **k):
        if with_args:
            before(self, a, k)
        else:
            before(self)
        return orig(self, *a, **k)

    wrapper.__name__ = name
    return mock.patch.object(cls, name, wrapper)


def run_one(sampler, cfg, seed, wall, fake_flows=True, budget=None):
    """-> dict(status=ok|rejected|failed|hang, phase, exc, msg, where, counts, wall, logZ, ...)"""
    import torch
    from nessai.flowsampler import FlowSampler
    from nessai.samplers.nestedsampler import NestedSampler
    from nessai.samplers.importancesampler import ImportanceNestedSampler
    from nessai.proposal.flowproposal import FlowProposal
    from nessai.proposal.rejection import RejectionProposal
    from nessai.proposal.augmented import AugmentedFlowProposal
    from nessai.proposal.importance import ImportanceFlowProposal
    from nessai.flowmodel.importance import ImportanceFlowModel
    from nessai import config as nconfig
    from harness.c03 import FakeFlows, make_model

    budget = budget or Budget()
    if sampler == "ins" and cfg.get("init", {}).get("max_iteration", 0) is None:
        # no iteration cap: the stopping rule itself has to end the run; 150 proposal draws (well over 50 levels) without
        # meeting it is "does not terminate within a bounded number of proposal draws"
        budget.limits["ins_draws"] = min(budget.limits["ins_draws"], 150)
    state = {"phase": "construct"}
    tmp = tempfile.mkdtemp(prefix="c20sw_")
    np.random.seed(seed)
    torch.manual_seed(seed)
    model = make_model(2, seed)
    init = dict(cfg.get("init", {}))
    init.setdefault("seed", seed)
    if cfg.get("flow"):
        init["flow_config"] = dict(cfg["flow"])
    if cfg.get("training"):
        init["training_config"] = dict(cfg["training"])
    run_kw = dict(cfg.get("run", {}))

    def set_phase(p):
        def f(self):
            budget.progress()
            if p == "sampling" and state["phase"] in ("construct", "init"):
                state["phase"] = "pre-sampling"       # live points are about to be drawn; nothing evaluated yet
            elif p == "post":
                state["phase"] = "post"
        return f

    # sampling has started once the likelihood is evaluated after populate_live_points was entered
    _ll = model.log_likelihood

    def log_likelihood(x):
        if state["phase"] == "pre-sampling":
            state["phase"] = "sampling"
        return _ll(x)

    model.log_likelihood = log_likelihood

    patches = [
        _wrap(NestedSampler, "populate_live_points", set_phase("sampling")),
        _wrap(ImportanceNestedSampler, "populate_live_points", set_phase("sampling")),
        _wrap(NestedSampler, "finalise", set_phase("post")),
        _wrap(ImportanceNestedSampler, "finalise", set_phase("post")),
        _wrap(FlowProposal, "populate", lambda self, a, k: budget.start_population(self, a, k), with_args=True),
        _wrap(FlowProposal, "draw_latent_prior", lambda self: budget.batch()),
        _wrap(RejectionProposal, "populate", lambda self: budget.hit("populate")),
        _wrap_after(FlowProposal, "backward_pass", lambda out: budget.batch_result(len(out[0]))),
        _wrap_after(AugmentedFlowProposal, "backward_pass", lambda out: budget.batch_result(len(out[0]))),
        _wrap_after(FlowProposal, "compute_weights", lambda out: budget.batch_weights(out[0] if isinstance(out, tuple) else out)),
        _wrap(NestedSampler, "insert_live_point", lambda self: budget.progress()),
        _wrap(ImportanceNestedSampler, "update_evidence", lambda self: budget.progress()),
        _wrap_both(ImportanceFlowProposal, "draw", lambda self: budget.start_ins_draw(), lambda out: budget.end_ins_draw()),
        _wrap(ImportanceFlowModel, "sample_ith", lambda self: budget.ins_batch()),
        _wrap(ImportanceFlowProposal, "compute_log_Q", lambda self: budget.ins_nonempty()),
        _wrap(ImportanceFlowProposal, "draw_from_flows", lambda self: budget.hit("ins_draws")),
    ]

    def on_alarm(signum, frame):
        raise WallClockExceeded(f"> {wall} s")

    res = dict(status="ok", phase=None, exc=None, msg="", where=[], sampler=sampler)
    t0 = time.time()
    old = signal.signal(signal.SIGALRM, on_alarm)
    fs = None
    ff = FakeFlows(2, init.get("reparameterisation", "logit") == "logit", None) if (sampler == "ins" and fake_flows) else None
    try:
        for p in patches:
            p.start()
        if ff is not None:
            ff.__enter__()
        signal.setitimer(signal.ITIMER_REAL, wall)
        if cfg.get("env", {}).get("extra_fields"):
            ImportanceNestedSampler.add_fields()
        try:
            fs = FlowSampler(model, output=tmp, resume=False, signal_handling=False, **init)
            state["phase"] = "init"
            fs.run(**run_kw)
            state["phase"] = "done"
        finally:
            signal.setitimer(signal.ITIMER_REAL, 0)
        # ---- result invariants
        logz = float(fs.logZ)
        res["logZ"] = logz
        problems = []
        if not math.isfinite(logz):
            problems.append(f"log-evidence {logz}")
        ns = fs.ns.samples if sampler == "ins" else np.array(fs._nested_samples)
        ll = np.asarray(ns["logL"], dtype=float)
        if ll.size == 0 or np.any(np.diff(ll) < 0):
            problems.append("nested samples empty or not sorted by logL")
        post = getattr(fs, "posterior_samples", None)
        if post is None or not all(n in post.dtype.names for n in model.names):
            problems.append("no posterior samples")
        res["n_nested"] = int(ll.size)
        res["iterations"] = int(fs.ns.iteration)
        if problems:
            res.update(status="failed", phase="results", exc="InvariantViolation", msg="; ".join(problems))
    except SlowPopulation as e:
        res.update(status="slow", phase=state["phase"], exc=type(e).__name__, msg=str(e))
    except (BudgetExceeded, WallClockExceeded) as e:
        # out of wall-clock time while iterations were still being completed: slow, not stuck (max_iteration is finite)
        slow = isinstance(e, WallClockExceeded) and ((budget.accepted > 0 and time.time() - budget.last_progress < 0.25 * wall)
                                                     or budget.ins_draw_is_accepting())
        res.update(status="slow" if slow else "hang", phase=state["phase"], exc=type(e).__name__, msg=str(e))
    except Exception as e:  # noqa
        tb = traceback.extract_tb(e.__traceback__)
        res.update(status="rejected" if state["phase"] in ("construct", "init", "pre-sampling") else "failed", phase=state["phase"],
                   exc=type(e).__name__, msg=str(e)[:300], where=[f"{f.name}:{f.lineno}" for f in tb[-4:]])
    finally:
        signal.setitimer(signal.ITIMER_REAL, 0)
        signal.signal(signal.SIGALRM, old)
        if ff is not None:
            ff.__exit__(None, None, None)
        for p in patches:
            p.stop()
        try:
            if fs is not None and getattr(fs, "ns", None) is not None and fs.ns.model.pool is not None:
                fs.ns.close_pool()
        except Exception:  # noqa
            pass
        nconfig.livepoints.reset()
        try:
            import torch as _t
            _t.set_default_dtype(_t.float32)
        except Exception:  # noqa
            pass
        shutil.rmtree(tmp, ignore_errors=True)
    res["counts"] = dict(budget.counts)
    res["wall"] = round(time.time() - t0, 2)
    return res


NO_GUARD_KEY = "FlowProposal.populate:every-batch-empty-or-nan:never-terminates"


def finding_key(sampler, labels, res, root_cause=False):
    """stable key for a failure of the real code (known keys first).  `root_cause`: the run is a minimised row of the
    pairwise array — a population that spins because no batch can accept anything is keyed by its cause (the loop has no
    guard), not by the option values that happened to drive the flow there"""
    text = ",".join(labels)
    if root_cause and res["exc"] == "BudgetExceeded" and res["msg"].startswith("no-progress: one population"):
        return NO_GUARD_KEY
    for smp, frags, excs, txt, key in KNOWN_KEYS:
        if smp != sampler or res["exc"] not in excs or txt not in res["msg"]:
            continue
        if all(any(l.startswith(f) or f in l for l in labels) for f in frags):
            if frags == ["nlive:"] and not any(l.startswith("nlive:") and l.split(":")[1].isdigit() and int(l.split(":")[1]) < 10 for l in labels):
                continue
            return key
    lab = text or "base"
    what = "population-never-terminates" if res["exc"] in HANG else f"{res['exc']}-{res['phase']}"
    return f"{'ImportanceNestedSampler' if sampler == 'ins' else 'NestedSampler'}:{lab}:{what}"


# ------------------------------------------------------------------------------------------------
# pairwise covering array (greedy)
# ------------------------------------------------------------------------------------------------
def covering_array(options, rng, exclude=()):
    names = [n for n in options if n not in exclude]
    vals = {n: [None] + list(range(len(options[n]))) for n in names}      # None = leave at the base value
    uncovered = set()
    for a, b in itertools.combinations(names, 2):
        for va in vals[a]:
            for vb in vals[b]:
                if va is not None or vb is not None:
                    uncovered.add((a, va, b, vb))
    rows = []
    while uncovered:
        best, best_cov = None, -1
        for _ in range(40):
            # seed the candidate with an uncovered pair, fill the rest at random (biased to the base value)
            a, va, b, vb = rng.choice(sorted(uncovered, key=repr)) if _ == 0 else next(iter(uncovered))
            row = {n: (rng.choice(vals[n]) if rng.random() < 0.5 else None) for n in names}
            row[a], row[b] = va, vb
            cov = sum(1 for x, y in itertools.combinations(names, 2) if (x, row[x], y, row[y]) in uncovered)
            if cov > best_cov:
                best, best_cov = row, cov
        rows.append(best)
        for x, y in itertools.combinations(names, 2):
            uncovered.discard((x, best[x], y, best[y]))
    return rows


def row_specs(options, row):
    labels, specs = [], []
    for n, v in row.items():
        if v is None:
            continue
        lab, spec = options[n][v]
        labels.append(f"{n}:{lab}")
        specs.append(spec)
    return labels, specs
