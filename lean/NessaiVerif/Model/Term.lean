/-
C20 — models of the loops whose termination the property depends on (core Lean only).

  * `FlowProposal.populate`                      nessai/proposal/flowproposal.py  (`while n_accepted < N`, both branches)
  * `ImportanceFlowProposal.draw`                nessai/proposal/importance.py    (`while n_accepted < n and n_draw > 0`)
  * `FlowModel.check_batch_size`                 nessai/flowmodel/base.py         (`while True: batch_size -= 1 …`)
  * batch halving of `draw_final_samples`        nessai/samplers/importancesampler.py (`while batch_size > max_batch_size`)
  * the redraw loop of `draw_final_samples`      (bounded by `max_its`)
  * `NestedSampler.populate_live_points` (+ `yield_sample`)   nessai/samplers/nestedsampler.py
  * `ImportanceNestedSampler.populate_live_points`            nessai/samplers/importancesampler.py

Everything random or computed by a flow is an INPUT of the model: a *stream of batches* (a list: the
length of the list is the fuel) and a table of uniforms.  A loop that has not met its exit condition
when the stream ends returns `.spin` — "still looping after all these batches".

Floats.  The loops only subtract, compare and take maxima of log-weights, so a log-weight is an
extended value `EF`: NaN, −∞, a finite value (an integer number of units; the harness uses the unit
ln 2), +∞, with IEEE semantics for `-`, `>` and NumPy semantics for `max`/`nanmax`.
`log(np.random.rand())` is `LU`: −∞ (rand returned 0) or −(k+½) units, so comparisons never tie.
-/
namespace NessaiVerif.Term

/-! ### extended float values -/

inductive EF
  | nan | ninf | fin (a : Int) | pinf
deriving DecidableEq, Repr, Inhabited

namespace EF

/-- IEEE `x - y` -/
def sub : EF → EF → EF
  | nan, _ => nan
  | _, nan => nan
  | fin a, fin b => fin (a - b)
  | fin _, ninf => pinf
  | fin _, pinf => ninf
  | ninf, ninf => nan
  | ninf, _ => ninf
  | pinf, pinf => nan
  | pinf, _ => pinf

/-- IEEE `x > y` (false as soon as a NaN is involved) -/
def gt : EF → EF → Bool
  | nan, _ => false
  | _, nan => false
  | ninf, _ => false
  | fin _, ninf => true
  | fin a, fin b => decide (b < a)
  | fin _, pinf => false
  | pinf, pinf => false
  | pinf, _ => true

def isNan : EF → Bool
  | nan => true
  | _ => false

def isFinite : EF → Bool
  | fin _ => true
  | _ => false

/-- `np.maximum(a, b)`: NaN propagates -/
def max2 : EF → EF → EF
  | nan, _ => nan
  | _, nan => nan
  | a, b => if gt b a then b else a

/-- `ndarray.max()` of a non-empty array (NaN propagates); `ninf` for the empty list (never used) -/
def maxNp : List EF → EF
  | [] => ninf
  | x :: xs => xs.foldl max2 x

/-- `np.nanmax`: NaNs are ignored; all-NaN gives NaN (with a RuntimeWarning) -/
def nanmax (xs : List EF) : EF :=
  match xs.filter (fun x => !x.isNan) with
  | [] => nan
  | ys => maxNp ys

/-- Python's builtin `max(a, b)`: `b if b > a else a` (so `max(nan, x) = nan`, `max(x, nan) = x`) -/
def pymax (a b : EF) : EF := if gt b a then b else a

end EF

/-- `np.log(np.random.rand())`: −∞ or −(k+½) units -/
inductive LU
  | ninf | half (k : Nat)
deriving DecidableEq, Repr, Inhabited

/-- `x > log_u` -/
def accLU : EF → LU → Bool
  | .nan, _ => false
  | .ninf, _ => false
  | .pinf, _ => true
  | .fin _, .ninf => true
  | .fin a, .half k => decide (0 ≤ a + (k : Int))

inductive Outcome (σ : Type)
  | done (s : σ)
  | spin (s : σ)
deriving Repr, DecidableEq

def Outcome.isDone {σ : Type} : Outcome σ → Bool
  | .done _ => true
  | .spin _ => false

/-! ### FlowProposal.populate -/

/-- one point of a batch returned by `backward_pass`: its `log_q` and the `log_w` that
`compute_weights` returns for it -/
structure Item where
  id : Nat
  logq : EF
  logw : EF
deriving Repr, DecidableEq

/-- one pass of the loop body: `drawn = z.shape[0]`, `items` = what `backward_pass` returned -/
structure Batch where
  drawn : Nat
  items : List Item
deriving Repr

/-- `above_min_log_q = log_q > min_log_q` (only with `truncate_log_q`) -/
def keep (m : Option EF) (it : Item) : Bool :=
  match m with
  | none => true
  | some q => EF.gt it.logq q

/-- ids of `x[(log_w - c) > log_u]`, the uniforms being indexed from `j` -/
def acceptIds (c : EF) (u : Nat → LU) : List Item → Nat → List Nat
  | [], _ => []
  | it :: r, j =>
    if accLU (EF.sub it.logw c) (u j) then it.id :: acceptIds c u r (j + 1) else acceptIds c u r (j + 1)

structure StdState where
  nAcc : Nat := 0
  xs : List Nat := []
  nProp : Nat := 0
  used : Nat := 0
  calls : Nat := 0
deriving Repr

/-- body of the `while` loop, branch `accumulate_weights = False` -/
def stdStep (N : Nat) (m : Option EF) (u : Nat → Nat → LU) (st : StdState) (b : Batch) : StdState :=
  let x := b.items.filter (keep m)
  let st := { st with nProp := st.nProp + b.drawn, used := st.used + 1 }
  if x.isEmpty then st else
  let mx := EF.maxNp (x.map (·.logw))
  let ids := acceptIds mx (u st.calls) x 0
  { st with xs := st.xs ++ ids.take (min (N - st.nAcc) ids.length),
            nAcc := st.nAcc + ids.length, calls := st.calls + 1 }

/-- `while n_accepted < N` on a finite stream of batches, branch `accumulate_weights = False` -/
def populateStd (N : Nat) (m : Option EF) (u : Nat → Nat → LU) : List Batch → StdState → Outcome StdState
  | [], st => if N ≤ st.nAcc then .done st else .spin st
  | b :: bs, st => if N ≤ st.nAcc then .done st else populateStd N m u bs (stdStep N m u st b)

/-- `2^d` for an integer `d` -/
def pow2 (d : Int) : Rat :=
  if 0 ≤ d then ((2 : Rat) ^ d.toNat) else 1 / ((2 : Rat) ^ (-d).toNat)

/-- the summands of `logsumexp(log_weights - log_constant)` in the linear domain:
`none` as soon as one difference is NaN; `some (hasPinf, Σ 2^d)` otherwise -/
def expSum (c : EF) : List EF → Option (Bool × Rat)
  | [] => some (false, 0)
  | w :: ws =>
    match EF.sub w c, expSum c ws with
    | .nan, _ => none
    | _, none => none
    | .ninf, some r => some r
    | .pinf, some (_, s) => some (true, s)
    | .fin d, some (p, s) => some (p, s + pow2 d)

/-- `log_n_expected >= log_n` -/
def expectedGe (c : EF) (ws : List EF) (N : Nat) : Bool :=
  match expSum c ws with
  | none => false
  | some (true, _) => true
  | some (false, s) => decide ((N : Rat) ≤ s)

/-- exact equality in that comparison (the harness drops such cases: float rounding decides them) -/
def expectedTie (c : EF) (ws : List EF) (N : Nat) : Bool :=
  match expSum c ws with
  | some (false, s) => decide ((N : Rat) = s)
  | _ => false

/-- the boolean mask `(log_weights - log_constant) > log_u` -/
def acceptMask (c : EF) (u : Nat → LU) : List Item → Nat → List Bool
  | [], _ => []
  | it :: r, j => accLU (EF.sub it.logw c) (u j) :: acceptMask c u r (j + 1)

def maskIds : List Item → List Bool → List Nat
  | it :: r, b :: bs => if b then it.id :: maskIds r bs else maskIds r bs
  | _, _ => []

structure AccState where
  items : List Item := []
  c : EF := .ninf
  accept : Option (List Bool) := none
  nAcc : Nat := 0
  nProp : Nat := 0
  used : Nat := 0
  calls : Nat := 0
  tie : Bool := false
deriving Repr

/-- body of the loop, branch `accumulate_weights = True`; the flag is `break` (max_samples reached).
Note the `continue` on an empty batch comes BEFORE the `max_samples` guard. -/
def accStep (N : Nat) (m : Option EF) (maxS : Nat) (u : Nat → Nat → LU) (st : AccState) (b : Batch) :
    AccState × Bool :=
  let x := b.items.filter (keep m)
  let st := { st with nProp := st.nProp + b.drawn, used := st.used + 1 }
  if x.isEmpty then (st, false) else
  let items := st.items ++ x
  let c := EF.pymax (EF.nanmax (x.map (·.logw))) st.c
  let ws := items.map (·.logw)
  let st := { st with items := items, c := c, tie := st.tie || expectedTie c ws N }
  let st :=
    if expectedGe c ws N then
      let mask := acceptMask c (u st.calls) items 0
      { st with accept := some mask, nAcc := mask.count true, calls := st.calls + 1 }
    else st
  (st, decide (maxS < st.nProp))

structure AccResult where
  xs : List Nat
  nAcc : Nat
  nProp : Nat
  used : Nat
  calls : Nat
  tie : Bool
deriving Repr

/-- the code after the loop: redraw the mask if there is none or it is stale, `self.x = samples[accept][:N]` -/
def accFinish (N : Nat) (u : Nat → Nat → LU) (st : AccState) : AccResult :=
  let stale := match st.accept with
    | none => true
    | some a => a.length != st.items.length
  let mask := if stale then acceptMask st.c (u st.calls) st.items 0 else st.accept.getD []
  { xs := (maskIds st.items mask).take N, nAcc := mask.count true, nProp := st.nProp, used := st.used,
    calls := if stale then st.calls + 1 else st.calls, tie := st.tie }

def populateAcc (N : Nat) (m : Option EF) (maxS : Nat) (u : Nat → Nat → LU) :
    List Batch → AccState → Outcome AccResult
  | [], st => if N ≤ st.nAcc then .done (accFinish N u st) else .spin (accFinish N u st)
  | b :: bs, st =>
    if N ≤ st.nAcc then .done (accFinish N u st) else
    match accStep N m maxS u st b with
    | (st', true) => .done (accFinish N u st')
    | (st', false) => populateAcc N m maxS u bs st'

/-! ### ImportanceFlowProposal.draw -/

/-- fate of one drawn point: passes both masks; fails the first (`acc`: outside the unit hypercube /
non-finite); passes the first and fails the second (`accept`: non-finite prior, +inf weight, …) -/
inductive PK
  | ok | rej1 | rej2
deriving DecidableEq, Repr

/-- `n_draw = int(1.01 * n)` -/
def insNDraw (n : Nat) : Nat := 101 * n / 100

structure InsState where
  nAcc : Nat := 0
  xs : List Nat := []
  used : Nat := 0
deriving Repr

def insStep (st : InsState) (b : List (Nat × PK)) : InsState :=
  let st := { st with used := st.used + 1 }
  let x1 := b.filter (fun p => p.2 != PK.rej1)
  if x1.isEmpty then st else            -- `if not np.any(acc): continue`
  let x2 := x1.filter (fun p => p.2 == PK.ok)
  if x2.isEmpty then st else            -- `if not np.any(accept): continue`
  { st with xs := st.xs ++ x2.map (·.1), nAcc := st.nAcc + x2.length }

/-- `while n_accepted < n and n_draw > 0` -/
def insLoop (n : Nat) : List (List (Nat × PK)) → InsState → Outcome InsState
  | [], st => if n ≤ st.nAcc ∨ insNDraw n = 0 then .done st else .spin st
  | b :: bs, st => if n ≤ st.nAcc ∨ insNDraw n = 0 then .done st else insLoop n bs (insStep st b)

/-- `samples[:n]` and the number of batches that were drawn -/
def insDraw (n : Nat) (bs : List (List (Nat × PK))) : Outcome (List Nat × Nat) :=
  match insLoop n bs {} with
  | .done st => .done (st.xs.take n, st.used)
  | .spin st => .spin (st.xs.take n, st.used)

/-! ### FlowModel.check_batch_size -/

inductive CbsErr
  | valueErr      -- batch size 1
  | runtimeErr    -- "Could not find a valid batch size"
  | zeroDiv       -- batch size 0: `len(x) % 0`
  | fuel          -- the model ran out of fuel (proved impossible)
deriving DecidableEq, Repr

/-- `max(int(min_fraction * batch_size), 2)` for `min_fraction = num/den` (truncation toward zero; the floor of 2
is the `fix:` of finding F57 — a final batch of a single sample is never accepted) -/
def minBatch (num den : Nat) (b : Int) : Int := max (Int.tdiv ((num : Int) * b) (den : Int)) 2

/-- the `while True` loop; `b` is the batch size BEFORE `batch_size -= 1` -/
def cbsLoop (len : Nat) (mb : Int) : Nat → Int → Except CbsErr Int
  | 0, _ => .error .fuel
  | fuel + 1, b =>
    let b' := b - 1
    if b' = 0 then .error .zeroDiv else       -- `len(x) % batch_size` is evaluated before the `< 2` test
    let f := Int.fmod (len : Int) b'
    if b' < 2 then .error .runtimeErr
    else if f = 0 ∨ mb ≤ f then .ok b'
    else if b' ≤ mb ∧ 1 < f then .ok b'
    else cbsLoop len mb fuel b'

def checkBatchSize (len : Nat) (b : Int) (num den : Nat) : Except CbsErr Int :=
  if b = 1 then .error .valueErr else
  if b = 0 then .error .zeroDiv else
  let mb := minBatch num den b
  let f := Int.fmod (len : Int) b
  if f ≠ 0 ∧ f < mb then cbsLoop len mb (b.toNat + 1) b else .ok b

/-! ### draw_final_samples: batch size and redraw loop -/

/-- `batch_size = int(1.05 * n_draw)` -/
def finalBatch0 (nDraw : Nat) : Nat := 105 * nDraw / 100

/-- `while batch_size > max_batch_size: if batch_size <= 1: raise; batch_size //= 2`;
`none` = RuntimeError, `some none` = out of fuel (proved impossible) -/
def halveLoop (mx : Int) : Nat → Nat → Option (Option Nat)
  | 0, _ => some none
  | fuel + 1, b =>
    if mx < (b : Int) then
      if b ≤ 1 then none else halveLoop mx fuel (b / 2)
    else some (some b)

def halve (b : Nat) (mx : Int) : Option (Option Nat) := halveLoop mx (b + 1) b

inductive FinalExit
  | ess | maxIts | nDraw | maxSamples | fuel
deriving DecidableEq, Repr

structure FinalCfg where
  nPost : Option Nat          -- `n_post` (None or an integer)
  nDraw : Nat                 -- `n_draw` after the defaulting code
  maxIts : Int
  maxSamples : Option Nat     -- `None` when `max_samples_ratio` is falsy
deriving Repr

structure FinalState where
  it : Nat := 0
  size : Nat := 0
  ess2 : Nat := 0             -- twice the current ESS
deriving Repr, DecidableEq

def truthy (o : Option Nat) : Bool :=
  match o with
  | some k => k != 0
  | none => false

/-- `max_samples_ratio and (len(samples) > max_samples)` -/
def overMax (ms : Option Nat) (size : Nat) : Bool :=
  match ms with
  | some m => decide (m < size)
  | none => false

/-- the four exit tests at the top of the redraw loop, in source order -/
def finalExit (cfg : FinalCfg) (st : FinalState) : Option FinalExit :=
  if truthy cfg.nPost ∧ 2 * cfg.nPost.getD 0 < st.ess2 then some .ess
  else if cfg.maxIts ≤ (st.it : Int) then some .maxIts
  else if cfg.nPost = none ∧ cfg.nDraw < st.size then some .nDraw
  else if overMax cfg.maxSamples st.size then some .maxSamples
  else none

/-- the redraw loop; each stream element is (number of samples `draw_from_flows` returned, 2·ESS afterwards) -/
def finalLoop (cfg : FinalCfg) : List (Nat × Nat) → FinalState → FinalExit × FinalState
  | [], st => match finalExit cfg st with
    | some e => (e, st)
    | none => (.fuel, st)
  | (k, e2) :: r, st => match finalExit cfg st with
    | some e => (e, st)
    | none => finalLoop cfg r { it := st.it + 1, size := st.size + k, ess2 := e2 }

/-! ### NestedSampler.populate_live_points / yield_sample -/

/-- a point returned by `proposal.draw`: `logL0` is the stored `logL` (0.0 ⇒ falsy ⇒ re-evaluated to
`evalL`); `populated` is `proposal.populated` after the draw -/
structure Cand where
  id : Nat
  logP : EF
  logL0 : EF
  evalL : EF
  populated : Bool
deriving Repr

structure LiveState where
  i : Nat := 0
  ids : List Nat := []
  draws : Nat := 0
deriving Repr

/-- the log-likelihood `yield_sample` ends up with (`if not newparam["logL"]: evaluate`) -/
def candL (c : Cand) : EF := if c.logL0 = .fin 0 then c.evalL else c.logL0

/-- one `proposal.draw` inside `yield_sample(None)` called from `populate_live_points`
(`logLmin = -inf`): is the point stored as live point `i`? -/
def candStored (c : Cand) : Bool :=
  -- `newparam["logP"] != -inf` and `logL > logLmin` ⇒ yielded; then finite logP and logL ⇒ stored
  (c.logP != .ninf) && EF.gt (candL c) .ninf && !(candL c).isNan && c.logP.isFinite && (candL c).isFinite

/-- `while i < nlive` (both nested loops collapse to: draw until `nlive` points are stored) -/
def nsLive (nlive : Nat) : List Cand → LiveState → Outcome LiveState
  | [], st => if nlive ≤ st.i then .done st else .spin st
  | c :: r, st =>
    if nlive ≤ st.i then .done st else
    let st := { st with draws := st.draws + 1 }
    nsLive nlive r (if candStored c then { st with i := st.i + 1, ids := st.ids ++ [c.id] } else st)

/-! ### ImportanceNestedSampler.populate_live_points -/

structure InsLiveState where
  n : Nat := 0
  ids : List Nat := []
  used : Nat := 0
deriving Repr

/-- `while n < target`: each batch is `target` prior draws with the flag `isfinite(logP)` -/
def insLive (target : Nat) : List (List (Nat × Bool)) → InsLiveState → Outcome InsLiveState
  | [], st => if target ≤ st.n then .done st else .spin st
  | b :: r, st =>
    if target ≤ st.n then .done st else
    let acc := (b.filter (·.2)).map (·.1)
    let m := min acc.length (target - st.n)
    insLive target r { n := st.n + m, ids := st.ids ++ acc.take m, used := st.used + 1 }

/-! ### interface tables (the rows are generated into `Gen/Term.lean` from the nessai sources) -/

/-- a call on a post-sampling path whose callee was resolved inside the nessai package, with what the
call site passes and the callee's signature (`self`/`cls` removed) -/
structure CallSite where
  caller : String
  callee : String
  npos : Nat                    -- positional arguments at the call site
  star : Bool                   -- the call site unpacks `*args` / `**kwargs`
  kwargs : List String          -- explicit keywords at the call site
  posParams : List String       -- positional-or-keyword parameters of the callee, in order
  kwonly : List String          -- keyword-only parameters
  required : List String        -- parameters without a default
  varargs : Bool                -- callee has `*args`
  varkw : Bool                  -- callee has `**kwargs`
deriving Repr, DecidableEq

/-- an attribute read `obj.attr` on a post-sampling path, `cls` being the (closed) class of `obj` -/
structure AttrRead where
  caller : String
  cls : String
  attr : String
deriving Repr, DecidableEq

/-- what would make Python raise `TypeError` at this call: an unknown keyword, too many positional
arguments, or (when nothing is unpacked at the call site) a required parameter that is not supplied -/
def siteViolations (s : CallSite) : List (String × String × String) :=
  let badKw := if s.varkw then [] else
    s.kwargs.filter (fun k => !(s.posParams.contains k || s.kwonly.contains k))
  let tooMany := if !s.varargs && s.posParams.length < s.npos then ["<positional>"] else []
  let supplied := s.posParams.take s.npos ++ s.kwargs
  let missing := if s.star then [] else
    (s.required.filter (fun r => !supplied.contains r)).map (fun r => "missing:" ++ r)
  (badKw ++ tooMany ++ missing).map (fun k => (s.caller, s.callee, k))

/-- all (caller, callee, problem) triples of a table of call sites -/
def kwViolations (t : List CallSite) : List (String × String × String) := t.flatMap siteViolations

/-- is `attr` defined for class `cls` (assigned to `self` anywhere in the class hierarchy, or a method,
property or class attribute)? -/
def attrDefined (defined : List (String × List String)) (cls attr : String) : Bool :=
  ((defined.lookup cls).getD []).contains attr

/-- (caller, class, attribute) triples whose attribute is defined nowhere in the class hierarchy -/
def attrViolations (defined : List (String × List String)) (t : List AttrRead) : List (String × String × String) :=
  (t.filter fun r => !attrDefined defined r.cls r.attr).map (fun r => (r.caller, r.cls, r.attr))

/-- a `raise` statement guarded by a condition that mentions option(s); `phase` is "upfront" (reachable from the
constructors / before the live points are drawn) or "late" (reachable only once sampling has started) -/
structure RaiseSite where
  phase : String
  site : String
  exc : String
  options : List String
deriving Repr, DecidableEq

/-- the options tested by some raise site that is reachable only after sampling has started -/
def lateOptions (t : List RaiseSite) : List String :=
  (t.filter (fun r => r.phase == "late")).flatMap (·.options)

/-- the options tested by some raise site reachable before sampling starts -/
def upfrontOptions (t : List RaiseSite) : List String :=
  (t.filter (fun r => r.phase != "late")).flatMap (·.options)

end NessaiVerif.Term
