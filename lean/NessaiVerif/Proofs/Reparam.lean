import NessaiVerif.Model.Reparam
import Mathlib.Algebra.Order.Field.Basic
import Mathlib.Tactic.Ring
import Mathlib.Tactic.FieldSimp
import Mathlib.Tactic.Linarith
/-
C07 — lemmas about the exact (affine) family over an arbitrary linearly ordered field.
Part 1: scalar maps (value, Jacobian factor).   Part 2 (Proofs/ReparamCombine.lean): `Lawful` and composition.
-/
namespace NessaiVerif.Reparam

variable {K : Type} [Field K] [LinearOrder K] [IsStrictOrderedRing K]

/-! ### the core-class helpers are the usual field operations -/

omit [LinearOrder K] [IsStrictOrderedRing K] in
theorem two_eq : (two : K) = 2 := by unfold two; norm_num

theorem absK_eq (a : K) : absK a = |a| := by
  unfold absK; split
  · rw [abs_of_neg ‹_›]
  · rw [abs_of_nonneg (not_lt.mp ‹_›)]

omit [Field K] [IsStrictOrderedRing K] in
theorem maxK_eq (a b : K) : maxK a b = max a b := by
  unfold maxK; split
  · rw [max_eq_right (le_of_lt ‹_›)]
  · rw [max_eq_left (not_lt.mp ‹_›)]

omit [Field K] [IsStrictOrderedRing K] in
theorem minK_eq (a b : K) : minK a b = min a b := by
  unfold minK; split
  · rw [min_eq_right (le_of_lt ‹_›)]
  · rw [min_eq_left (not_lt.mp ‹_›)]

theorem ptp_eq (a b : K) : ptp a b = |b - a| := by
  unfold ptp; rw [maxK_eq, minK_eq]
  rcases le_total a b with h | h
  · rw [max_eq_right h, min_eq_left h, abs_of_nonneg (sub_nonneg.mpr h)]
  · rw [max_eq_left h, min_eq_right h, abs_of_nonpos (sub_nonpos.mpr h)]; ring

theorem ptp_nonneg (a b : K) : 0 ≤ ptp a b := by rw [ptp_eq]; exact abs_nonneg _

theorem ptp_ne_zero {a b : K} (h : a ≠ b) : ptp a b ≠ 0 := by
  rw [ptp_eq]; exact abs_ne_zero.mpr (sub_ne_zero.mpr (Ne.symm h))

theorem ptp_of_le {a b : K} (h : a ≤ b) : ptp a b = b - a := by
  rw [ptp_eq, abs_of_nonneg (sub_nonneg.mpr h)]

/-! ### scalar pairs -/

/-- `g` undoes `f` at `x` and the two Jacobian factors multiply to one
(⇔ the two log-Jacobians the code reports are negatives of each other). -/
def ScalarLawfulAt (f g : K → K × K) (x : K) : Prop :=
  (g (f x).1).1 = x ∧ (f x).2 * (g (f x).1).2 = 1

/-- the reported factor is a non-negative constant and equals the absolute slope of the map:
for a one-dimensional map this is exactly `|det J|`. -/
def AffineJ (f : K → K × K) : Prop :=
  ∃ J : K, 0 ≤ J ∧ (∀ x, (f x).2 = J) ∧ ∀ x y, |(f x).1 - (f y).1| = J * |x - y|

theorem AffineJ.comp {f g : K → K × K} (hf : AffineJ f) (hg : AffineJ g) :
    AffineJ (fun x => ((g (f x).1).1, (f x).2 * (g (f x).1).2)) := by
  obtain ⟨Jf, hJf, hcf, hdf⟩ := hf
  obtain ⟨Jg, hJg, hcg, hdg⟩ := hg
  refine ⟨Jf * Jg, mul_nonneg hJf hJg, fun x => by simp [hcf, hcg], fun x y => ?_⟩
  simp only
  rw [hdg, hdf]; ring

theorem AffineJ.id : AffineJ (fun x : K => (x, 1)) :=
  ⟨1, zero_le_one, fun _ => rfl, fun x y => by simp⟩

/-! ### rescale_zero_to_one / rescale_minus_one_to_one -/

omit [LinearOrder K] [IsStrictOrderedRing K] in
theorem z2o_lawful (a b x : K) (h : a ≠ b) :
    (inverseRescaleZeroToOne (rescaleZeroToOne x a b).1 a b).1 = x ∧
    (rescaleZeroToOne x a b).2 * (inverseRescaleZeroToOne (rescaleZeroToOne x a b).1 a b).2 = 1 := by
  have hne : b - a ≠ 0 := sub_ne_zero.mpr (Ne.symm h)
  simp only [rescaleZeroToOne, inverseRescaleZeroToOne]
  constructor
  · field_simp; ring
  · field_simp

omit [LinearOrder K] [IsStrictOrderedRing K] in
theorem iz2o_lawful (a b y : K) (h : a ≠ b) :
    (rescaleZeroToOne (inverseRescaleZeroToOne y a b).1 a b).1 = y := by
  have hne : b - a ≠ 0 := sub_ne_zero.mpr (Ne.symm h)
  simp only [rescaleZeroToOne, inverseRescaleZeroToOne]
  field_simp; ring

omit [LinearOrder K] [IsStrictOrderedRing K] in
theorem m2o_lawful [NeZero (2 : K)] (a b x : K) (h : a ≠ b) :
    (inverseRescaleMinusOneToOne (rescaleMinusOneToOne x a b).1 a b).1 = x ∧
    (rescaleMinusOneToOne x a b).2 * (inverseRescaleMinusOneToOne (rescaleMinusOneToOne x a b).1 a b).2 = 1 := by
  have hne : b - a ≠ 0 := sub_ne_zero.mpr (Ne.symm h)
  have h2 : (2 : K) ≠ 0 := NeZero.ne 2
  simp only [rescaleMinusOneToOne, inverseRescaleMinusOneToOne, two_eq]
  constructor
  · field_simp; ring
  · field_simp

theorem two_ne_zero' : (2 : K) ≠ 0 := two_ne_zero

/-! ### ScaleAndShift -/

theorem ss_lawful (r : SS K) (s x : K) (hs : r.scale = some s) (h0 : s ≠ 0) :
    ∃ y j j', ssFwd r x = .ok (y, j) ∧ ssInv r y = .ok (x, j') ∧ j * j' = 1 := by
  have habs : |s| ≠ 0 := abs_ne_zero.mpr h0
  unfold ssFwd ssInv
  rw [hs]
  cases hsh : r.shift with
  | none =>
    refine ⟨x / s, 1 / absK s, absK s, rfl, ?_, ?_⟩
    · simp only [Except.ok.injEq, Prod.mk.injEq, and_true]; field_simp
    · rw [absK_eq]; field_simp
  | some sh =>
    refine ⟨(x - sh) / s, 1 / absK s, absK s, rfl, ?_, ?_⟩
    · simp only [Except.ok.injEq, Prod.mk.injEq, and_true]; field_simp; ring
    · rw [absK_eq]; field_simp

/-- scalar view of ScaleAndShift with a set scale -/
def ssF (s : K) (sh : Option K) (x : K) : K × K :=
  ((match sh with | some c => (x - c) / s | none => x / s), 1 / absK s)

theorem ssFwd_eq (r : SS K) (s x : K) (hs : r.scale = some s) : ssFwd r x = .ok (ssF s r.shift x) := by
  unfold ssFwd ssF; rw [hs]; rfl

theorem ss_affineJ (s : K) (sh : Option K) (h0 : s ≠ 0) : AffineJ (ssF s sh) := by
  refine ⟨1 / |s|, by positivity, fun x => by simp [ssF, absK_eq], fun x y => ?_⟩
  have : ∀ c : K, (x - c) / s - (y - c) / s = (x - y) / s := fun c => by ring
  cases sh with
  | none =>
    simp only [ssF]
    rw [← sub_div, abs_div]; ring
  | some c =>
    simp only [ssF]
    rw [this c, abs_div]; ring

/-! ### hooks -/

def Hook.LawfulAt (h : Hook K) (x : K) : Prop := ScalarLawfulAt h.fwd h.inv x

theorem Hook.affine_lawful (a b x : K) (ha : a ≠ 0) : (Hook.affine a b).LawfulAt x := by
  have habs : |a| ≠ 0 := abs_ne_zero.mpr ha
  unfold Hook.LawfulAt ScalarLawfulAt Hook.affine
  simp only [absK_eq]
  constructor
  · field_simp; ring
  · field_simp

theorem Hook.affine_affineJ (a b : K) : AffineJ (Hook.affine a b).fwd := by
  refine ⟨|a|, abs_nonneg a, fun x => by simp [Hook.affine, absK_eq], fun x y => ?_⟩
  simp only [Hook.affine]
  have : a * x + b - (a * y + b) = a * (x - y) := by ring
  rw [this, abs_mul]

omit [LinearOrder K] [IsStrictOrderedRing K] in
theorem Hook.id_lawful (x : K) : (Hook.id : Hook K).LawfulAt x := by
  simp [Hook.LawfulAt, ScalarLawfulAt, Hook.id]

end NessaiVerif.Reparam
