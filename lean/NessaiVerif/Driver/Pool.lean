import NessaiVerif.Model.Pool
import NessaiVerif.Driver.Parse
/-
Line protocol of the `pool` area (C09).  Values: `nan`, `-inf`, `inf` or a rational `p/q` (the exact value of a
float64).  A candidate is `id:inb:logq:logp`; an INS candidate is
`id:inCube:finCheck:finPrime:finJ:finJinv:logP:logU:logQ:qAllNaN:qAllPinf`.  Lists `[a,b]`, nested lists `[[a],[b,c]]`.

  pool plain  <strictZ> <N> <minLogQ|none> <batches> <uniforms>
  pool acc    <strictZ> <N> <maxSamples> <minLogQ|none> <batches> <gates> <uniforms>
  pool rej    <cands> <uniforms>
  pool ana    <cands>
  pool newpts <N> <batches>
  pool ins    <n> <batches>
        → `pool=[ids] ll=[ids] nacc= nprop= batches= rands= broke=` | `crash batches=` (IndexError quirk) | `exhausted`
  pool sess <keys> <ops e.g. ddidd> <popspec> …      popspec = the above with `~` instead of spaces (`plain~N~…`)
        → per op, joined by `|`: `[pop(<population>)>]h:<count>:<idx>:<id>` | `ok` | `err=index` | `exhausted`
  pool perm <keys> <n>  → the scripted permutation
  pool ev sub|gt|ge|fmax|pymax a b ; pool ev npmax|nanmax [..]   (primitive semantics, checked against NumPy)
-/
namespace NessaiVerif.Driver.Pool
open NessaiVerif NessaiVerif.Parse NessaiVerif.Pool

def parseEV? (s : String) : Option EV :=
  if s == "nan" then some .nan
  else if s == "-inf" then some .ninf
  else if s == "inf" then some .pinf
  else (parseRat? s).map .fin

def showEV : EV → String
  | .nan => "nan"
  | .ninf => "-inf"
  | .pinf => "inf"
  | .fin q => showRat q

def parseCand? (s : String) : Option Cand :=
  match s.splitOn ":" with
  | [i, b, q, p] => do
      let i ← parseNat? i
      let b ← parseBool? b
      let q ← parseEV? q
      let p ← parseEV? p
      some { id := i, inb := b, logq := q, logp := p }
  | _ => none

def parseICand? (s : String) : Option ICand :=
  match s.splitOn ":" with
  | [i, c, f1, f2, f3, f4, lp, lu, lq, a, b] => do
      let i ← parseNat? i
      let c ← parseBool? c
      let f1 ← parseBool? f1
      let f2 ← parseBool? f2
      let f3 ← parseBool? f3
      let f4 ← parseBool? f4
      let lp ← parseEV? lp
      let lu ← parseEV? lu
      let lq ← parseEV? lq
      let a ← parseBool? a
      let b ← parseBool? b
      some { id := i, inCube := c, finCheck := f1, finPrime := f2, finJ := f3, finJinv := f4,
             logP := lp, logU := lu, logQ := lq, qAllNaN := a, qAllPinf := b }
  | _ => none

def showSlot : Option Cand → String
  | none => "_"
  | some c => toString c.id

def showPopulation (p : Population) : String :=
  if p.crashed then s!"crash batches={p.batches}" else
  s!"pool={showList showSlot p.pool} ll={showList showSlot p.llCalls} nacc={p.nAcc} nprop={p.nProp} " ++
  s!"batches={p.batches} rands={p.rands} broke={showBool p.broke}"

def showPop? : Option Population → String
  | none => "exhausted"
  | some p => showPopulation p

/-- run one population spec (already split into tokens) -/
def population? (toks : List String) : Option (Option Population) :=
  match toks with
  | ["plain", z, n, t, b, u] => do
      let z ← parseBool? z
      let n ← parseNat? n
      let t ← parseOpt? parseEV? t
      let b ← parseList? (parseList? parseCand?) b
      let u ← parseList? (parseList? parseEV?) u
      some (populatePlain z n t b u)
  | ["acc", z, n, ms, t, b, g, u] => do
      let z ← parseBool? z
      let n ← parseNat? n
      let ms ← parseNat? ms
      let t ← parseOpt? parseEV? t
      let b ← parseList? (parseList? parseCand?) b
      let g ← parseList? parseBool? g
      let u ← parseList? (parseList? parseEV?) u
      some (populateAcc z n ms t b g u)
  | ["rej", c, u] => do
      let c ← parseList? parseCand? c
      let u ← parseList? parseEV? u
      some (some (populateRejection c u))
  | ["ana", c] => do
      let c ← parseList? parseCand? c
      some (some (populateAnalytic c))
  | _ => none

def parseOps? (s : String) : Option (List Op) :=
  s.toList.mapM fun ch => if ch == 'd' then some Op.draw else if ch == 'i' then some Op.inval else none

def slotId : Option Cand → Nat
  | none => 999999
  | some c => c.id

def showOut : Out → String
  | .handed c i id => s!"h:{c}:{i}:{showOpt toString id}"
  | .ok => "ok"
  | .errIndex => "err=index"
  | .exhausted => "exhausted"

/-- session: the handout state machine of the model, fed by the populations of the model -/
def runSession (keys : List Int) : HState → List (Option Population) → List Op → List String
  | _, _, [] => []
  | st, pops, op :: ops =>
    match op, st.populated, pops with
    | .draw, false, some p :: rest =>
      if p.crashed then
        -- the exception leaves `indices = []`, `populated = False`
        s!"crash batches={p.batches}" :: runSession keys { st with indices := [], populated := false } rest ops
      else
      let pop : Pop := { pool := p.pool.map slotId, indices := permOf keys p.pool.length }
      let (st', _, o) := hstep st [pop] .draw
      s!"pop({showPopulation p})>{showOut o}" :: runSession keys st' rest ops
    | .draw, false, none :: _ => ["exhausted"]
    | _, _, _ =>
      let (st', _, o) := hstep st [] op
      showOut o :: runSession keys st' pops ops

def handle (toks : List String) : String :=
  match toks with
  | "sess" :: k :: ops :: specs =>
    match parseList? parseInt? k, parseOps? ops, specs.mapM (fun s => population? (s.splitOn "~")) with
    | some k, some ops, some pops => "|".intercalate (runSession k {} pops ops)
    | _, _, _ => "bad-op"
  | ["newpts", n, b] =>
    match parseNat? n, parseList? (parseList? parseCand?) b with
    | some n, some b =>
      match newPoints n b with
      | none => "exhausted"
      | some arr => "pts=" ++ showList showSlot arr
    | _, _ => "bad-op"
  | ["ins", n, b] =>
    match parseNat? n, parseList? (parseList? parseICand?) b with
    | some n, some b =>
      match insDraw n b with
      | none => "exhausted"
      | some (s, k) => s!"ret={showList (fun c => toString c.id) s} batches={k}"
    | _, _ => "bad-op"
  | ["perm", k, n] =>
    match parseList? parseInt? k, parseNat? n with
    | some k, some n => showList toString (permOf k n)
    | _, _ => "bad-op"
  | ["ev", op, a, b] =>
    match parseEV? a, parseEV? b with
    | some a, some b =>
      if op == "sub" then showEV (EV.sub a b)
      else if op == "gt" then showBool (EV.gt a b)
      else if op == "ge" then showBool (EV.ge a b)
      else if op == "fmax" then showEV (EV.fmax a b)
      else if op == "pymax" then showEV (EV.pyMax a b)
      else "bad-op"
    | _, _ => "bad-op"
  | ["ev", op, l] =>
    match parseList? parseEV? l with
    | some l =>
      if op == "npmax" then showEV (npMax l)
      else if op == "nanmax" then showEV (nanmax l)
      else "bad-op"
    | none => "bad-op"
  | _ =>
    match population? toks with
    | some p => showPop? p
    | none => "bad-op"

end NessaiVerif.Driver.Pool
