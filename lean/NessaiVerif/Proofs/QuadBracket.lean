import NessaiVerif.Proofs.Quadrature
/-
C02 — the discretisation error of the documented quadrature in exact arithmetic: the trapezoid value is the mean of the
lower and the upper Riemann sum of the (non-decreasing) likelihood over the (shrinking) volumes, and the two sums differ
by at most (largest interval) × (total rise of the likelihood).
-/
namespace NessaiVerif.Quad
set_option linter.unusedSectionVars false
variable {K : Type} [Field K] [LinearOrder K] [IsStrictOrderedRing K]

/-- lower Riemann sum `Σ f_i d_i` and upper Riemann sum `Σ f_{i+1} d_i` over interval widths `d` -/
def lowerSum (f d : List K) : K := dot f d
def upperSum (f d : List K) : K := dot f.tail d

/-- non-decreasing consecutive values -/
def NonDecr : List K → Prop
  | a :: b :: rest => a ≤ b ∧ NonDecr (b :: rest)
  | _ => True

theorem dot_avgs (f d : List K) (h : d.length + 1 = f.length) :
    dot (avgs f) d = (lowerSum f d + upperSum f d) / 2 := by
  induction d generalizing f with
  | nil =>
    match f, h with
    | [a], _ => simp [avgs, dot, lowerSum, upperSum]
  | cons d0 ds ih =>
    match f, h with
    | a :: b :: fs', h =>
      have h' : ds.length + 1 = (b :: fs').length := by simpa using h
      have := ih (b :: fs') h'
      simp only [avgs, dot, lowerSum, upperSum, List.tail_cons] at this ⊢
      rw [this]
      have e2 : (1 + 1 : K) = 2 := by norm_num
      rw [e2]
      ring

theorem upper_sub_lower_le (D : K) (hD : 0 ≤ D) (f d : List K) (h : d.length + 1 = f.length) (hf : NonDecr f)
    (hd : ∀ x ∈ d, 0 ≤ x ∧ x ≤ D) :
    0 ≤ upperSum f d - lowerSum f d ∧
      upperSum f d - lowerSum f d ≤ D * (f.getLastD 0 - f.headD 0) ∧ f.headD 0 ≤ f.getLastD 0 := by
  induction d generalizing f with
  | nil =>
    match f, h with
    | [a], _ => simp [upperSum, lowerSum, dot]
  | cons d0 ds ih =>
    match f, h, hf with
    | a :: b :: fs', h, hf =>
      have h' : ds.length + 1 = (b :: fs').length := by simpa using h
      have r := ih (b :: fs') h' hf.2 (fun x hx => hd x (List.mem_cons_of_mem _ hx))
      have hab : a ≤ b := hf.1
      have h0 := hd d0 (List.mem_cons_self ..)
      simp only [upperSum, lowerSum, dot, List.tail_cons, List.headD_cons, List.getLastD_cons] at r ⊢
      have hlast : (b :: fs').getLastD 0 = (a :: b :: fs').getLastD 0 := by simp [List.getLastD]
      have e : b * d0 + dot fs' ds - (a * d0 + dot (b :: fs') ds) = (b - a) * d0 + (dot fs' ds - dot (b :: fs') ds) := by ring
      have hba : 0 ≤ b - a := by linarith
      have t1 : 0 ≤ (b - a) * d0 := mul_nonneg hba h0.1
      have t2 : (b - a) * d0 ≤ (b - a) * D := mul_le_mul_of_nonneg_left h0.2 hba
      refine ⟨by rw [e]; linarith [r.1], ?_, le_trans hab r.2.2⟩
      rw [e]
      have : D * ((b :: fs').getLastD 0 - a) = (b - a) * D + D * ((b :: fs').getLastD 0 - b) := by ring
      simp only [List.getLastD_cons] at this ⊢
      nlinarith [r.2.1, t2]

theorem nonDecr_append_last (l : List K) (h : NonDecr l) : NonDecr (l ++ [l.getLastD 0]) := by
  induction l with
  | nil => simp [NonDecr]
  | cons a rest ih =>
    cases rest with
    | nil => simp [NonDecr]
    | cons b rest' =>
      have := ih h.2
      simp only [List.cons_append, List.getLastD_cons] at this ⊢
      exact ⟨h.1, this⟩

theorem diffs_length (xs : List K) : (diffs xs).length = xs.length - 1 := by
  induction xs with
  | nil => rfl
  | cons a rest ih =>
    cases rest with
    | nil => rfl
    | cons b rest' => simp only [diffs, List.length_cons, ih]; simp

end NessaiVerif.Quad
