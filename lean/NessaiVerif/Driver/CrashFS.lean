import NessaiVerif.Model.CrashFS
import NessaiVerif.Gen.CrashFS
import NessaiVerif.Driver.Parse
/-
C11 line protocol (token `fs`).  Contents: `-` absent, `C<v>.<n>` complete, `T<k>` torn.
Events: `c:<se 0/1>:<v>:<n>:<len>:<cp>` checkpoint, `t:<w>:<len>:<e>:<cp>` training/weights save
(`<e>` = what torch.load raises on a prefix of this file: R|O|E|U|F);
torn weights files are written `T<k><e>`;
`<cp>` = `-` (completed) | `<j>` (killed before operation j) | `<j>.<k>` (killed inside operation j after k bytes),
each optionally followed by `~<f>`: a written-but-unclosed file had `f` bytes on disk at the kill.

  fs hist <std|ins> <ev>*          -> state after the history and what a resume does
  fs ops <std|ins> <ev> <ev>*      -> operations the FIRST event performs when run after the others
  fs resume <std|ins> <top> <path>=<content>*   -> resume on an arbitrary directory state
  fs cfg                           -> the generated configuration (for the evidence)
-/
namespace NessaiVerif.Driver.CrashFS
open NessaiVerif NessaiVerif.Parse NessaiVerif.CrashFS

def excLetter : Exc → String
  | .fileNotFound => "F" | .runtime => "R" | .eof => "E" | .unpickling => "U" | .osError => "O"
  | .tornPickle => ""

def parseExcLetter? : String → Option Exc
  | "F" => some .fileNotFound | "R" => some .runtime | "E" => some .eof | "U" => some .unpickling
  | "O" => some .osError | "" => some .tornPickle | "P" => some .tornPickle | _ => none

def showContent : Content → String
  | .absent => "-"
  | .complete v n => s!"C{v}.{n}"
  | .torn k e => s!"T{k}{excLetter e}"

def showSuffix : Suffix → String
  | .base => "base" | .old => "old" | .temp => "temp"

def showOp : Op → String
  | .existsCheck p => s!"E:{showSuffix p}"
  | .move a b => s!"M:{showSuffix a}:{showSuffix b}"
  | .openTrunc p => s!"O:{showSuffix p}"
  | .write p => s!"W:{showSuffix p}"
  | .close p => s!"X:{showSuffix p}"
  | .save p => s!"S:{showSuffix p}"

def showExc : Exc → String
  | .fileNotFound => "FileNotFoundError"
  | .runtime => "RuntimeError"
  | .eof => "EOFError"
  | .unpickling => "UnpicklingError"
  | .osError => "OSError"
  | .tornPickle => "torn-pickle"

def showOutcome : Outcome → String
  | .fresh => "fresh"
  | .loaded v n w m => s!"loaded:{v}:{n}:{w}:{m}"
  | .raises e => s!"raises:{showExc e}"

def parseKind? : String → Option Kind
  | "std" => some .std | "ins" => some .ins | _ => none

def parseCp? (s : String) : Option (Option CrashPt) :=
  if s == "-" then some none else
  let (body, fl) := match s.splitOn "~" with
    | [b, f] => (b, f.toNat?)
    | _ => (s, some 0)
  match fl, body.splitOn "." with
  | some f, [j] => j.toNat?.map fun j => some ⟨j, none, f⟩
  | some f, [j, k] => do
    let j ← j.toNat?
    let k ← k.toNat?
    pure (some ⟨j, some k, f⟩)
  | _, _ => none

def parseEv? (s : String) : Option Ev :=
  match s.splitOn ":" with
  | ["c", se, v, n, len, cp] => do
    let se ← parseBool? se
    let v ← v.toNat?
    let n ← n.toNat?
    let len ← len.toNat?
    let cp ← parseCp? cp
    pure (.ckpt se v n len cp)
  | ["t", w, len, e, cp] => do
    let w ← w.toNat?
    let len ← len.toNat?
    let e ← parseExcLetter? e
    let cp ← parseCp? cp
    pure (.train w len e cp)
  | _ => none

def parseContent? (s : String) : Option Content :=
  if s == "-" then some .absent else
  match s.toList with
  | 'T' :: r =>
    let digits := r.takeWhile Char.isDigit
    let rest := r.dropWhile Char.isDigit
    match (String.ofList digits).toNat?, parseExcLetter? (String.ofList rest) with
    | some k, some e => some (.torn k e)
    | _, _ => none
  | 'C' :: r =>
    match (String.ofList r).splitOn "." with
    | [v, n] => do
      let v ← v.toNat?
      let n ← n.toNat?
      pure (.complete v n)
    | _ => none
  | _ => none

def parseSuffix? : String → Option Suffix
  | "base" => some .base | "old" => some .old | "temp" => some .temp | _ => none

/-- `ckpt.base`, `w.old`, `l3.base` -/
def parsePath? (s : String) : Option Path :=
  match s.splitOn "." with
  | [f, suf] => do
    let suf ← parseSuffix? suf
    if f == "ckpt" then pure ⟨.ckpt, suf⟩
    else if f == "w" then pure ⟨.weights, suf⟩
    else match f.toList with
      | 'l' :: r => (String.ofList r).toNat?.map fun i => ⟨.level i, suf⟩
      | _ => none
  | _ => none

def showSys (kind : Kind) (s : Sys) : String :=
  let fam3 (f : Fam) := ",".intercalate ([Suffix.base, .old, .temp].map fun x => showContent (s.fs ⟨f, x⟩))
  let lv := ";".intercalate ((List.range s.top).map fun i =>
    s!"{i}:" ++ showContent (s.fs ⟨.level i, .base⟩) ++ "/" ++ showContent (s.fs ⟨.level i, .old⟩))
  s!"ckpt={fam3 .ckpt} w={fam3 .weights} lv=[{lv}] mem={s.mem} top={s.top} out=" ++
    showOutcome (resume kind Gen.protocol.cfg s.top s.fs)

def showNames (l : List ExcName) : String :=
  "(" ++ ",".intercalate (l.map fun n => (reprStr n).replace "NessaiVerif.CrashFS.ExcName." "") ++ ")"

def handle (toks : List String) : String :=
  match toks with
  | "hist" :: k :: evs =>
    match parseKind? k, evs.mapM parseEv? with
    | some kind, some evs => showSys kind (replay kind Gen.protocol evs)
    | _, _ => "bad-op"
  | "ops" :: k :: e :: evs =>
    match parseKind? k, parseEv? e, evs.mapM parseEv? with
    | some kind, some e, some evs =>
      let s := replay kind Gen.protocol evs
      let ops := match e with
        | .ckpt se v n len _ => dyn .ckpt ⟨v, s.mem, len, .tornPickle⟩ (Gen.protocol.dump se) s.fs
        | .train w len e _ => dyn (trainFam kind s.mem) ⟨w, 0, len, e⟩ Gen.protocol.saveWeights s.fs
      " ".intercalate (ops.map showOp)
    | _, _, _ => "bad-op"
  | "resume" :: k :: top :: assigns =>
    match parseKind? k, top.toNat? with
    | some kind, some top =>
      let step (acc : Option FS) (a : String) : Option FS := do
        let fs ← acc
        match a.splitOn "=" with
        | [p, c] => do
          let p ← parsePath? p
          let c ← parseContent? c
          pure (fs.set p c)
        | _ => none
      match assigns.foldl step (some emptyFS) with
      | some fs => showOutcome (resume kind Gen.protocol.cfg top fs)
      | none => "bad-op"
    | _, _ => "bad-op"
  | ["cfg"] =>
    let c := Gen.protocol.cfg
    s!"safe={showBool c.weights.safe} first={showSuffix c.first}{showNames c.catchFirst} " ++
    s!"second={showSuffix c.second}{showNames c.catchSecond} guard={showBool c.weights.guardExists} " ++
    s!"wcatch={showNames c.weights.excs} onMissing={showBool c.weights.onMissing} resetPath={showBool c.weights.resetPath}"
  | _ => "bad-op"

end NessaiVerif.Driver.CrashFS
