/-
C09 — bookkeeping model of the proposal pools (core Lean only, executable).

What is modelled, following the control flow of the code:
  * `FlowProposal.backward_pass` (drop non-finite `log_q`, then `check_prior_bounds`), the optional
    `truncate_log_q` filter, `compute_weights` (`log_p - log_q`);
  * both branches of the `while n_accepted < N` loop of `FlowProposal.populate`
    (plain: `log_w -= log_w.max()`, slice write `samples[a:a+m] = x[accept][:m]`, `n_accepted += accept.sum()`;
     accumulating: concatenation, `log_constant = max(np.nanmax(log_w), log_constant)` (Python `max`),
     the `log_n_expected >= log_n` gate, the `max_samples` break, the final re-draw of `accept`);
  * `RejectionProposal.populate`, `AnalyticProposal.populate`, the fill loops of `Model._multiple_new_points`
    and `ImportanceNestedSampler.populate_live_points`, `ImportanceFlowProposal.draw`;
  * the handout `draw`: `indices.pop()`, `populated := False` when the list becomes empty.
Candidate batches, in-bounds flags, log-densities, log-uniforms, the gate decisions of the accumulating
branch and the permutation keys are INPUTS.  Floating-point values are modelled by `EV` (NaN, -inf, an exact
rational, +inf) with IEEE semantics for `-`, `>`, `>=`, `np.max`, `np.nanmax`.
-/
namespace NessaiVerif.Pool

/-- a float64 as far as the bookkeeping can see it -/
inductive EV
  | nan
  | ninf
  | fin (q : Rat)
  | pinf
deriving DecidableEq, Repr, Inhabited

namespace EV

def isFinite : EV → Bool
  | fin _ => true
  | _ => false

def isNaN : EV → Bool
  | nan => true
  | _ => false

/-- IEEE `a - b` -/
def sub : EV → EV → EV
  | nan, _ => nan
  | _, nan => nan
  | fin a, fin b => fin (a - b)
  | fin _, pinf => ninf
  | fin _, ninf => pinf
  | pinf, pinf => nan
  | pinf, _ => pinf
  | ninf, ninf => nan
  | ninf, _ => ninf

/-- IEEE `a > b` (false as soon as one side is NaN) -/
def gt : EV → EV → Bool
  | nan, _ => false
  | _, nan => false
  | ninf, _ => false
  | _, pinf => false
  | fin _, ninf => true
  | fin a, fin b => decide (b < a)
  | pinf, ninf => true
  | pinf, fin _ => true

/-- IEEE `a >= b` -/
def ge : EV → EV → Bool
  | nan, _ => false
  | _, nan => false
  | ninf, ninf => true
  | ninf, _ => false
  | fin _, ninf => true
  | fin a, fin b => decide (b ≤ a)
  | fin _, pinf => false
  | pinf, _ => true

/-- `np.maximum(a, b)`: NaN propagates -/
def fmax (a b : EV) : EV :=
  if a.isNaN then nan else if b.isNaN then nan else if gt b a then b else a

/-- Python's builtin `max(a, b)`: `b if b > a else a` — NaN does NOT propagate symmetrically -/
def pyMax (a b : EV) : EV := if gt b a then b else a

end EV

open EV

/-- `ndarray.max()` of a non-empty array (callers guard emptiness; `nan` stands in for the empty case) -/
def npMax : List EV → EV
  | [] => .nan
  | x :: xs => xs.foldl fmax x

/-- `np.nanmax`: NaNs are skipped, an all-NaN (or empty) array gives NaN -/
def nanmax (xs : List EV) : EV :=
  match xs.filter (fun x => !x.isNaN) with
  | [] => .nan
  | y :: ys => ys.foldl fmax y

/-- a candidate point produced by the flow / the prior sampler -/
structure Cand where
  id : Nat
  /-- `Model.in_bounds` of the physical point -/
  inb : Bool
  /-- proposal log-density (including the Jacobian of the rescaling) -/
  logq : EV
  /-- log-prior as seen by `compute_weights` -/
  logp : EV
deriving DecidableEq, Repr, Inhabited

/-- `x[mask]` -/
def select {α : Type} : List Bool → List α → List α
  | b :: bs, x :: xs => if b then x :: select bs xs else select bs xs
  | _, _ => []

/-- `FlowProposal.check_prior_bounds`: keep exactly the rows whose `in_bounds` flag is set -/
def checkPriorBounds (cs : List Cand) : List Cand := cs.filter (·.inb)

/-- `FlowProposal.backward_pass(z, rescale, discard_nans=True)` (also `AugmentedFlowProposal`):
    `valid = np.isfinite(log_prob)`, then — ONLY `if rescale:` — `check_prior_bounds`.
    `populate` passes `rescale = not self.use_x_prime_prior`. -/
def backwardPassX (rescale : Bool) (cs : List Cand) : List Cand :=
  let valid := cs.filter (·.logq.isFinite)
  if rescale then checkPriorBounds valid else valid

/-- the `rescale=True` branch (`use_x_prime_prior = False`, every proposal without a prime prior).  The population
    loops below are modelled for THIS branch only; the x-prime-prior branch (`rescale=False`, where the bounds are not
    checked by `backward_pass` and `convert_to_samples` applies `inverse_rescale` afterwards) is not modelled. -/
def backwardPass (cs : List Cand) : List Cand := backwardPassX true cs

/-- `if self.truncate_log_q: x, log_q = get_subset_arrays(log_q > min_log_q, x, log_q)` -/
def truncate (minLogQ : Option EV) (cs : List Cand) : List Cand :=
  match minLogQ with
  | none => cs
  | some m => cs.filter (fun c => gt c.logq m)

/-- what reaches `compute_weights` from one drawn batch -/
def survivors (minLogQ : Option EV) (batch : List Cand) : List Cand := truncate minLogQ (backwardPass batch)

/-- Behaviour of `FlowProposal.backward_pass` BEFORE fix c6b6530 (never of `AugmentedFlowProposal.backward_pass`): the
    rows with a non-finite `log_prob` were removed from `x` and `log_prob` but not from `z`, and
    `check_prior_bounds(x, z, log_prob)` then indexed `z` with a mask of the wrong length — `IndexError`.
    `strictZ = true` selects that behaviour (a drawn batch containing any non-finite `log_q` aborts the population);
    the fixed code is `strictZ = false`: such rows are simply dropped, from `z` as well. -/
def batchCrashes (strictZ : Bool) (b : List Cand) : Bool :=
  strictZ && b.any (fun c => !c.logq.isFinite)

/-- `compute_weights`: `log_w = log_p - log_q` -/
def logWeight (c : Cand) : EV := sub c.logp c.logq
def logWeights (cs : List Cand) : List EV := cs.map logWeight

/-- the acceptance test of `FlowProposal.populate`, literally: `(log_w - log_w_max) > log_u` -/
def acceptFlow (lw lwMax lu : EV) : Bool := gt (sub lw lwMax) lu

/-- the acceptance test of `RejectionProposal.populate`, literally: `((log_w - log_w_max) - log_u) >= 0` -/
def acceptRej (lw lwMax lu : EV) : Bool := ge (sub (sub lw lwMax) lu) (.fin 0)

/-- `(log_w - c) > log_u` elementwise.  `np.random.rand(len(log_w))` supplies exactly `len` uniforms; a script that
    is too short reads as NaN (never accepted), so the mask always has the length of `log_w`. -/
def acceptMask : List EV → EV → List EV → List Bool
  | [], _, _ => []
  | w :: ws, c, us => acceptFlow w c (us.headD .nan) :: acceptMask ws c us.tail

/-- `((log_w - m) - log_u) >= 0` elementwise (`RejectionProposal.populate`) -/
def rejectMask : List EV → EV → List EV → List Bool
  | [], _, _ => []
  | w :: ws, c, us => acceptRej w c (us.headD .nan) :: rejectMask ws c us.tail

/-- `arr[a : a+m] = xs[:m]` on a fixed-length array (`none` = slot of `np.empty` not yet written) -/
def sliceWrite {α : Type} (arr : List (Option α)) (a m : Nat) (xs : List α) : List (Option α) :=
  arr.take a ++ (xs.take m).map some ++ arr.drop (a + m)

/-! ### the plain branch of `FlowProposal.populate` -/

structure PlainSt where
  /-- `samples = empty_structured_array(N)` -/
  arr : List (Option Cand)
  nAcc : Nat := 0
  nProp : Nat := 0
  /-- slot indices written, in time order -/
  writes : List Nat := []
  /-- scripted batches / `rand` calls consumed -/
  batches : Nat := 0
  rands : Nat := 0
  /-- the population was aborted by the `IndexError` of `batchCrashes` -/
  crashed : Bool := false
deriving Repr, DecidableEq

def PlainSt.init (N : Nat) : PlainSt := { arr := List.replicate N none }

/-- what one batch contributes in the plain branch: `x[accept]` -/
def plainAccepted (minLogQ : Option EV) (batch : List Cand) (lus : List EV) : List Cand :=
  let x := survivors minLogQ batch
  let lw := logWeights x
  select (acceptMask lw (npMax lw) lus) x

/-- the `while n_accepted < N` loop, plain branch.  `none` = the script ran out of batches/uniforms before the
    loop condition became false (the real loop would go on drawing). -/
def plainLoop (strictZ : Bool) (N : Nat) (minLogQ : Option EV) :
    PlainSt → List (List Cand) → List (List EV) → Option PlainSt
  | st, bs, us =>
    if N ≤ st.nAcc then some st
    else match bs with
      | [] => none
      | b :: bs =>
        let st1 := { st with nProp := st.nProp + b.length, batches := st.batches + 1 }
        if batchCrashes strictZ b then some { st1 with crashed := true }             -- IndexError
        else if (survivors minLogQ b).isEmpty then plainLoop strictZ N minLogQ st1 bs us   -- `continue`
        else match us with
          | [] => none
          | u :: us =>
            let xa := plainAccepted minLogQ b u
            let m := min (N - st.nAcc) xa.length
            plainLoop strictZ N minLogQ
              { st1 with arr := sliceWrite st1.arr st.nAcc m xa, nAcc := st.nAcc + xa.length,
                         writes := st.writes ++ (List.range m).map (st.nAcc + ·), rands := st.rands + 1 }
              bs us

/-- result of a population -/
structure Population where
  /-- `self.x` / `self.samples` (slots of `np.empty` never written show as `none`) -/
  pool : List (Option Cand)
  /-- arguments of `batch_evaluate_log_likelihood`, in order -/
  llCalls : List (Option Cand)
  nAcc : Nat
  nProp : Nat
  batches : Nat
  rands : Nat
  /-- the accumulating loop left through `break` -/
  broke : Bool := false
  /-- the population raised `IndexError` (see `batchCrashes`); the other fields are then meaningless -/
  crashed : Bool := false
deriving Repr, DecidableEq

/-- `FlowProposal.populate`, plain branch: loop, `self.x = samples[:N]`, likelihood on the whole pool -/
def populatePlain (strictZ : Bool) (N : Nat) (minLogQ : Option EV) (bs : List (List Cand))
    (us : List (List EV)) : Option Population :=
  (plainLoop strictZ N minLogQ (PlainSt.init N) bs us).map fun st =>
    let pool := st.arr.take N
    { pool := pool, llCalls := pool, nAcc := st.nAcc, nProp := st.nProp, batches := st.batches, rands := st.rands,
      crashed := st.crashed }

/-! ### the accumulating branch (`accumulate_weights=True`) -/

structure AccSt where
  samples : List Cand := []
  lws : List EV := []
  /-- `log_constant` -/
  c : EV := .ninf
  nAcc : Nat := 0
  /-- `accept` (`None` until the gate opened once) -/
  accept : Option (List Bool) := none
  nProp : Nat := 0
  batches : Nat := 0
  rands : Nat := 0
  crashed : Bool := false
deriving Repr

def countTrue (bs : List Bool) : Nat := (bs.filter id).length

/-- the loop of the accumulating branch.  `gates` are the outcomes of `log_n_expected >= log_n`, one per
    iteration that reaches the test.  Returns the state and whether the loop was left through `break`. -/
def accLoop (strictZ : Bool) (N maxS : Nat) (minLogQ : Option EV) :
    AccSt → List (List Cand) → List Bool → List (List EV) → Option (AccSt × Bool × List (List EV))
  | st, bs, gs, us =>
    if N ≤ st.nAcc then some (st, false, us)
    else match bs with
      | [] => none
      | b :: bs =>
        let st1 := { st with nProp := st.nProp + b.length, batches := st.batches + 1 }
        let x := survivors minLogQ b
        if batchCrashes strictZ b then some ({ st1 with crashed := true }, false, us)   -- IndexError
        else if x.isEmpty then accLoop strictZ N maxS minLogQ st1 bs gs us   -- `continue` (skips the max_samples test)
        else match gs with
          | [] => none
          | g :: gs =>
            let lw := logWeights x
            let samples := st.samples ++ x
            let lws := st.lws ++ lw
            let c := pyMax (nanmax lw) st.c
            let st2 := { st1 with samples := samples, lws := lws, c := c }
            if g then
              match us with
              | [] => none
              | u :: us =>
                let acc := acceptMask lws c u
                let st3 := { st2 with accept := some acc, nAcc := countTrue acc, rands := st2.rands + 1 }
                if maxS < st3.nProp then some (st3, true, us) else accLoop strictZ N maxS minLogQ st3 bs gs us
            else
              if maxS < st2.nProp then some (st2, true, us) else accLoop strictZ N maxS minLogQ st2 bs gs us

/-- `log_u = np.log(np.random.rand(len(log_weights))); accept = (log_weights - log_constant) > log_u` -/
def redrawMask (st : AccSt) : List (List EV) → Option (List Bool × Nat)
  | [] => none
  | u :: _ => some (acceptMask st.lws st.c u, st.rands + 1)

/-- `accept` after the loop: `if accept is None or len(accept) != len(samples):` a new mask is drawn, otherwise the
    one left by the loop is used.  Returns the mask and the number of `rand` calls made so far. -/
def finalMask (st : AccSt) (us : List (List EV)) : Option (List Bool × Nat) :=
  match st.accept with
  | none => redrawMask st us
  | some a => if a.length = st.samples.length then some (a, st.rands) else redrawMask st us

/-- after the loop: `n_accepted = np.sum(accept)`, `self.x = samples[accept][:N]`, likelihood on the whole pool -/
def accFinal (N : Nat) (st : AccSt) (broke : Bool) (us : List (List EV)) : Option Population :=
  (finalMask st us).map fun (acc, r) =>
    let pool := ((select acc st.samples).take N).map some
    { pool := pool, llCalls := pool, nAcc := countTrue acc, nProp := st.nProp, batches := st.batches,
      rands := r, broke := broke, crashed := st.crashed }

def populateAcc (strictZ : Bool) (N maxS : Nat) (minLogQ : Option EV) (bs : List (List Cand)) (gs : List Bool)
    (us : List (List EV)) : Option Population :=
  match accLoop strictZ N maxS minLogQ {} bs gs us with
  | none => none
  | some (st, broke, us') =>
    if st.crashed then
      some { pool := [], llCalls := [], nAcc := 0, nProp := st.nProp, batches := st.batches, rands := st.rands,
             crashed := true }
    else accFinal N st broke us'

/-! ### prior-rejection and analytic pools -/

/-- `RejectionProposal.populate(N)`: `x = model.new_point(N)`, `log_w -= np.nanmax(log_w)`,
    `indices = np.where((log_w - log_u) >= 0)`, likelihood on the accepted points only -/
def populateRejection (cands : List Cand) (lus : List EV) : Population :=
  let lw := logWeights cands
  let m := nanmax lw
  let acc := rejectMask lw m lus
  let pool := (select acc cands).map some
  { pool := pool, llCalls := pool, nAcc := pool.length, nProp := cands.length, batches := 1, rands := 1 }

/-- `AnalyticProposal.populate(N)`: the pool is `model.new_point(N)`, all of it goes to the likelihood -/
def populateAnalytic (cands : List Cand) : Population :=
  let pool := cands.map some
  { pool := pool, llCalls := pool, nAcc := cands.length, nProp := cands.length, batches := 1, rands := 0 }

/-- the fill loop shared by `Model._multiple_new_points` (accept = finite log-prior) and
    `ImportanceNestedSampler.populate_live_points`:
    `m = min(len(p), N - n); out[n:n+m] = p[:m]; n += m` -/
def fillLoop {α : Type} (N : Nat) (keep : α → Bool) :
    List (Option α) → Nat → List (List α) → Option (List (Option α))
  | arr, n, bs =>
    if N ≤ n then some arr
    else match bs with
      | [] => none
      | b :: bs =>
        let p := b.filter keep
        let m := min p.length (N - n)
        fillLoop N keep (sliceWrite arr n m p) (n + m) bs

def newPoints (N : Nat) (bs : List (List Cand)) : Option (List (Option Cand)) :=
  fillLoop N (fun c => c.logp.isFinite) (List.replicate N none) 0 bs

/-! ### `ImportanceFlowProposal.draw` -/

structure ICand where
  id : Nat
  /-- `model.in_unit_hypercube(x)` -/
  inCube : Bool
  /-- `np.isfinite(x_check).all(axis=1)`, `np.isfinite(x_prime).all(axis=1)`, `np.isfinite(log_j)`,
      `np.isfinite(log_j_inv)` -/
  finCheck : Bool
  finPrime : Bool
  finJ : Bool
  finJinv : Bool
  logP : EV
  logU : EV
  logQ : EV
  /-- `np.isnan(log_q_all).all(axis=1)`, `np.isposinf(log_q_all).all(axis=1)` -/
  qAllNaN : Bool
  qAllPinf : Bool
deriving DecidableEq, Repr, Inhabited

def ICand.mask1 (c : ICand) : Bool := c.inCube && c.finCheck && c.finPrime && c.finJ && c.finJinv
def ICand.logW (c : ICand) : EV := sub c.logU c.logQ
def ICand.mask2 (c : ICand) : Bool :=
  c.logP.isFinite && !(c.logW == .pinf) && !c.qAllNaN && !c.qAllPinf

/-- the `while n_accepted < n and n_draw > 0` loop (`n_draw = int(1.01 n)` is positive iff `n ≥ 1`) -/
def insLoop (n : Nat) : List ICand → Nat → Nat → List (List ICand) → Option (List ICand × Nat)
  | samples, nAcc, k, bs =>
    if n ≤ nAcc ∨ n = 0 then some (samples, k)
    else match bs with
      | [] => none
      | b :: bs =>
        let x1 := b.filter ICand.mask1
        if x1.isEmpty then insLoop n samples nAcc (k + 1) bs
        else
          let x2 := x1.filter ICand.mask2
          if x2.isEmpty then insLoop n samples nAcc (k + 1) bs
          else insLoop n (samples ++ x2) (nAcc + x2.length) (k + 1) bs

/-- `ImportanceFlowProposal.draw(n)`: returned samples (`samples[:n]`) and the number of batches drawn;
    `draw_n_samples` hands exactly these to the likelihood -/
def insDraw (n : Nat) (bs : List (List ICand)) : Option (List ICand × Nat) :=
  (insLoop n [] 0 0 bs).map fun (s, k) => (s.take n, k)

/-! ### radially truncated latent draws (`NDimensionalTruncatedGaussian.sample`, `draw_truncated_gaussian`) -/

/-- `np.sum(x**2)` — the squared Euclidean norm (sqrt-free) -/
def normSq {K : Type} [Add K] [Mul K] [OfNat K 0] (xs : List K) : K :=
  xs.foldr (fun x acc => x * x + acc) 0

/-- `p * x / np.sqrt(np.sum(x**2))` coordinatewise, `s` standing for the square root -/
def radialScale {K : Type} [Mul K] [Div K] (p s : K) (xs : List K) : List K :=
  xs.map (fun x => p * x / s)

/-! ### handing out pool points (`draw`) -/

/-- `np.random.permutation(n)` scripted by keys: the stable argsort of the first `n` keys -/
def permOf (keys : List Int) (n : Nat) : List Nat :=
  (List.range n).mergeSort (fun i j => decide (keys.getD i 0 ≤ keys.getD j 0))

/-- proposal state as far as `draw` is concerned -/
structure HState where
  populated : Bool := false
  /-- ids of `self.samples` -/
  pool : List Nat := []
  indices : List Nat := []
  /-- `populated_count` -/
  count : Nat := 0
deriving Repr, DecidableEq

/-- a finished population as seen by `draw`: the new pool and `np.random.permutation(size).tolist()` -/
structure Pop where
  pool : List Nat
  indices : List Nat
deriving Repr, DecidableEq

inductive Op
  | draw
  /-- what `train` does to the pool: `populated = False` (indices are left behind) -/
  | inval
deriving Repr, DecidableEq

inductive Out
  /-- `draw` returned `samples[idx]` of population number `count` -/
  | handed (count idx : Nat) (id : Option Nat)
  | ok
  /-- `indices.pop()` on an empty list -/
  | errIndex
  /-- the script has no further population -/
  | exhausted
deriving Repr, DecidableEq

/-- `indices.pop()` and the `if not self.indices: self.populated = False` that follows -/
def popIndex (st : HState) : HState × Out :=
  match st.indices.getLast? with
  | none => (st, .errIndex)
  | some i =>
    let rest := st.indices.dropLast
    ({ st with indices := rest, populated := if rest.isEmpty then false else st.populated },
     .handed st.count i st.pool[i]?)

/-- install a population: `self.indices = []` … `self.samples = …; self.indices = permutation; populated = True` -/
def install (st : HState) (p : Pop) : HState :=
  { populated := true, pool := p.pool, indices := p.indices, count := st.count + 1 }

/-- one operation on the proposal; `pops` are the populations still to come -/
def hstep (st : HState) (pops : List Pop) : Op → HState × List Pop × Out
  | .inval => ({ st with populated := false }, pops, .ok)
  | .draw =>
    if st.populated then
      let (st', o) := popIndex st
      (st', pops, o)
    else
      match pops with
      | [] => (st, [], .exhausted)
      | p :: pops =>
        let (st', o) := popIndex (install st p)
        (st', pops, o)

def hrun : HState → List Pop → List Op → List Out
  | _, _, [] => []
  | st, pops, op :: ops =>
    let (st', pops', o) := hstep st pops op
    o :: hrun st' pops' ops

/-- the `(population number, index)` pairs handed out -/
def handedKeys : List Out → List (Nat × Nat)
  | [] => []
  | .handed c i _ :: os => (c, i) :: handedKeys os
  | _ :: os => handedKeys os

end NessaiVerif.Pool
