/-
C07 — executable model of the *exact* (affine) family of nessai's reparameterisations.

Modelled from
  nessai/utils/rescaling.py        rescale_zero_to_one, inverse_rescale_zero_to_one, rescale_minus_one_to_one,
                                   inverse_rescale_minus_one_to_one, determine_rescaled_bounds
  nessai/reparameterisations/rescale.py   ScaleAndShift / Rescale, RescaleToBounds (set_bounds, update_bounds,
                                   _rescale_to_bounds, _inverse_rescale_to_bounds, _apply_inversion,
                                   _reverse_inversion, update_prime_prior_bounds, x_prime_log_prior)
  nessai/reparameterisations/null.py      NullReparameterisation
  nessai/reparameterisations/combined.py  CombinedReparameterisation (to_prime_order / from_prime_order)
  nessai/proposal/flowproposal.py         rescale / inverse_rescale (non-sampling fields copied)
  nessai/priors.py                        log_uniform_prior (support only)

Conventions
* Every definition is generic over a type `K` carrying only core operation classes, so the driver executes it at
  `K := Rat` and the theorems (Proofs/, Props/) hold for every linearly ordered field (ℚ and ℝ).
* The code accumulates `log_j`; the model accumulates the multiplicative *factor* `J` (`log_j += lj` ↦ `j * J`).
  Where the code takes `log` of a non-positive number (NaN / -inf) the model factor is non-positive.
* External randomness (`np.random.choice` in `_apply_inversion`, the `test=` edge decision handed to `detect_edge`)
  is an input: one sign bit per point and parameter, one `Edge` per parameter.
* A live point is a function from parameter names to values; a reparameterisation maps the triple
  `(x, x_prime, log_j)` to a triple, exactly like `reparameterise(x, x_prime, log_j)` does.
-/
namespace NessaiVerif.Reparam

inductive Err | runtime | attr | value
deriving Repr, DecidableEq

section Scalar
variable {K : Type} [Add K] [Sub K] [Mul K] [Div K] [Neg K] [OfNat K 0] [OfNat K 1]
  [LT K] [DecidableLT K] [DecidableEq K]

/-- the literal `2.0` -/
def two : K := 1 + 1
/-- `np.abs` -/
def absK (a : K) : K := if a < 0 then -a else a
def maxK (a b : K) : K := if a < b then b else a
def minK (a b : K) : K := if b < a then b else a
/-- `np.ptp([a, b])` = max − min (never negative) -/
def ptp (a b : K) : K := maxK a b - minK a b

/-! ### nessai/utils/rescaling.py — each returns (value, Jacobian factor) -/

def rescaleZeroToOne (x xmin xmax : K) : K × K :=
  ((x - xmin) / (xmax - xmin), 1 / (xmax - xmin))

def inverseRescaleZeroToOne (x xmin xmax : K) : K × K :=
  ((xmax - xmin) * x + xmin, xmax - xmin)

def rescaleMinusOneToOne (x xmin xmax : K) : K × K :=
  ((two * (x - xmin) / (xmax - xmin)) - 1, two / (xmax - xmin))

def inverseRescaleMinusOneToOne (x xmin xmax : K) : K × K :=
  ((xmax - xmin) * ((x + 1) / two) + xmin, (xmax - xmin) / two)

/-- the value of `invert` / `self._edges[p]`: `None`, `False`, `'lower'`, `'upper'`, `'both'`, any other string -/
inductive Edge | unset | off | lower | upper | both | other
deriving Repr, DecidableEq

/-- `determine_rescaled_bounds`; `none` = `ValueError` -/
def determineRescaledBounds (pmin pmax xmin xmax : K) (invert : Edge) (inversion : Bool)
    (offset r0 r1 : K) : Option (K × K) :=
  if xmin = xmax then none else
  let scale : K := if inversion then 1 else r1 - r0
  let shift : K := if inversion then 0 else r0
  let lower := scale * (pmin - offset - xmin) / (xmax - xmin) + shift
  let upper := scale * (pmax - offset - xmin) / (xmax - xmin) + shift
  if !inversion then some (lower, upper)
  else match invert with
    | .unset | .off => some (two * lower - 1, two * upper - 1)
    | .upper => some (lower - 1, 1 - lower)
    | .lower => some (-upper, upper)
    | .both => some (-(1 / two), 1 + 1 / two)
    | .other => none

/-- support of `log_uniform_prior(x, xmin, xmax)`: `(x >= xmin) & (x <= xmax)` -/
def inUniformSupport (x xmin xmax : K) : Bool := !(decide (x < xmin)) && !(decide (xmax < x))

/-- `exp(log_uniform_prior(x, xmin, xmax))`: the (unnormalised) prime-space prior value, 1 on the closed interval, 0 off it -/
def uniformPriorFactor (x xmin xmax : K) : K := if inUniformSupport x xmin xmax then 1 else 0

/-! ### ScaleAndShift / Rescale -/

structure SS (K : Type) where
  /-- `self.scale[p]`; `none` = attribute never set (scale given as 0: falsy) -/
  scale : Option K
  /-- `self.shift[p]`; `none` = `self.shift is None` -/
  shift : Option K
  estScale : Bool
  estShift : Bool

def ssInit (scale shift : Option K) (estScale estShift : Bool) : Except Err (SS K) :=
  if scale.isNone && !estScale then .error .runtime else
  .ok {
    scale := if estScale then some 1 else
      match scale with
      | some s => if s = 0 then none else some s
      | none => none
    shift := if estShift then some 0 else
      match shift with
      | some s => if s = 0 then none else some s
      | none => none
    estScale := estScale, estShift := estShift }

def ssFwd (r : SS K) (x : K) : Except Err (K × K) :=
  match r.scale with
  | none => .error .attr
  | some s =>
    .ok ((match r.shift with
          | some sh => (x - sh) / s
          | none => x / s), 1 / absK s)

def ssInv (r : SS K) (y : K) : Except Err (K × K) :=
  match r.scale with
  | none => .error .attr
  | some s =>
    .ok ((match r.shift with
          | some sh => y * s + sh
          | none => y * s), absK s)

variable [NatCast K]

def sumK (xs : List K) : K := xs.foldl (· + ·) 0
/-- `np.mean` -/
def meanK (xs : List K) : K := sumK xs / (xs.length : K)
/-- the argument of the square root in `np.std`: mean(|x − mean|²) -/
def varK (xs : List K) : K := meanK (xs.map fun x => absK (x - meanK xs) * absK (x - meanK xs))

/-- `ScaleAndShift.update`.  `np.std` needs a square root: the caller supplies it as `wit` and the model
checks `wit ≥ 0 ∧ wit² = var` (`none` if the witness is wrong). -/
def ssUpdate (r : SS K) (data : List K) (wit : K) : Option (SS K) :=
  if r.estScale && (decide (wit < 0) || !(decide (wit * wit = varK data))) then none else
  some { r with
    scale := if r.estScale then some wit else r.scale
    shift := if r.estShift then some (meanK data) else r.shift }

def ssReset (r : SS K) : SS K :=
  { r with
    scale := if r.estScale then some 1 else r.scale
    shift := if r.estShift then some 0 else r.shift }

/-! ### RescaleToBounds (one parameter; parameters of one instance are independent) -/

/-- a pre- or post-rescaling: forward and inverse, each returning (value, Jacobian factor) -/
structure Hook (K : Type) where
  fwd : K → K × K
  inv : K → K × K

def Hook.id : Hook K := ⟨fun x => (x, 1), fun x => (x, 1)⟩

/-- affine hook `x ↦ a·x + b` (what the driver executes; the code accepts any pair of callables) -/
def Hook.affine (a b : K) : Hook K := ⟨fun x => (a * x + b, absK a), fun y => ((y - b) / a, 1 / absK a)⟩

inductive InvType | split | duplicate
deriving Repr, DecidableEq

structure Rtb (K : Type) where
  p0 : K
  p1 : K
  /-- `rescale_bounds[p]` after the `[0, 1]` overrides -/
  r0 : K
  r1 : K
  /-- `boundary_inversion[p]` when `p in boundary_inversion` -/
  inversion : Option InvType
  /-- `self._update` -/
  update : Bool
  pre : Option (Hook K)
  post : Option (Hook K)
  hasPrimePrior : Bool
  /-- `offsets[p]` -/
  offset : K
  /-- `bounds[p]` -/
  b0 : K
  b1 : K
  /-- `_edges[p]` -/
  edge : Edge

def Rtb.preF (r : Rtb K) : K → K × K := match r.pre with | some h => h.fwd | none => fun x => (x, 1)
def Rtb.preI (r : Rtb K) : K → K × K := match r.pre with | some h => h.inv | none => fun x => (x, 1)
def Rtb.postF (r : Rtb K) : K → K × K := match r.post with | some h => h.fwd | none => fun x => (x, 1)
def Rtb.postI (r : Rtb K) : K → K × K := match r.post with | some h => h.inv | none => fun x => (x, 1)
/-- `_rescale_factor[p] = np.ptp(rescale_bounds[p])` -/
def Rtb.factor (r : Rtb K) : K := ptp r.r0 r.r1
/-- `_rescale_shift[p] = rescale_bounds[p][0]` -/
def Rtb.shift (r : Rtb K) : K := r.r0

/-- the state `RescaleToBounds.__init__` + `set_bounds` build for one parameter when no error is raised.
`postNamedLog`: `post_rescaling in ["logit", "log"]` (a string): rescale bounds forced to `[0, 1]`. -/
def rtbMk (p0 p1 : K) (rescaleBounds : Option (K × K)) (inversion : Option InvType)
    (detectEdges offset updateBounds : Bool) (pre post : Option (Hook K)) (postNamedLog : Bool)
    (priorUniform : Bool) : Rtb K :=
  let rb : K × K :=
    if postNamedLog then (0, 1) else if inversion.isSome then (0, 1) else
      match rescaleBounds with | some b => b | none => (-1, 1)
  let preF : K → K × K := match pre with | some h => h.fwd | none => fun x => (x, 1)
  let off : K := if offset then (preF p0).1 + ptp (preF p0).1 (preF p1).1 / two else 0
  { p0 := p0, p1 := p1, r0 := rb.1, r1 := rb.2, inversion := inversion,
    update := if !detectEdges then updateBounds else true,
    pre := pre, post := post, hasPrimePrior := priorUniform && post.isNone, offset := off,
    b0 := (preF p0).1 - off, b1 := (preF p1).1 - off, edge := .unset }

/-- `RescaleToBounds.__init__` + `set_bounds` for one parameter of the instance.
`objInversion`: the instance's `boundary_inversion` is truthy (some parameter is inverted). -/
def rtbInit (p0 p1 : K) (rescaleBounds : Option (K × K)) (inversion : Option InvType) (objInversion : Bool)
    (detectEdges offset updateBounds : Bool) (pre post : Option (Hook K)) (postNamedLog : Bool)
    (priorUniform : Bool) : Except Err (Rtb K) :=
  if detectEdges && !objInversion then .error .runtime else
  if postNamedLog && (if !detectEdges then updateBounds else true) then .error .runtime else
  .ok (rtbMk p0 p1 rescaleBounds inversion detectEdges offset updateBounds pre post postNamedLog priorUniform)

/-- `update_prime_prior_bounds`: `none` = no prime prior, `some none` = `ValueError` -/
def rtbPrimeBounds (r : Rtb K) : Option (Option (K × K)) :=
  if !r.hasPrimePrior then none else
  some (determineRescaledBounds (r.preF r.p0).1 (r.preF r.p1).1 r.b0 r.b1
    (if r.inversion.isSome then r.edge else .unset) r.inversion.isSome r.offset r.r0 r.r1)

/-- the `detect_edge(..., test=test)` step at the head of `_apply_inversion` -/
def rtbDetect (r : Rtb K) (test : Edge) : Rtb K :=
  if r.inversion.isSome && r.edge = .unset then { r with edge := test } else r

/-- the rescaling / inversion step of `reparameterise` applied to the pre-rescaled value `y`
(`_apply_inversion` when `p in boundary_inversion`, `_rescale_to_bounds` otherwise).
`neg` = this point was selected for sign inversion (split: index drawn by `np.random.choice`;
duplicate / compute_radius: the second copy). -/
def rtbCore (r : Rtb K) (neg : Bool) (y : K) : K × K :=
  match r.inversion with
  | some _ =>
    match r.edge with
    | .unset | .off =>
      rescaleMinusOneToOne (y - r.offset) r.b0 r.b1
    | e =>
      let u := rescaleZeroToOne (y - r.offset) r.b0 r.b1
      let v := if e = .upper then 1 - u.1 else u.1
      (if neg then -v else v, u.2)
  | none =>
    (r.factor * ((y - r.offset - r.b0) / (r.b1 - r.b0)) + r.shift, r.factor / (r.b1 - r.b0))

/-- the matching step of `inverse_reparameterise` (`_reverse_inversion` / `_inverse_rescale_to_bounds`, then
`+= offsets[p]`) -/
def rtbCoreInv (r : Rtb K) (y : K) : K × K :=
  match r.inversion with
  | some _ =>
    match r.edge with
    | .unset | .off =>
      let v := inverseRescaleMinusOneToOne y r.b0 r.b1
      (v.1 + r.offset, v.2)
    | e =>
      let a := if y < 0 then -y else y
      let a := if e = .upper then 1 - a else a
      let v := inverseRescaleZeroToOne a r.b0 r.b1
      (v.1 + r.offset, v.2)
  | none =>
    ((r.b1 - r.b0) * (y - r.shift) / r.factor + r.b0 + r.offset, (r.b1 - r.b0) / r.factor)

/-- `reparameterise` for one point of one parameter: pre-rescaling, core step, post-rescaling;
the log-Jacobians are added (factors multiplied) in that order. -/
def rtbFwd (r : Rtb K) (neg : Bool) (x : K) : K × K :=
  let y := r.preF x
  let z := rtbCore r neg y.1
  let w := r.postF z.1
  (w.1, y.2 * z.2 * w.2)

/-- `inverse_reparameterise` for one point of one parameter -/
def rtbInv (r : Rtb K) (xp : K) : K × K :=
  let y := r.postI xp
  let z := rtbCoreInv r y.1
  let w := r.preI z.1
  (w.1, y.2 * z.2 * w.2)

def minL (d : K) (xs : List K) : K := xs.foldl minK d
def maxL (d : K) (xs : List K) : K := xs.foldl maxK d

/-- `update(x)` = `update_bounds(x)` then `reset_inversion()`; data must be non-empty -/
def rtbUpdate (r : Rtb K) (data : List K) : Rtb K :=
  match data with
  | [] => r
  | d :: ds =>
    let r1 : Rtb K := if r.update then
        { r with b0 := (r.preF (minL d ds)).1 - r.offset, b1 := (r.preF (maxL d ds)).1 - r.offset }
      else r
    { r1 with edge := .unset }

/-- `reset()` -/
def rtbReset (r : Rtb K) : Rtb K :=
  { r with edge := .unset, b0 := (r.preF r.p0).1 - r.offset, b1 := (r.preF r.p1).1 - r.offset }

end Scalar

/-! ### Reparameterisation objects acting on `(x, x_prime, log_j)` and their combination -/

structure Reparam (X XP K : Type) where
  fwd : X × XP × K → X × XP × K
  inv : X × XP × K → X × XP × K

/-- `a[name] = v` on a structured array row -/
def upd {ι K : Type} [DecidableEq ι] (f : ι → K) (i : ι) (v : K) : ι → K :=
  fun j => if j = i then v else f j

/-- a one-parameter reparameterisation `p ↦ pp` from scalar maps returning (value, Jacobian factor) -/
def ofScalar {ι κ K : Type} [DecidableEq ι] [DecidableEq κ] [Mul K] (p : ι) (pp : κ)
    (f g : K → K × K) : Reparam (ι → K) (κ → K) K where
  fwd := fun s => (s.1, upd s.2.1 pp (f (s.1 p)).1, s.2.2 * (f (s.1 p)).2)
  inv := fun s => (upd s.1 p (g (s.2.1 pp)).1, s.2.1, s.2.2 * (g (s.2.1 pp)).2)

/-- apply in order, invert in reverse order: the parameter loop of one `RescaleToBounds`/`ScaleAndShift`/`Null`
instance (`reversed(self.parameters)` in the inverse) and `CombinedReparameterisation` with `reverse_order=False` -/
def seq {X XP K : Type} (rs : List (Reparam X XP K)) : Reparam X XP K where
  fwd := fun s => rs.foldl (fun s r => r.fwd s) s
  inv := fun s => rs.reverse.foldl (fun s r => r.inv s) s

/-- `CombinedReparameterisation`: `to_prime_order` / `from_prime_order` with the `reverse_order` flag -/
def combined {X XP K : Type} (rs : List (Reparam X XP K)) (reverseOrder : Bool) : Reparam X XP K where
  fwd := fun s => (if reverseOrder then rs.reverse else rs).foldl (fun s r => r.fwd s) s
  inv := fun s => (if reverseOrder then rs else rs.reverse).foldl (fun s r => r.inv s) s

/-- `NullReparameterisation` on one parameter (prime name = name) -/
def nullReparam {ι K : Type} [DecidableEq ι] [Mul K] [OfNat K 1] (p : ι) : Reparam (ι → K) (ι → K) K :=
  ofScalar p p (fun x => (x, 1)) (fun x => (x, 1))

/-- `FlowProposal.rescale`: start from an empty `x_prime` and `log_J = 0`, run the combined reparameterisation,
then copy the non-sampling fields `ns` from `x` to `x_prime`. -/
def proposalRescale {ι K : Type} [DecidableEq ι] [OfNat K 1]
    (c : Reparam (ι → K) (ι → K) K) (ns : List ι) (empty : ι → K) (x : ι → K) : (ι → K) × K :=
  let s := c.fwd (x, empty, 1)
  (ns.foldl (fun xp p => upd xp p (s.1 p)) s.2.1, s.2.2)

/-- `FlowProposal.inverse_rescale` -/
def proposalInverseRescale {ι K : Type} [DecidableEq ι] [OfNat K 1]
    (c : Reparam (ι → K) (ι → K) K) (ns : List ι) (empty : ι → K) (xp : ι → K) : (ι → K) × K :=
  let s := c.inv (empty, xp, 1)
  (ns.foldl (fun x p => upd x p (s.2.1 p)) s.1, s.2.2)

end NessaiVerif.Reparam
