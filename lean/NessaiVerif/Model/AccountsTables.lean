/-
C12 — shapes of the pickling tables that harness/c12.py regenerates from the nessai sources into
Gen/Accounts.lean on every run, and the (decidable) predicates the property theorems are stated with.
Core Lean only.
-/
namespace NessaiVerif.AccountsTables

/-- What the translator extracts for one class of the pickling chain. -/
structure ClassTable where
  /-- class name -/
  name : String
  /-- base classes that are themselves in the chain (nearest first) -/
  bases : List String
  /-- every attribute assigned on `self` anywhere in the class body, plus class-level attributes -/
  fields : List String
  /-- attributes assigned directly in `__init__` -/
  initFields : List String
  /-- has its own `__getstate__` -/
  ownGetstate : Bool
  /-- keys removed from the pickled state by `__getstate__` (exclude-set literal / `del state[k]`) -/
  excluded : List String
  /-- explicit `state[k] = v` in `__getstate__`: (key, guard source or "", value source) -/
  overrides : List (String × String × String)
  /-- attributes returned next to the state dict (`return state, self.a, self.b`) -/
  tupleParts : List String
  /-- attributes re-attached positionally by `__setstate__` (`self.a = state[i]`) -/
  setstate : List String
  deriving Repr

/-- One place where the resume path (or first use afterwards) assigns an attribute. -/
structure Site where
  /-- class that owns the attribute -/
  owner : String
  attr : String
  /-- `Class.method` holding the assignment -/
  site : String
  /-- "resume" (executed by the resume path itself) or "lazy" (executed on first use afterwards) -/
  kind : String
  deriving Repr

def lookup (ts : List ClassTable) (c : String) : Option ClassTable := ts.find? (·.name == c)

/-- the class and its chain bases, nearest first (bounded by the table length: no recursion worries) -/
def lineage (ts : List ClassTable) (c : String) : List String :=
  match lookup ts c with
  | none => []
  | some t => c :: t.bases

/-- the `__getstate__` in force for a class: its own, else the nearest base's -/
def getstateOwner (ts : List ClassTable) (c : String) : Option ClassTable :=
  (lineage ts c).findSome? fun n =>
    match lookup ts n with
    | some t => if t.ownGetstate then some t else none
    | none => none

def attrUniverse (ts : List ClassTable) (c : String) : List String :=
  (lineage ts c).flatMap fun n => match lookup ts n with | some t => t.fields | none => []

/-- constant override values that mean "the value is not saved" -/
def droppingValue (v : String) : Bool := v == "None" || v == "False"

/-- `f` of class `c` is not carried by the pickle (always, or under some guard): it is in the exclusion
    set (and neither a tuple part nor unconditionally put back), or it is an attribute of the class that
    `__getstate__` overwrites with `None`/`False` -/
def dropped (ts : List ClassTable) (c f : String) : Bool :=
  match getstateOwner ts c with
  | none => false
  | some t =>
    (t.excluded.contains f && !t.tupleParts.contains f
      && !(t.overrides.any fun o => o.1 == f && o.2.1 == "" && !droppingValue o.2.2))
    || (t.overrides.any (fun o => o.1 == f && droppingValue o.2.2) && (attrUniverse ts c).contains f)

/-- the keys the `__getstate__` in force for `c` drops -/
def droppedOf (ts : List ClassTable) (c : String) : List String :=
  match getstateOwner ts c with
  | none => []
  | some t => (t.excluded ++ t.overrides.map (·.1)).eraseDups.filter (dropped ts c)

/-- `f` of class `c` (or of a base) is assigned somewhere on the resume path / on first use -/
def rederived (ts : List ClassTable) (sites : List Site) (c f : String) : Bool :=
  sites.any fun s => s.attr == f && (lineage ts c).contains s.owner

/-- positional `__setstate__` puts back exactly the tuple parts, in order -/
def tupleRoundTrip (t : ClassTable) : Bool := t.tupleParts == t.setstate

/-- `f` of class `c` (or of a base) is assigned by the resume path itself (not merely on first use afterwards) -/
def touched (ts : List ClassTable) (sites : List Site) (c f : String) : Bool :=
  sites.any fun s => s.attr == f && s.kind == "resume" && (lineage ts c).contains s.owner

/-- the statement of `result_fields_survive` for one (class, field): the attribute exists, and
    * if the `__getstate__` in force drops it, some site of the resume path (or a first-use site) assigns it again
      (WHAT it is assigned is not judged here — the round-trip tie compares the values);
    * if the pickle carries it, the resume path does not assign it — unless it is in the explicit list `exempt` of carried
      attributes that the resume path is known to overwrite (their values too are compared by the round-trip tie). -/
def survives (ts : List ClassTable) (sites : List Site) (exempt : List (String × String)) (cf : String × String) : Bool :=
  (attrUniverse ts cf.1).contains cf.2 &&
    (if dropped ts cf.1 cf.2 then rederived ts sites cf.1 cf.2
     else (!touched ts sites cf.1 cf.2 || exempt.contains cf))

/-! A state is an association list attribute ↦ value (any value type).  Checkpointing keeps the attributes the
`__getstate__` in force does not drop; resuming puts the pickled attributes back (`__dict__.update(state)`) and then
lets the resume path overwrite the attributes it assigns, with whatever values it derives (`fresh`). -/
def pickleState {α : Type} (ts : List ClassTable) (c : String) (s : List (String × α)) : List (String × α) :=
  s.filter fun kv => !dropped ts c kv.1

def resumeState {α : Type} (ts : List ClassTable) (sites : List Site) (c : String)
    (fresh p : List (String × α)) : List (String × α) :=
  (fresh.filter fun kv => touched ts sites c kv.1) ++ p

end NessaiVerif.AccountsTables
