import NessaiVerif.Proofs.Information
import Mathlib.Analysis.SpecialFunctions.Log.Basic
/- The information recursion over ℝ with `lg = Real.log`: Gibbs' inequality for the textbook value. -/
namespace NessaiVerif.Info
open NessaiVerif.Quad

/-- prior masses `π_i = w_{i-1} (1 - t_i)` of the shells -/
def prior {K : Type} [Mul K] [Sub K] [OfNat K 1] (w : K) : List (K × K) → List K
  | [] => []
  | (_, t) :: rest => (w * (1 - t)) :: prior (w * t) rest

theorem sumL_prior_le (w : ℝ) (hw : 0 < w) (steps : List (ℝ × ℝ)) (h : Pos steps) :
    sumL (prior w steps) ≤ w ∧ (steps ≠ [] → 0 < sumL (prior w steps)) := by
  induction steps generalizing w with
  | nil => simp [prior, sumL, le_of_lt hw]
  | cons p rest ih =>
    obtain ⟨L, t⟩ := p
    have hp := h.head
    simp only at hp
    have := ih (w * t) (mul_pos hw hp.2.1) h.tail
    simp only [prior, sumL]
    have h1 : 0 < w * (1 - t) := mul_pos hw (by linarith [hp.2.2])
    refine ⟨by nlinarith [this.1], fun _ => ?_⟩
    by_cases hr : rest = []
    · subst hr; simp [prior, sumL, h1]
    · linarith [this.2 hr]

theorem sumL_terms_pos (w : ℝ) (hw : 0 < w) (steps : List (ℝ × ℝ)) (h : Pos steps) (hne : steps ≠ []) :
    0 < sumL (terms w steps) := by
  cases steps with
  | nil => exact absurd rfl hne
  | cons p rest =>
    obtain ⟨L, t⟩ := p
    have hp := h.head
    simp only at hp
    simp only [terms, sumL]
    have h1 : 0 < w * L * (1 - t) := mul_pos (mul_pos hw hp.1) (by linarith [hp.2.2])
    have := sumL_terms_nonneg (w * t) (mul_pos hw hp.2.1) rest h.tail
    linarith

/-- term-wise `log x ≥ 1 - 1/x`, summed: for every constant `c > 0`
`Σ W_i log L_i + log c · Σ W_i ≥ Σ W_i - (Σ π_i) / c` -/
theorem gibbs_sum (c : ℝ) (hc : 0 < c) (w : ℝ) (hw : 0 < w) (steps : List (ℝ × ℝ)) (h : Pos steps) :
    sumL (terms w steps) - sumL (prior w steps) / c ≤
      weightedLogs Real.log w steps + Real.log c * sumL (terms w steps) := by
  induction steps generalizing w with
  | nil => simp [terms, prior, weightedLogs, sumL]
  | cons p rest ih =>
    obtain ⟨L, t⟩ := p
    have hp := h.head
    simp only at hp
    have ih' := ih (w * t) (mul_pos hw hp.2.1) h.tail
    simp only [terms, prior, weightedLogs, sumL]
    have h1t : 0 < 1 - t := by linarith [hp.2.2]
    have hLc : 0 < L * c := mul_pos hp.1 hc
    have hlog : 1 - (L * c)⁻¹ ≤ Real.log (L * c) := Real.one_sub_inv_le_log_of_pos hLc
    rw [Real.log_mul (ne_of_gt hp.1) (ne_of_gt hc)] at hlog
    have hπ : 0 < w * (1 - t) := mul_pos hw h1t
    have key : w * L * (1 - t) - w * (1 - t) / c ≤ w * L * (1 - t) * (Real.log L + Real.log c) := by
      have e : w * L * (1 - t) - w * (1 - t) / c = (w * (1 - t) * L) * (1 - (L * c)⁻¹) := by
        have hL := ne_of_gt hp.1
        have hc' := ne_of_gt hc
        rw [mul_inv]
        field_simp
      rw [e]
      have : 0 ≤ w * (1 - t) * L := le_of_lt (mul_pos hπ hp.1)
      calc w * (1 - t) * L * (1 - (L * c)⁻¹) ≤ w * (1 - t) * L * (Real.log L + Real.log c) :=
            mul_le_mul_of_nonneg_left hlog this
        _ = w * L * (1 - t) * (Real.log L + Real.log c) := by ring
    have e2 : (w * (1 - t) + sumL (prior (w * t) rest)) / c
        = w * (1 - t) / c + sumL (prior (w * t) rest) / c := by ring
    rw [e2]
    nlinarith [key, ih']

/-- **Gibbs' inequality for the nested-sampling information**: `H ≥ -log Σ π_i ≥ 0`. -/
theorem textbook_ge (steps : List (ℝ × ℝ)) (h : Pos steps) (hne : steps ≠ []) :
    -Real.log (sumL (prior 1 steps)) ≤ textbook Real.log steps ∧ 0 ≤ -Real.log (sumL (prior 1 steps)) := by
  have hZ := sumL_terms_pos 1 one_pos steps h hne
  have hP := sumL_prior_le 1 one_pos steps h
  have hPpos := hP.2 hne
  set Z := sumL (terms 1 steps) with hZdef
  set P := sumL (prior 1 steps) with hPdef
  have g := gibbs_sum (P / Z) (div_pos hPpos hZ) 1 one_pos steps h
  rw [← hZdef, ← hPdef] at g
  have e1 : P / (P / Z) = Z := by field_simp
  rw [e1, Real.log_div (ne_of_gt hPpos) (ne_of_gt hZ)] at g
  refine ⟨?_, ?_⟩
  · unfold textbook
    simp only [← hZdef]
    have : weightedLogs Real.log 1 steps / Z - Real.log Z + Real.log P
        = (weightedLogs Real.log 1 steps + (Real.log P - Real.log Z) * Z) / Z := by
      field_simp
      ring
    have h0 : 0 ≤ (weightedLogs Real.log 1 steps + (Real.log P - Real.log Z) * Z) / Z :=
      div_nonneg (by linarith) (le_of_lt hZ)
    linarith
  · have : Real.log P ≤ 0 := Real.log_nonpos (le_of_lt hPpos) hP.1
    linarith

end NessaiVerif.Info
