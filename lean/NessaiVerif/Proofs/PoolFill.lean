import NessaiVerif.Proofs.PoolLoop
/-
C09 — the fill loops (`Model._multiple_new_points`, `ImportanceNestedSampler.populate_live_points`) and
`ImportanceFlowProposal.draw` (core Lean only).
-/
namespace NessaiVerif.Pool
open EV

theorem fillLoop_spec {α : Type} (N : Nat) (keep : α → Bool) (all : List (List α)) :
    ∀ (bs : List (List α)) (arr : List (Option α)) (n : Nat) (pre : List α) (out : List (Option α)),
      (∀ b ∈ bs, b ∈ all) →
      arr = (pre.take N).map some ++ List.replicate (N - pre.length) none → n = min N pre.length →
      (∀ c ∈ pre, keep c = true ∧ ∃ b ∈ all, c ∈ b) →
      fillLoop N keep arr n bs = some out →
      ∃ pre' : List α, out = (pre'.take N).map some ∧ N ≤ pre'.length ∧ ∀ c ∈ pre', keep c = true ∧ ∃ b ∈ all, c ∈ b := by
  intro bs
  induction bs with
  | nil =>
    intro arr n pre out _ harr hn hpre h
    unfold fillLoop at h
    split at h
    · rename_i hN
      cases h
      refine ⟨pre, ?_, by omega, hpre⟩
      have : N - pre.length = 0 := by omega
      simp [harr, this]
    · simp at h
  | cons b bs ih =>
    intro arr n pre out hall harr hn hpre h
    unfold fillLoop at h
    split at h
    · rename_i hN
      cases h
      refine ⟨pre, ?_, by omega, hpre⟩
      have : N - pre.length = 0 := by omega
      simp [harr, this]
    · rename_i hN
      simp only at h
      have hlt : pre.length < N := by omega
      have hn' : n = pre.length := by omega
      refine ih _ _ (pre ++ b.filter keep) out (fun b' hb' => hall b' (List.mem_cons_of_mem _ hb')) ?_ ?_ ?_ h
      · subst harr; rw [hn', Nat.min_comm]
        exact sliceWrite_fill N pre _ hlt
      · simp only [List.length_append]; omega
      · intro c hc
        rcases List.mem_append.1 hc with hc | hc
        · exact hpre c hc
        · have := List.mem_filter.1 hc
          exact ⟨this.2, b, hall b List.mem_cons_self, this.1⟩

theorem insLoop_spec (n : Nat) (all : List (List ICand)) :
    ∀ (bs : List (List ICand)) (samples : List ICand) (nAcc k : Nat) (out : List ICand) (k' : Nat),
      (∀ b ∈ bs, b ∈ all) → nAcc = samples.length →
      (∀ c ∈ samples, c.mask1 = true ∧ c.mask2 = true ∧ ∃ b ∈ all, c ∈ b) →
      insLoop n samples nAcc k bs = some (out, k') →
      n ≤ out.length ∧ ∀ c ∈ out, c.mask1 = true ∧ c.mask2 = true ∧ ∃ b ∈ all, c ∈ b := by
  intro bs
  induction bs with
  | nil =>
    intro samples nAcc k out k' _ hn hs h
    unfold insLoop at h
    split at h
    · rename_i hN; cases h; exact ⟨by omega, hs⟩
    · simp at h
  | cons b bs ih =>
    intro samples nAcc k out k' hall hn hs h
    have hall' : ∀ b' ∈ bs, b' ∈ all := fun b' hb' => hall b' (List.mem_cons_of_mem _ hb')
    unfold insLoop at h
    split at h
    · rename_i hN; cases h; exact ⟨by omega, hs⟩
    · simp only at h
      split at h
      · exact ih _ _ _ _ _ hall' hn hs h
      · split at h
        · exact ih _ _ _ _ _ hall' hn hs h
        · refine ih _ _ _ _ _ hall' (by simp [hn]) ?_ h
          intro c hc
          rcases List.mem_append.1 hc with hc | hc
          · exact hs c hc
          · have h2 := List.mem_filter.1 hc
            have h1 := List.mem_filter.1 h2.1
            exact ⟨h1.2, h2.2, b, hall b List.mem_cons_self, h1.1⟩

end NessaiVerif.Pool
