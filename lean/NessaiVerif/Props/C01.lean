import NessaiVerif.Proofs.LiveSetInv
import NessaiVerif.Proofs.LiveSetTx
/-
C01 — the live set evolves only by likelihood-constrained replacement.
Property theorems only (model: Model/LiveSet.lean, lemmas: Proofs/LiveSet*.lean).

`Inv init s` (Proofs/LiveSetInv.lean) is the loop invariant: `live` has `n ≥ 1` points in ascending
likelihood order, `nested` is non-decreasing and below every live point, `nested ++ live` is a
permutation of `init ++ hist` (the initial live set plus the accepted replacements), and the
counts of nested samples, insertion indices and accepted points all equal the iteration number.

Scope: `consume` is one atomic step.  Checkpoint + resume is the identity on this state only for
checkpoints written at iteration boundaries (`update_state`, end of run).  A checkpoint written inside
`consume_sample` (`checkpoint_on_training=True`, or a signal handler) is NOT covered:
`resume_mid_consume_breaks_inv` below is the machine-checked counter-example; on the real code these are the
known findings `NestedSampler.train_proposal:checkpoint_on_training:checkpoint-inside-consume_sample` (F25)
and `NestedSampler.consume_sample:interrupt-between-evidence-increment-and-insertion-index` (F4).
-/
namespace NessaiVerif.C01
open NessaiVerif.Np NessaiVerif.LiveSet

/-- `populate_live_points` establishes the invariant: exactly `n` points, sorted, all with a finite
log-prior (the `isfinite` screen), iteration stamp 0, and they are exactly the screened draws
(candidates failing `logP != -inf`, `logL > -inf` — NaN and `-inf` likelihoods — or with a non-finite
prior are skipped), nothing recorded yet. -/
theorem populate_inv (n : Nat) (hn : 1 ≤ n) (cands rest : List Cand) (s : St)
    (h : populate (St.new n) cands = .ok (s, rest)) :
    Inv s.live s ∧ s.live.length = n ∧ SortedL s.live ∧ s.iter = 0 ∧ s.nested = [] ∧ s.idx = [] ∧
    (∀ p ∈ s.live, p.logP = .fin ∧ p.it = 0) ∧
    ∃ used, cands = used ++ rest ∧ s.live.Perm (used.filterMap storeOf) := by
  obtain ⟨hI, hit, hn', used, hu, hperm⟩ := populate_spec n hn cands rest s h
  refine ⟨hI, by rw [hI.len, hn'], hI.sorted, hit, ?_, ?_, ?_, used, hu, hperm⟩
  · have := hI.nlen; rw [hit] at this; exact List.eq_nil_of_length_eq_zero this
  · have := hI.ilen; rw [hit] at this; exact List.eq_nil_of_length_eq_zero this
  · intro p hp
    have hp' := hperm.mem_iff.mp hp
    obtain ⟨c, _, hc⟩ := List.mem_filterMap.mp hp'
    obtain ⟨v, _, hfin, rfl⟩ := storeOf_some hc
    exact ⟨hfin, rfl⟩

example : Inv Ex.s0.live Ex.s0 ∧ Ex.s0.live.length = 3 ∧ SortedL Ex.s0.live ∧ Ex.s0.iter = 0 ∧ Ex.s0.nested = [] ∧
    Ex.s0.idx = [] ∧ (∀ p ∈ Ex.s0.live, p.logP = .fin ∧ p.it = 0) ∧
    ∃ used, Ex.cands0 = used ++ Ex.rest0 ∧ Ex.s0.live.Perm (used.filterMap storeOf) :=
  populate_inv 3 (by omega) Ex.cands0 Ex.rest0 Ex.s0 Ex.populate_s0

example : Ex.s0.live.map (·.id) = [2, 1, 5] := by decide

/-- **One iteration.**  From any state satisfying the invariant, a successful `consume_sample`
removes exactly the head of the live set, which is a minimum; skips every candidate failing the
filter; inserts the first candidate `c` that passes it, as a point `p` with `c`'s identity, prior
class and in-bounds attribute, stamped with the new iteration, with `p.logL` **strictly** above the
removed likelihood; the new live set is `insSorted p tail` (every other point untouched, relative
order kept); the removed point is appended once to `nested`; the recorded index is the position
`p` occupies, and is `< n`. -/
theorem consume_step (init : List Pt) (s s' : St) (cands rest : List Cand) (hI : Inv init s)
    (h : consume s cands = .ok (s', rest)) : StepOK s s' cands rest :=
  consume_stepOK init s s' cands rest hI h

example : StepOK Ex.s0 Ex.s1 Ex.rest0 Ex.rest1 :=
  consume_step _ _ _ _ _ Ex.inv_s0 Ex.consume_s0

/-- The invariant is preserved by every successful iteration (size `n`, sortedness, nested
non-decreasing, nothing lost or duplicated, accounts aligned). -/
theorem consume_preserves_inv (init : List Pt) (s s' : St) (cands rest : List Cand) (hI : Inv init s)
    (h : consume s cands = .ok (s', rest)) : Inv init s' := by
  obtain ⟨w, t, c, v, pre, hlive, _, hacc, _, hs'⟩ := consume_spec s s' cands rest h
  rw [hs']
  exact stepResult_inv init s w t c v pre hI hlive hacc

example : Inv Ex.s0.live Ex.s1 := consume_preserves_inv _ _ _ _ _ Ex.inv_s0 Ex.consume_s0

/-- **Every run.**  After any number `k` of iterations on any candidate stream, from any state
satisfying the invariant: the invariant holds, the live set still has exactly `n` points and the
iteration counter advanced by `k`. -/
theorem run_inv (init : List Pt) (k : Nat) (s s' : St) (cands rest : List Cand) (hI : Inv init s)
    (h : runSteps k s cands = .ok (s', rest)) :
    Inv init s' ∧ s'.live.length = s.n ∧ s'.iter = s.iter + k := by
  obtain ⟨hI', hit, hn⟩ := runSteps_inv init k s s' cands rest hI h
  exact ⟨hI', by rw [hI'.len, hn], hit⟩

example : Inv Ex.s0.live Ex.s2 ∧ Ex.s2.live.length = 3 ∧ Ex.s2.iter = 0 + 2 :=
  run_inv _ 2 Ex.s0 Ex.s2 Ex.rest0 [] Ex.inv_s0 Ex.run2_s0

/-- Every single iteration of every run satisfies the step property: the `j`-th state of a run
satisfies the invariant, so `consume_step` applies to the `j+1`-st call. -/
theorem run_every_step (init : List Pt) (j : Nat) (s sj sj' : St) (cands cj cj' : List Cand)
    (hI : Inv init s) (hj : runSteps j s cands = .ok (sj, cj)) (hc : consume sj cj = .ok (sj', cj')) :
    StepOK sj sj' cj cj' ∧ runSteps (j + 1) s cands = .ok (sj', cj') := by
  refine ⟨consume_stepOK init sj sj' cj cj' (runSteps_inv init j s sj cands cj hI hj).1 hc, ?_⟩
  rw [runSteps_succ_right, hj]
  exact hc

example : StepOK Ex.s0 Ex.s1 Ex.rest0 Ex.rest1 :=
  (run_every_step _ 0 Ex.s0 Ex.s0 Ex.s1 Ex.rest0 Ex.rest0 _ Ex.inv_s0 rfl Ex.consume_s0).1

/-- The removed point is the current minimum of the live set. -/
theorem removed_is_minimum (init : List Pt) (s s' : St) (cands rest : List Cand) (hI : Inv init s)
    (h : consume s cands = .ok (s', rest)) :
    ∃ w, s.live.head? = some w ∧ s'.nested = s.nested ++ [w] ∧ ∀ y ∈ s.live, w.logL ≤ y.logL := by
  obtain ⟨w, t, c, p, pre, hlive, hmin, _, _, _, _, _, _, _, _, _, hnest, _⟩ :=
    consume_stepOK init s s' cands rest hI h
  exact ⟨w, by rw [hlive]; rfl, hnest, hmin⟩

example : ∃ w, Ex.s0.live.head? = some w ∧ Ex.s1.nested = Ex.s0.nested ++ [w] ∧ ∀ y ∈ Ex.s0.live, w.logL ≤ y.logL :=
  removed_is_minimum _ _ _ _ _ Ex.inv_s0 Ex.consume_s0

/-- Every other live point is left untouched: the new live set is the old one without its head,
split in two at one place, with the new point in between — and the split is after exactly the points
strictly below the new one (with ties, the new point goes *before* its equals: `searchsorted`
side `left`). -/
theorem others_untouched (init : List Pt) (s s' : St) (cands rest : List Cand) (hI : Inv init s)
    (h : consume s cands = .ok (s', rest)) :
    ∃ p a b, s.live.tail = a ++ b ∧ s'.live = a ++ p :: b ∧
      (∀ y ∈ a, y.logL < p.logL) ∧ (∀ y ∈ b, p.logL ≤ y.logL) := by
  obtain ⟨w, t, c, p, pre, hlive, _, _, _, _, _, _, _, _, _, hl', _⟩ :=
    consume_stepOK init s s' cands rest hI h
  have hs := hI.sorted
  rw [hlive] at hs
  refine ⟨p, t.takeWhile (fun x => decide (x.logL < p.logL)), t.dropWhile (fun x => decide (x.logL < p.logL)),
    ?_, hl', ?_, dropWhile_ge_of_sorted p t (List.pairwise_cons.mp hs).2⟩
  · rw [hlive]; exact List.takeWhile_append_dropWhile.symm
  · intro y hy
    simpa using mem_takeWhile_sat _ _ y hy

example : ∃ p a b, Ex.s0.live.tail = a ++ b ∧ Ex.s1.live = a ++ p :: b ∧
    (∀ y ∈ a, y.logL < p.logL) ∧ (∀ y ∈ b, p.logL ≤ y.logL) :=
  others_untouched _ _ _ _ _ Ex.inv_s0 Ex.consume_s0

/-- The replacement is strictly above the removed likelihood, has a log-prior different from `-inf`,
and is one of the proposed candidates, unmodified (identity, prior class, in-bounds attribute:
`cand.inBounds → inserted.inBounds`). -/
theorem replacement_strict (init : List Pt) (s s' : St) (cands rest : List Cand) (hI : Inv init s)
    (h : consume s cands = .ok (s', rest)) :
    ∃ w p c, s.live.head? = some w ∧ p ∈ s'.live ∧ c ∈ cands ∧ w.logL < p.logL ∧ c.logP ≠ .ninf ∧
      p.id = c.id ∧ p.logP = c.logP ∧ (c.inB = true → p.inB = true) ∧ s'.hist = s.hist ++ [p] := by
  obtain ⟨w, t, c, p, pre, hlive, _, hc, _, hp, hid, hlp, hb, _, hlt, hl', _, _, _, _, _, _, _, hh⟩ :=
    consume_stepOK init s s' cands rest hI h
  refine ⟨w, p, c, by rw [hlive]; rfl, ?_, by rw [hc]; simp, hlt, hp, hid, hlp, by rw [hb]; exact id, hh⟩
  rw [hl']
  exact (insSorted_perm p t).mem_iff.mpr (List.mem_cons_self)

example : ∃ w p c, Ex.s0.live.head? = some w ∧ p ∈ Ex.s1.live ∧ c ∈ Ex.rest0 ∧ w.logL < p.logL ∧ c.logP ≠ .ninf ∧
    p.id = c.id ∧ p.logP = c.logP ∧ (c.inB = true → p.inB = true) ∧ Ex.s1.hist = Ex.s0.hist ++ [p] :=
  replacement_strict _ _ _ _ _ Ex.inv_s0 Ex.consume_s0

/-- The recorded insertion index is the position the new point actually occupies in the new live
set; it lies in `[0, n)`; every point before it is strictly below the new point and every point after
it is not below (so with ties the index is the *first* admissible position). -/
theorem index_is_position (init : List Pt) (s s' : St) (cands rest : List Cand) (hI : Inv init s)
    (h : consume s cands = .ok (s', rest)) :
    ∃ (i : Nat) (p : Pt), s'.idx = s.idx ++ [(i : Int)] ∧ i < s.n ∧ s'.live[i]? = some p ∧
      s'.hist = s.hist ++ [p] ∧
      (∀ j y, j < i → s'.live[j]? = some y → y.logL < p.logL) ∧
      (∀ j y, i < j → s'.live[j]? = some y → p.logL ≤ y.logL) := by
  obtain ⟨w, t, c, p, pre, hlive, _, _, _, _, _, _, _, _, _, hl', _, hidx, hget, hlt, _, _, _, hh⟩ :=
    consume_stepOK init s s' cands rest hI h
  have hs := hI.sorted
  rw [hlive] at hs
  refine ⟨rankIn p t, p, hidx, hlt, hget, hh, ?_, ?_⟩
  · intro j y hj hy
    rw [hl'] at hy
    exact insSorted_before p t j hj y hy
  · intro j y hj hy
    rw [hl'] at hy
    exact insSorted_after p t (List.pairwise_cons.mp hs).2 j hj y hy

example : ∃ (i : Nat) (p : Pt), Ex.s1.idx = Ex.s0.idx ++ [(i : Int)] ∧ i < Ex.s0.n ∧ Ex.s1.live[i]? = some p ∧
    Ex.s1.hist = Ex.s0.hist ++ [p] ∧
    (∀ j y, j < i → Ex.s1.live[j]? = some y → y.logL < p.logL) ∧
    (∀ j y, i < j → Ex.s1.live[j]? = some y → p.logL ≤ y.logL) :=
  index_is_position _ _ _ _ _ Ex.inv_s0 Ex.consume_s0

/-- Consequences for the records at any point of any run: the discarded likelihoods are
non-decreasing; `nested ++ live` is a permutation of the initial live set plus the accepted
replacements — every discarded point recorded exactly once, none lost; one insertion index per
iteration, all in `[0, n)`; `logLmin` is the last discarded likelihood. -/
theorem run_records (init : List Pt) (k : Nat) (s s' : St) (cands rest : List Cand) (hI : Inv init s)
    (h : runSteps k s cands = .ok (s', rest)) :
    SortedL s'.nested ∧ (s'.nested ++ s'.live).Perm (init ++ s'.hist) ∧
    s'.nested.length = s'.iter ∧ s'.idx.length = s'.iter ∧ s'.hist.length = s'.iter ∧
    (∀ i ∈ s'.idx, 0 ≤ i ∧ i < (s'.n : Int)) ∧
    (∀ w, s'.nested.getLast? = some w → s'.logLmin = some w.logL) := by
  obtain ⟨hI', _, _⟩ := runSteps_inv init k s s' cands rest hI h
  exact ⟨hI'.nsorted, hI'.perm, hI'.nlen, hI'.ilen, hI'.hlen, hI'.irange, hI'.lmin⟩

example : SortedL Ex.s1.nested ∧ (Ex.s1.nested ++ Ex.s1.live).Perm (Ex.s0.live ++ Ex.s1.hist) := by
  have := run_records Ex.s0.live 1 Ex.s0 Ex.s1 Ex.rest0 Ex.rest1 Ex.inv_s0 Ex.run1_s0
  exact ⟨this.1, this.2.1⟩

/-- With distinct identities (initial points and accepted candidates pairwise different) no
discarded point is recorded twice and no recorded point is still live. -/
theorem run_recorded_once (init : List Pt) (k : Nat) (s s' : St) (cands rest : List Cand) (hI : Inv init s)
    (h : runSteps k s cands = .ok (s', rest)) (hd : ((init ++ s'.hist).map (·.id)).Nodup) :
    ((s'.nested ++ s'.live).map (·.id)).Nodup := by
  obtain ⟨hI', _, _⟩ := runSteps_inv init k s s' cands rest hI h
  exact (List.Perm.map _ hI'.perm).nodup_iff.mpr hd

example : ((Ex.s1.nested ++ Ex.s1.live).map (·.id)).Nodup :=
  run_recorded_once Ex.s0.live 1 Ex.s0 Ex.s1 Ex.rest0 Ex.rest1 Ex.inv_s0 Ex.run1_s0 (by decide)

/-- `finalise` appends the remaining live points in order: the complete record is non-decreasing in
likelihood, contains every initial point and every accepted replacement exactly once, and its length
is `iterations + n`. -/
theorem finalise_complete (init : List Pt) (s : St) (hI : Inv init s) :
    SortedL (finalise s).nested ∧ (finalise s).nested.Perm (init ++ s.hist) ∧
    (finalise s).nested.length = s.iter + s.n ∧ (finalise s).live = [] := by
  refine ⟨?_, hI.perm, ?_, rfl⟩
  · exact List.pairwise_append.mpr ⟨hI.nsorted, hI.sorted, hI.nle⟩
  · show (s.nested ++ s.live).length = _
    rw [List.length_append, hI.nlen, hI.len]

example : (finalise Ex.s1).nested.map (·.id) = [2, 7, 1, 5] ∧ SortedL (finalise Ex.s1).nested :=
  ⟨by decide, (finalise_complete _ _ (consume_preserves_inv _ _ _ _ _ Ex.inv_s0 Ex.consume_s0)).1⟩

/-- The sampling step never fails inside `insert_live_point`: on a non-empty live set the only way
`consume_sample` does not complete is a proposal that stops producing acceptable points; and any
stream containing an acceptable candidate completes. -/
theorem consume_completes (s : St) (cands : List Cand) (w : Pt) (t : List Pt) (hl : s.live = w :: t) :
    (consume s cands = .error .exhausted ∨ ∃ s' rest, consume s cands = .ok (s', rest)) ∧
    ((∃ c ∈ cands, (accepts (some w.logL) c).isSome) → ∃ s' rest, consume s cands = .ok (s', rest)) := by
  have ht := consume_total s cands (by rw [hl]; simp)
  refine ⟨ht, ?_⟩
  intro hc
  rcases ht with he | hok
  · exfalso
    have hsome := consumeLoop_some_of_mem (some w.logL) cands 0 0 hc
    unfold consume at he
    rw [hl] at he
    dsimp only at he
    cases hcl : consumeLoop (some w.logL) cands 0 0 with
    | none => rw [hcl] at hsome; simp at hsome
    | some r =>
      obtain ⟨c, v, count, rej, rest'⟩ := r
      rw [hcl] at he
      dsimp only at he
      obtain ⟨hacc, _⟩ := consumeLoop_spec _ _ _ _ _ _ _ _ _ hcl
      obtain ⟨_, _, hgt⟩ := accepts_some hacc
      have hlt : w.logL < (mkPt c v (s.iter + 1)).logL := by simpa [gtMin, mkPt] using hgt
      rw [insertLive_of_lt w t _ hlt] at he
      cases he
  · exact hok

example : ∃ s' rest, consume Ex.s0 Ex.rest0 = .ok (s', rest) :=
  (consume_completes Ex.s0 Ex.rest0 ⟨2, 3, 0, .fin, true⟩ _ rfl).2 ⟨⟨7, .fin 5, .fin 5, .fin, true, true⟩, by decide, by decide⟩

/-- Why the strict filter is load-bearing: `insert_live_point` called with a point **not** strictly
above the minimum computes `index = 0` and its slice assignment `live[:-1] = live[1:0]` cannot be
broadcast — for every live set of two or more points the call raises instead of inserting. -/
theorem insertLive_fails_at_zero (w : Pt) (t : List Pt) (p : Pt) (h : p.logL ≤ w.logL) (ht : t ≠ []) :
    insertLive (w :: t) p = .error .shape :=
  insertLive_at_zero w t p h ht

example : insertLive Ex.s0.live ⟨6, 3, 1, .fin, true⟩ = .error .shape :=
  insertLive_fails_at_zero _ _ _ (by decide) (by decide)

/-- …and with a single live point (`n = 1`) the same call silently *replaces* the point with a
not-better one and reports index `-1`: the filter, not `insert_live_point`, enforces strictness. -/
theorem insertLive_at_zero_single (w p : Pt) (h : p.logL ≤ w.logL) :
    insertLive [w] p = .ok ([p], -1) := by
  have : ¬ w.logL < p.logL := by omega
  simp [insertLive, ssl, this]

example : insertLive [⟨2, 3, 0, .fin, true⟩] ⟨6, 3, 1, .fin, true⟩ = .ok ([⟨6, 3, 1, .fin, true⟩], -1) :=
  insertLive_at_zero_single _ _ (by decide)

/-- **The source of `insert_live_point` IS the modelled slice program** (translation tie).  `Gen/LiveSetTx.lean` is
regenerated on every run from the current text of `NestedSampler.insert_live_point` by `harness/pyarr2lean.py`, statement by
statement, in the Python/NumPy indexing semantics of `Model/PySlice.lean` (negative indices, clipped slice bounds, NumPy's
refusal to broadcast a slice assignment of the wrong length — validated against NumPy itself on every run).  For every live
set and every point the generated definition returns exactly what the hand-written `insertLive` returns: the same new live
set and reported index, or the same exception (`ValueError` ↦ `shape`, `IndexError` ↦ `index`).  All theorems of this file
about `insertLive` are therefore theorems about what the source says now. -/
theorem insert_live_point_source_eq_model (live : List Pt) (p : Pt) :
    (Gen.LiveSetTx.insert_live_point live p).mapError LiveSetTx.toLS = insertLive live p :=
  LiveSetTx.insert_live_point_eq live p

/-- applied: the generated definition run on a concrete live set (new point of likelihood 4 into likelihoods 1, 3, 5: the
worst point leaves, the new one lands at index 1), and on the call that NumPy rejects -/
example : Gen.LiveSetTx.insert_live_point Ex.s0.live ⟨6, 4, 1, .fin, true⟩ =
    .ok ([⟨6, 4, 1, .fin, true⟩, ⟨1, 5, 0, .fin, true⟩, ⟨5, 7, 0, .fin, true⟩], 0) := by rfl

example : (Gen.LiveSetTx.insert_live_point Ex.s0.live ⟨6, 3, 1, .fin, true⟩).mapError LiveSetTx.toLS = .error .shape := by
  rw [insert_live_point_source_eq_model]; exact insertLive_fails_at_zero _ _ _ (by decide) (by decide)

/-- The filter of `yield_sample`: an accepted candidate has `logP ≠ -inf` and a finite likelihood
strictly above `logLmin`, where the likelihood is the stored one unless that is `0.0` (falsy), in
which case it is re-evaluated through the model; a stored NaN is never re-evaluated and never accepted. -/
theorem filter_spec (m : Option Int) (c : Cand) (v : Int) (h : accepts m c = some v) :
    c.logP ≠ .ninf ∧ gtMin v m = true ∧
    ((c.stored = .fin 0 ∧ c.eval = .fin v) ∨ (c.stored ≠ .fin 0 ∧ c.stored = .fin v)) ∧ c.stored ≠ .nan := by
  obtain ⟨hp, he, hg⟩ := accepts_some h
  unfold effL at he
  by_cases h0 : c.stored = .fin 0
  · rw [if_pos h0] at he
    exact ⟨hp, hg, Or.inl ⟨h0, he⟩, by rw [h0]; simp⟩
  · rw [if_neg h0] at he
    exact ⟨hp, hg, Or.inr ⟨h0, he⟩, by rw [he]; simp⟩

example : gtMin 7 (some 3) = true :=
  (filter_spec (some 3) ⟨5, .fin 0, .fin 7, .fin, true, true⟩ 7 (by decide)).2.1

example : accepts (some 3) ⟨5, .fin 0, .fin 7, .fin, true, true⟩ = some 7 ∧
    accepts (some 3) ⟨5, .nan, .fin 7, .fin, true, true⟩ = none ∧
    accepts (some 3) ⟨5, .fin 3, .fin 7, .fin, true, true⟩ = none := by decide

/-- **Finite prior and in-bounds, under the proposal contract.**  If every candidate the proposal
returns has a log-prior that is finite or `-inf`, and is in bounds whenever its log-prior is finite
(nessai's proposals compute `logP` with `model.log_prior`, which is `-inf` outside the bounds), and the
initial points are finite-prior and in bounds, then at every point of every run every live and every
recorded point has a finite prior and lies inside the bounds. -/
theorem run_prior_finite_in_bounds (init : List Pt) (k : Nat) (s s' : St) (cands rest : List Cand)
    (hI : Inv init s)
    (hinit : ∀ p ∈ init ++ s.hist, p.logP = .fin ∧ p.inB = true)
    (hcontract : ∀ c ∈ cands, (c.logP = .fin ∨ c.logP = .ninf) ∧ (c.logP = .fin → c.inB = true))
    (h : runSteps k s cands = .ok (s', rest)) :
    ∀ p ∈ s'.nested ++ s'.live, p.logP = .fin ∧ p.inB = true := by
  induction k generalizing s cands with
  | zero =>
    simp [runSteps] at h
    obtain ⟨rfl, _⟩ := h
    intro p hp
    exact hinit p (hI.perm.mem_iff.mp hp)
  | succ k ih =>
    unfold runSteps at h
    split at h
    · cases h
    · rename_i s1 r1 h1
      obtain ⟨w, t, c, p, pre, hlive, _, hc, _, hp, _, hlp, hb, _, _, _, _, _, _, _, _, _, _, hh⟩ :=
        consume_stepOK init s s1 cands r1 hI h1
      have hI1 := consume_preserves_inv init s s1 cands r1 hI h1
      have hcm : c ∈ cands := by rw [hc]; simp
      obtain ⟨hc1, hc2⟩ := hcontract c hcm
      have hfin : c.logP = .fin := by
        rcases hc1 with h | h
        · exact h
        · exact absurd h hp
      apply ih s1 r1 hI1 _ _ h
      · intro q hq
        rw [hh, ← List.append_assoc] at hq
        rcases List.mem_append.mp hq with hq | hq
        · exact hinit q hq
        · simp at hq
          subst hq
          exact ⟨by rw [hlp]; exact hfin, by rw [hb]; exact hc2 hfin⟩
      · intro x hx
        apply hcontract x
        rw [hc]
        simp [hx]

example : ∀ p ∈ Ex.s1.nested ++ Ex.s1.live, p.logP = .fin ∧ p.inB = true :=
  run_prior_finite_in_bounds Ex.s0.live 1 Ex.s0 Ex.s1 Ex.rest0 Ex.rest1 Ex.inv_s0 (by decide) (by decide) Ex.run1_s0

/-- The contract is needed: the sampler itself only tests `logP != -inf`, so a candidate whose
log-prior is NaN (or `+inf`) is accepted into the live set by `consume_sample` — only
`populate_live_points` screens with `isfinite`. -/
theorem run_prior_finite_fails_without :
    (consume Ex.s0 [⟨7, .fin 5, .fin 5, .nan, false, true⟩]).toOption.map
        (fun r => r.1.live.map (fun p => (p.id, p.logP, p.inB)))
      = some [(7, .nan, false), (1, .fin, true), (5, .fin, true)] := by decide

/-- **The invariant does not survive a checkpoint written inside `consume_sample`.**  `consume` is
`beginConsume` (record the worst point, count the iteration) followed by `finishConsume` (replace it).
The state after `beginConsume` alone — what a mid-iteration checkpoint pickles — violates the invariant
(one insertion index short; `nested ++ live` holds the worst point twice), and the resumed run, which
restarts `consume_sample` from the top on that state, records the same point a second time and stays one
insertion index short for ever.  Concrete 3-point state `Ex.s0`. -/
theorem resume_mid_consume_breaks_inv :
    Inv Ex.s0.live Ex.s0 ∧
    (∀ cands, consume Ex.s0 cands = finishConsume Ex.m0 cands) ∧
    beginConsume Ex.s0 = some Ex.m0 ∧ ¬ Inv Ex.s0.live Ex.m0 ∧
    consume Ex.m0 Ex.rest0 = .ok (Ex.m1, Ex.rest1) ∧
    Ex.m1.nested.map (·.id) = [2, 2] ∧ Ex.m1.idx.length + 1 = Ex.m1.iter ∧
    ¬ (Ex.m1.nested ++ Ex.m1.live).Perm (Ex.s0.live ++ Ex.m1.hist) ∧ ¬ Inv Ex.s0.live Ex.m1 := by
  refine ⟨Ex.inv_s0, ?_, Ex.begin_s0, ?_, Ex.consume_m0, by decide, by decide, ?_, ?_⟩
  · intro cands
    rw [consume_eq_begin_finish, Ex.begin_s0]
  · intro h
    exact absurd h.ilen (by decide)
  · intro h
    exact absurd h.length_eq (by decide)
  · intro h
    exact absurd h.ilen (by decide)

example : ¬ Inv Ex.s0.live Ex.m1 := resume_mid_consume_breaks_inv.2.2.2.2.2.2.2.2

end NessaiVerif.C01
