import NessaiVerif.Model.Accounts
import NessaiVerif.Model.AccountsTables
import NessaiVerif.Gen.Accounts
import NessaiVerif.Proofs.Accounts
/-
C12 — resuming restores the checkpointed state and keeps the accounts.
Property theorems only.  Part (a) is about the tables that harness/c12_tx.py regenerates from the nessai
sources on every run (Gen/Accounts.lean); part (b) about the accounts model (Model/Accounts.lean), for every
history of launches, runs, checkpoints, kills and down-times.
-/
namespace NessaiVerif.C12
open NessaiVerif.Accounts NessaiVerif.AccountsTables NessaiVerif.Gen.Accounts

/-! ## (a) what the pickles carry and what the resume path puts back -/

/-- The property's list, as (class, attribute): iteration, live and discarded points, evidence state, insertion
indices, history, proposal pool (samples, latent samples, indices, populated flag, counters), training counters,
reparameterisation state, sample counts, proposal weights, the per-proposal density table, the sub-objects that
hold them, the flow(s) and the user model. -/
def resultFields : List (String × String) := [
  -- standard sampler
  ("NestedSampler", "iteration"), ("NestedSampler", "live_points"), ("NestedSampler", "nested_samples"),
  ("NestedSampler", "state"), ("NestedSampler", "logLmin"), ("NestedSampler", "logLmax"), ("NestedSampler", "condition"),
  ("NestedSampler", "insertion_indices"), ("NestedSampler", "rolling_p"), ("NestedSampler", "history"),
  ("NestedSampler", "accepted"), ("NestedSampler", "rejected"), ("NestedSampler", "block_acceptance"),
  ("NestedSampler", "block_iteration"), ("NestedSampler", "mean_block_acceptance"), ("NestedSampler", "acceptance_history"),
  ("NestedSampler", "completed_training"), ("NestedSampler", "training_time"), ("NestedSampler", "sampling_time"),
  ("NestedSampler", "finalised"), ("NestedSampler", "uninformed_sampling"), ("NestedSampler", "_flow_proposal"),
  ("NestedSampler", "_uninformed_proposal"), ("NestedSampler", "proposal"), ("NestedSampler", "model"),
  ("NestedSampler", "_last_checkpoint"),
  ("_NSIntegralState", "logZ"), ("_NSIntegralState", "info"), ("_NSIntegralState", "logLs"), ("_NSIntegralState", "log_vols"),
  ("_NSIntegralState", "logw"), ("_NSIntegralState", "oldZ"), ("_NSIntegralState", "gradients"), ("_NSIntegralState", "nlive"),
  -- flow proposal: pool, counters, reparameterisation state, flow, model
  ("FlowProposal", "x"), ("FlowProposal", "samples"), ("FlowProposal", "indices"), ("FlowProposal", "populated"),
  ("FlowProposal", "populating"), ("FlowProposal", "populated_count"), ("FlowProposal", "population_acceptance"), ("FlowProposal", "population_time"),
  ("FlowProposal", "training_count"), ("FlowProposal", "r"), ("FlowProposal", "acceptance"),
  ("FlowProposal", "_checked_population"), ("FlowProposal", "_poolsize_scale"), ("FlowProposal", "_reparameterisation"),
  ("FlowProposal", "rescaling_set"), ("FlowProposal", "parameters"), ("FlowProposal", "prime_parameters"),
  ("FlowProposal", "fuzz"), ("FlowProposal", "flow"), ("FlowProposal", "model"), ("FlowProposal", "_flow_config"),
  ("RejectionProposal", "samples"), ("RejectionProposal", "indices"), ("RejectionProposal", "populated"),
  ("RejectionProposal", "population_acceptance"), ("RejectionProposal", "model"),
  ("AnalyticProposal", "samples"), ("AnalyticProposal", "indices"), ("AnalyticProposal", "populated"), ("AnalyticProposal", "model"),
  -- importance sampler
  ("ImportanceNestedSampler", "iteration"), ("ImportanceNestedSampler", "training_samples"),
  ("ImportanceNestedSampler", "iid_samples"), ("ImportanceNestedSampler", "history"), ("ImportanceNestedSampler", "sample_counts"),
  ("ImportanceNestedSampler", "log_likelihood_threshold"), ("ImportanceNestedSampler", "logX"),
  ("ImportanceNestedSampler", "proposal"), ("ImportanceNestedSampler", "model"), ("ImportanceNestedSampler", "training_time"),
  ("ImportanceNestedSampler", "draw_samples_time"), ("ImportanceNestedSampler", "add_and_update_samples_time"),
  ("ImportanceNestedSampler", "sampling_time"), ("ImportanceNestedSampler", "finalised"), ("ImportanceNestedSampler", "importance"),
  ("ImportanceNestedSampler", "criterion"), ("ImportanceNestedSampler", "_final_samples"),
  ("OrderedSamples", "samples"), ("OrderedSamples", "log_q"), ("OrderedSamples", "live_points_indices"),
  ("OrderedSamples", "nested_samples_indices"), ("OrderedSamples", "state"), ("OrderedSamples", "log_likelihood_threshold"),
  ("_INSIntegralState", "_logZ"), ("_INSIntegralState", "_n_ns"), ("_INSIntegralState", "_n_lp"),
  ("_INSIntegralState", "_weights"), ("_INSIntegralState", "_weights_ns"), ("_INSIntegralState", "_weights_lp"),
  ("ImportanceFlowProposal", "_weights"), ("ImportanceFlowProposal", "level_count"), ("ImportanceFlowProposal", "reparameterisation"),
  ("ImportanceFlowProposal", "clip"), ("ImportanceFlowProposal", "reset_flow"), ("ImportanceFlowProposal", "weighted_kl"),
  ("ImportanceFlowProposal", "flow"), ("ImportanceFlowProposal", "model"), ("ImportanceFlowProposal", "_flow_config"),
  ("ImportanceFlowModel", "weights_files"), ("ImportanceFlowModel", "models"), ("ImportanceFlowModel", "training_config"),
  ("ImportanceFlowModel", "output"), ("ImportanceFlowModel", "flow_config")]

/-- The classes whose instances a checkpoint pickle contains (or, for `FlowModel`, that the resume rebuilds).
`Model` is absent on purpose: it is never pickled with the sampler (`model` is in every exclusion set) — its
`__getstate__` (drop the pool) serves the multiprocessing workers. -/
def concrete : List String := [
  "NestedSampler", "ImportanceNestedSampler", "OrderedSamples", "FlowProposal", "RejectionProposal", "AnalyticProposal",
  "ImportanceFlowProposal", "ImportanceFlowModel", "FlowModel", "_NSIntegralState", "_INSIntegralState"]

/-- Carried attributes of the property's list that the resume path itself assigns (so "the pickle carries it" does not
by itself mean "the resumed sampler has the pickled value"); each with the reason the assignment is harmless.  The
values of all of them are compared by the round-trip tie of harness/c12.py. -/
def overwrittenOnResume : List (String × String) := [
  -- tuple parts: `__setstate__` re-attaches the pickled objects themselves
  ("ImportanceNestedSampler", "training_samples"), ("ImportanceNestedSampler", "iid_samples"),
  ("ImportanceNestedSampler", "proposal"), ("ImportanceFlowProposal", "flow"),
  -- `NestedSampler.initialise`: `finalised = False` only when the stopping condition is not met
  ("NestedSampler", "finalised"),
  -- `NestedSampler.update_state` (pre-loop call): block counters reset only at multiples of nlive in the uninformed phase
  ("NestedSampler", "block_acceptance"), ("NestedSampler", "block_iteration"),
  -- `FlowProposal.initialise(resumed=True)` clears `populated`, `NestedSampler.check_resume` restores it (`pool_flag_restored`)
  ("FlowProposal", "populated"),
  -- `FlowProposal.initialise`: `fuzz` recomputed only when the proposal is not initialised (not on resume)
  ("FlowProposal", "fuzz"),
  -- `update_state` marks the population as checked (it is already True in a checkpoint written by update_state)
  ("FlowProposal", "_checked_population"),
  -- `ImportanceFlowModel.update_weights_path`: the same `level_i/model.pt` paths rebuilt under the output directory
  ("ImportanceFlowModel", "weights_files"),
  -- site `FlowModel.setup_from_input_dict` (base class): runs when a FlowModel is constructed, i.e. on the standard
  -- sampler's resume, not on the importance sampler's (the lineage over-approximates)
  ("ImportanceFlowModel", "training_config")]

/-- TABLE FACT (about the tables generated from the current sources; what pickle itself does is an assumption observed
by the round-trip tie): every attribute in the property's list exists in its class and
* if the `__getstate__` in force drops it (exclusion set, `del`, `= None/False`), the resume path or a first-use site
  assigns it again — any assignment counts, the value is checked by the tie;
* if the pickle carries it, NO site of the resume path assigns it, except the attributes listed in
  `overwrittenOnResume`.
In-place mutations by callees (e.g. `update_state` appending to the history — the known finding) are not table sites. -/
theorem result_fields_survive : resultFields.all (survives tables sites overwrittenOnResume) = true := by decide +kernel

example : ("OrderedSamples", "log_q") ∈ resultFields ∧ dropped tables "OrderedSamples" "log_q" = true
    ∧ dropped tables "NestedSampler" "history" = false ∧ touched tables sites "NestedSampler" "history" = false
    ∧ dropped tables "FlowProposal" "flow" = true := by decide +kernel

/-- `result_fields_survive` is not vacuous: without the resume sites the dropped density table, the flow and the model
would not survive; an attribute that does not exist is rejected; and without its exemption a carried attribute that the
resume path overwrites (`populated`) is rejected. -/
theorem result_fields_survive_fails_without_resume_sites :
    survives tables [] overwrittenOnResume ("OrderedSamples", "log_q") = false
    ∧ survives tables [] overwrittenOnResume ("FlowProposal", "flow") = false
    ∧ survives tables [] overwrittenOnResume ("NestedSampler", "model") = false
    ∧ survives tables sites overwrittenOnResume ("NestedSampler", "no_such_field") = false
    ∧ survives tables sites [] ("FlowProposal", "populated") = false := by
  decide +kernel

/-- The exemption list is exact: each entry is in the property's list, is carried by the pickle and is assigned by
the resume path (no stale exemption hides a change). -/
theorem overwritten_exemptions_exact :
    overwrittenOnResume.all (fun cf => resultFields.contains cf && !dropped tables cf.1 cf.2 && touched tables sites cf.1 cf.2) = true := by
  decide +kernel

example : overwrittenOnResume.length = 12 := by decide

/-- Everything any `__getstate__` of the chain drops (exclusion sets, `del state[...]`, `state[k] = None/False` on an
attribute) has a site on the resume path (or a first-use site) that assigns it again. -/
theorem excluded_are_rederived :
    concrete.all (fun c => (droppedOf tables c).all (fun f => rederived tables sites c f)) = true := by decide +kernel

example : droppedOf tables "FlowProposal" = ["model", "_flow_config", "flow", "initialised", "_draw_func", "_populate_dist"]
    ∧ droppedOf tables "NestedSampler" = ["model", "proposal", "checkpoint_callback"] := by decide +kernel

/-- Objects pickled next to the state dictionary (`return state, self.proposal, …`) are put back by `__setstate__`
under the same names in the same order (importance sampler: proposal, training and i.i.d. sample stores; importance
proposal: the flow model). -/
theorem tuple_parts_reattached : tables.all tupleRoundTrip = true := by decide +kernel

example : (tables.filter (fun t => t.tupleParts ≠ [])).map (·.name) = ["ImportanceNestedSampler", "ImportanceFlowProposal"] := by
  decide +kernel

/-- No class of the package outside the modelled chain customises pickling. -/
theorem only_chain_classes_customise_pickling :
    customPicklers.all (fun c => (tables.map (·.name)).contains c) = true := by decide +kernel

example : customPicklers.length = 9 := by decide +kernel

/-- The likelihood accounts cross the pickle exactly as `Model/Accounts.lean` assumes: both `__getstate__`s write the
model's counters under `_previous_…`, and the resume ADDS them (`+=`) to the model it is handed — there is no other
assignment to the model on the resume path. -/
theorem counters_carried :
    modelUpdates = [
      ("BaseNestedSampler.resume_from_pickled_sampler", "model.likelihood_evaluations", "Add",
        "sampler._previous_likelihood_evaluations"),
      ("BaseNestedSampler.resume_from_pickled_sampler", "model.likelihood_evaluation_time", "Add",
        "datetime.timedelta(seconds=sampler._previous_likelihood_evaluation_time)")]
    ∧ (["BaseNestedSampler", "ImportanceNestedSampler"].all fun c =>
        match lookup tables c with
        | some t =>
          t.overrides.any (fun o => o.1 == "_previous_likelihood_evaluations" && o.2.2 == "d['model'].likelihood_evaluations")
          && t.overrides.any (fun o => o.1 == "_previous_likelihood_evaluation_time"
                && o.2.2 == "d['model'].likelihood_evaluation_time.total_seconds()")
        | none => false) = true := by
  decide +kernel

example : modelUpdates.length = 2 := by decide +kernel

/-- Both samplers re-arm `sampling_start_time` when `nested_sampling_loop` is entered — the hypothesis `resetStart` of
`sampling_time_cumulative` holds for the standard and for the importance sampler. -/
theorem loops_rearm_start :
    loopResetsStart.lookup "NestedSampler" = some true ∧ loopResetsStart.lookup "ImportanceNestedSampler" = some true := by
  decide +kernel

example : loopResetsStart.length = 2 := by decide +kernel

/-- whether `resume_from_pickled_sampler` itself re-arms `sampling_start_time` is recorded in the generated
`resumeRearmsStart` (false at the time of writing: between the resume and the loop entry the sampler carries the pickled
start, which is why `sampling_time_cumulative` needs `ckptInLoop`); the driver passes it to the model as `rearmOnResume` -/
example : (sites.any fun s => s.attr == "sampling_start_time" && s.site == "NestedSampler.nested_sampling_loop") = true := by
  decide +kernel

/-- The calls that make up the resume path are present: file → sampler → proposals → flow(s) and weights, the
proposal pointer and pool flag (`initialise`, `check_resume`), the density tables. -/
theorem resume_path_connected :
    ([("FlowSampler._resume_from_file", "SamplerClass.resume"),
      ("FlowSampler._resume_from_data", "SamplerClass.resume_from_pickled_sampler"),
      ("BaseNestedSampler.resume", "cls.resume_from_pickled_sampler"),
      ("NestedSampler.resume_from_pickled_sampler", "super(NestedSampler, cls).resume_from_pickled_sampler"),
      ("NestedSampler.resume_from_pickled_sampler", "obj._uninformed_proposal.resume"),
      ("NestedSampler.resume_from_pickled_sampler", "obj._flow_proposal.resume"),
      ("FlowSampler.run_standard_sampler", "self.ns.initialise"),
      ("FlowSampler.run_standard_sampler", "self.ns.nested_sampling_loop"),
      ("NestedSampler.nested_sampling_loop", "self.check_resume"),
      ("FlowProposal.resume", "super().resume"), ("FlowProposal.resume", "self.initialise"),
      ("FlowProposal.resume", "self.flow.reload_weights"), ("FlowProposal.initialise", "self.flow.initialise"),
      ("ImportanceNestedSampler.resume_from_pickled_sampler", "super(ImportanceNestedSampler, cls).resume_from_pickled_sampler"),
      ("ImportanceNestedSampler.resume_from_pickled_sampler", "obj.proposal.resume"),
      ("ImportanceNestedSampler.resume_from_pickled_sampler", "obj.proposal.compute_meta_proposal_samples"),
      ("ImportanceFlowProposal.resume", "super().resume"), ("ImportanceFlowProposal.resume", "self.flow.resume"),
      ("ImportanceFlowModel.resume", "self.update_weights_path"), ("ImportanceFlowModel.resume", "self.load_all_weights"),
      ("ImportanceFlowModel.load_all_weights", "new_flow.load_state_dict"),
      ("FlowSampler.run_importance_nested_sampler", "self.ns.nested_sampling_loop")].all
      fun c => calls.contains c) = true := by decide +kernel

example : calls.length > 20 := by decide +kernel

/-- The pool flag, which `FlowProposal.initialise` clears during the resume, is put back by
`NestedSampler.check_resume` from the `resume_populated` flag written by `__getstate__`. -/
theorem pool_flag_restored :
    (sites.any fun s => s.owner == "FlowProposal" && s.attr == "populated" && s.site == "NestedSampler.check_resume") = true
    ∧ (match lookup tables "FlowProposal" with
       | some t => t.overrides.any (fun o => o.1 == "resume_populated" && o.2.2 == "True")
       | none => false) = true := by decide +kernel

example : (sites.filter fun s => s.attr == "populated").length = 2 := by decide +kernel

/-- No local variable of a resume-path function is read where it is not definitely assigned (conservative flow
analysis of the translator: if/else joins intersect, loop and try bodies contribute nothing) — in particular the mask
handed to the rebuilt flow is bound whatever the type of the saved mask. -/
theorem resume_locals_bound : maybeUnbound = [] := by decide +kernel

example : (calls.filter fun c => c.1 == "FlowProposal.resume").length ≥ 3 := by decide +kernel

/-- The state the C01 model (live-set evolution) and the C13 model (interrupts) speak about, plus the entries of the
evidence state (C02), as attributes of the standard sampler. -/
def runStateFields : List (String × String) := [
  ("NestedSampler", "iteration"), ("NestedSampler", "live_points"), ("NestedSampler", "nested_samples"),
  ("NestedSampler", "insertion_indices"), ("NestedSampler", "logLmin"), ("NestedSampler", "logLmax"),
  ("NestedSampler", "accepted"), ("NestedSampler", "rejected"), ("NestedSampler", "acceptance_history"),
  ("NestedSampler", "state"), ("NestedSampler", "condition"),
  ("_NSIntegralState", "logLs"), ("_NSIntegralState", "log_vols"), ("_NSIntegralState", "logZ"), ("_NSIntegralState", "oldZ"),
  ("_NSIntegralState", "logw"), ("_NSIntegralState", "info"), ("_NSIntegralState", "gradients"), ("_NSIntegralState", "nlive")]

/-- TABLE FACT + ASSUMPTION.  Table fact (decided over the tables generated from the current sources): none of the
attributes of the C01/C13/C02 run state is dropped by the `__getstate__` in force, none is assigned by any site of the
resume path (including the pre-loop `update_state`), all exist.  Assumption: pickling is faithful — the state is modelled
as an attribute ↦ value list, `pickleState` keeps the non-dropped entries unchanged and `resumeState` lets only the
resume sites overwrite; under that model `resume ∘ checkpoint` returns each such attribute unchanged, for every state.
That pickle/torch really reproduce the values is observed by the round-trip and chain ties, not proved. -/
theorem run_state_survives_checkpoint_resume {α : Type} (cf : String × String) (h : cf ∈ runStateFields)
    (s fresh : List (String × α)) :
    (resumeState tables sites cf.1 fresh (pickleState tables cf.1 s)).lookup cf.2 = s.lookup cf.2 := by
  have hall : runStateFields.all (fun cf => !dropped tables cf.1 cf.2 && !touched tables sites cf.1 cf.2
      && (attrUniverse tables cf.1).contains cf.2) = true := by decide +kernel
  have := List.all_eq_true.mp hall cf h
  simp only [Bool.and_eq_true, Bool.not_eq_true'] at this
  exact resume_pickle_lookup tables sites cf.1 cf.2 s fresh this.1.1 this.1.2

example : (resumeState tables sites "NestedSampler" [("iteration", 0), ("proposal", 9)]
    (pickleState tables "NestedSampler" [("iteration", 35), ("model", 1), ("proposal", 2)])).lookup "iteration" = some 35 := by
  decide +kernel

/-- the theorem applied to the iteration counter of an arbitrary state -/
example (s fresh : List (String × Nat)) :
    (resumeState tables sites "NestedSampler" fresh (pickleState tables "NestedSampler" s)).lookup "iteration" = s.lookup "iteration" :=
  run_state_survives_checkpoint_resume ("NestedSampler", "iteration") (by decide) s fresh

/-- The two hypotheses behind `run_state_survives_checkpoint_resume` are needed: a dropped attribute (`model`) does not
come back from the pickle, and an attribute the resume path assigns (`proposal`) takes the derived value. -/
theorem run_state_survives_fails_without_pickled_untouched :
    (resumeState tables sites "NestedSampler" ([] : List (String × Nat))
      (pickleState tables "NestedSampler" [("iteration", 35), ("model", 1)])).lookup "model" = none
    ∧ (resumeState tables sites "NestedSampler" [("proposal", 9)]
      (pickleState tables "NestedSampler" [("iteration", 35), ("proposal", 2)])).lookup "proposal" = some 9 := by
  decide +kernel

/-! ## (b) the accounts, for every history -/

/-- the configuration of the current sources: both loops re-arm the start, the resume does not, fresh model -/
def codeCfg : Cfg := ⟨true, false, true⟩

/-- Likelihood evaluations and likelihood time are cumulative: after ANY history, if a process is alive and every
resume got a fresh model, the model's counters equal the sums over the retained `run` steps — those covered by the last
completed checkpoint of the lineage plus those since the last resume/checkpoint — and the checkpoint file carries exactly
the committed part. -/
theorem evals_cumulative (c : Cfg) (hf : c.freshModel = true) (h : List Op) :
    let s := exec c {} h
    let l := logOf {} h
    (s.alive = true → s.mEvals = sumE l.retained ∧ s.mLtime = sumL l.retained)
    ∧ (∀ sv, s.file = some sv → sv.evals = sumE l.committed ∧ sv.ltime = sumL l.committed) := by
  intro s l
  have hi : InvC s l := inv_exec c hf h {} {} invC_init
  refine ⟨fun ha => ?_, hi.fileE⟩
  simp only [Log.retained, sumE_append, sumL_append]
  exact ⟨hi.liveE ha, hi.liveL ha⟩

def hist1 : List Op := [.resume, .run 100 0 3, .enterLoop, .run 40 7 3, .checkpoint, .run 50 4 2, .kill, .down 9,
  .resume, .enterLoop, .run 20 5 1]

example : (exec codeCfg {} hist1).mEvals = 160 ∧ (logOf {} hist1).retained = [(100, 0, 3), (40, 7, 3), (20, 5, 1)] := by decide

/-- the theorem applied to a concrete history with a kill and a resume -/
example : (exec codeCfg {} hist1).mEvals = sumE (logOf {} hist1).retained :=
  ((evals_cumulative codeCfg rfl hist1).1 (by decide)).1

/-- The hypothesis "fresh model" is needed: handing the resume a model object that already carries the dead
process's counter counts those evaluations twice (`+=` on a non-zero counter). -/
theorem evals_cumulative_fails_without_fresh_model :
    (exec ⟨true, false, false⟩ {} [.resume, .run 5 1 1, .checkpoint, .kill, .resume]).mEvals = 10
    ∧ sumE (logOf {} [.resume, .run 5 1 1, .checkpoint, .kill, .resume]).retained = 5 := by decide

/-- Never double counted: the retained steps are a sub-list (same order, each at most once) of the steps live
processes actually performed; in particular the reported totals never exceed what was performed. -/
theorem accounts_never_double_counted (h : List Op) :
    ((logOf {} h).retained).Sublist (performed false false h) := by
  simpa [Log.retained] using retained_sublist h {}

example : (performed false false [.resume, .run 1 1 1, .kill, .run 9 9 9, .resume, .enterLoop, .run 2 2 2]) = [(1, 0, 1), (2, 2, 2)] := by
  decide

example : ((logOf {} hist1).retained).Sublist (performed false false hist1) := accounts_never_double_counted hist1

/-- Never reset: in a well-formed history without a kill nothing is discarded — the totals are the sums over every
step performed. -/
theorem accounts_never_reset (c : Cfg) (hf : c.freshModel = true) (h : List Op)
    (hw : wellFormed false h = true) (hk : ∀ op ∈ h, op ≠ Op.kill) (ha : (exec c {} h).alive = true) :
    (exec c {} h).mEvals = sumE (performed false false h) ∧ (exec c {} h).mLtime = sumL (performed false false h) := by
  have h1 := (evals_cumulative c hf h).1 ha
  have h2 := retained_all_without_kill h {} (by simp) hw hk
  simp only [Log.retained] at h1 h2
  simp only [h2] at h1
  simpa using h1

def hist2 : List Op := [.resume, .run 3 0 1, .enterLoop, .run 3 1 1, .checkpoint, .run 4 1 1, .checkpoint]

example : (exec codeCfg {} hist2).mEvals = sumE (performed false false hist2) :=
  (accounts_never_reset codeCfg rfl hist2 (by decide) (by decide) (by decide)).1

/-- Losses come from kills only and are bounded by what was done after the last checkpoint: the hypothesis "no kill"
of `accounts_never_reset` is needed. -/
theorem accounts_never_reset_fails_without_no_kill :
    (exec codeCfg {} [.resume, .run 3 1 1, .checkpoint, .run 4 1 1, .kill, .resume]).mEvals = 3
    ∧ sumE (performed false false [.resume, .run 3 1 1, .checkpoint, .run 4 1 1, .kill, .resume]) = 7 := by decide

/-- Sampling time is cumulative when the loop re-arms its start (both samplers, `loops_rearm_start`) and every checkpoint
is written from inside the sampling loop (`ckptInLoop`: periodic, on-training and final checkpoints are): after ANY such
history the current sampling time of a sampler inside the loop is the sum of the in-loop ticks of the retained steps
(down-time, discarded segments and time before the loop entry excluded); `sampling_time` itself and the file carry the
committed part. -/
theorem sampling_time_cumulative (c : Cfg) (hf : c.freshModel = true) (hr : c.resetStart = true) (h : List Op)
    (hk : ckptInLoop false false h = true) :
    let s := exec c {} h
    let l := logOf {} h
    (s.alive = true → s.stime = sumT l.committed ∧ (s.inLoop = true → s.current = sumT l.retained))
    ∧ (∀ sv, s.file = some sv → sv.stime = sumT l.committed) := by
  intro s l
  have hi : InvT s l := invT_exec c hf hr h {} {} invC_init invT_init hk
  refine ⟨fun ha => ⟨hi.liveS ha, fun hil => ?_⟩, hi.fileT⟩
  have h1 := hi.liveS ha
  have ⟨_, h3⟩ := hi.liveP ha hil
  simp only [St.current, Log.retained, sumT_append]
  omega

def hist3 : List Op := [.resume, .enterLoop, .run 1 5 0, .checkpoint, .run 1 3 0, .checkpoint, .kill, .down 10, .resume,
  .enterLoop, .run 1 2 0, .checkpoint]

example : (exec codeCfg {} hist3).stime = 10 := by decide

example : (exec codeCfg {} hist3).stime = sumT (logOf {} hist3).committed :=
  ((sampling_time_cumulative codeCfg rfl rfl hist3 (by decide)).1 (by decide)).1

/-- The hypothesis `resetStart` is needed (a fact about the model; both samplers meet it, see `loops_rearm_start`): a loop
that does not re-arm `sampling_start_time` leaves the resumed sampler with the pickled start, so the next checkpoint adds
the last segment again plus the whole down-time (here 23 instead of 10). -/
theorem sampling_time_cumulative_fails_without_reset :
    (exec ⟨false, false, true⟩ {} hist3).stime = 23 ∧ sumT (logOf {} hist3).retained = 10 := by decide

def hist4 : List Op := [.resume, .enterLoop, .run 1 5 0, .checkpoint, .kill, .down 10, .resume, .checkpoint, .enterLoop,
  .run 1 2 0, .checkpoint]

/-- The hypothesis `ckptInLoop` is needed, and the current sources do not enforce it: a checkpoint written between the
resume and the loop entry (the signal handler `FlowSampler.safe_exit → ns.checkpoint()`) finds the pickled start, so it
adds the segment before the resumed checkpoint again plus the whole down-time (here 22 instead of 7) — known finding
`BaseNestedSampler.checkpoint:between-resume-and-loop-entry:down-time-counted`, reproduced on the real code by the
harness.  With a resume that re-armed the start (`rearmOnResume`) the same history is accounted correctly. -/
theorem sampling_time_cumulative_fails_without_checkpoint_in_loop :
    ckptInLoop false false hist4 = false
    ∧ (exec codeCfg {} hist4).stime = 22 ∧ sumT (logOf {} hist4).retained = 7
    ∧ (exec ⟨true, true, true⟩ {} hist4).stime = 7 := by decide

/-- PARTIAL (gap: no upper bound — with a stale start or a checkpoint before the loop entry the time may be over-counted,
as in the two counter-examples above): whatever the configuration and wherever the checkpoints are written, sampling time
is never lost or reset; it is at least the retained in-loop ticks. -/
theorem sampling_time_stale_start_partial (c : Cfg) (hf : c.freshModel = true) (h : List Op) :
    let s := exec c {} h
    let l := logOf {} h
    s.alive = true → sumT l.retained ≤ s.current ∧ sumT l.committed ≤ s.stime := by
  intro s l ha
  have hi : InvTle s l := invTle_exec c hf h {} {} invC_init invTle_init
  have h1 := hi.liveS ha
  have ⟨_, h3⟩ := hi.liveP ha
  refine ⟨?_, h1⟩
  simp only [St.current, Log.retained, sumT_append]
  omega

example : (exec ⟨false, false, true⟩ {} [.resume, .enterLoop, .run 1 5 0, .checkpoint, .kill, .down 4, .resume, .enterLoop,
    .run 1 2 0]).current = 16 := by decide

example : sumT (logOf {} hist4).retained ≤ (exec codeCfg {} hist4).current :=
  (sampling_time_stale_start_partial codeCfg rfl hist4 (by decide)).1

/-- A sampler inside the loop that has just checkpointed, with its accounts on file. -/
def Settled (s : St) : Prop :=
  s.alive = true ∧ s.inLoop = true ∧ s.start = s.clock
    ∧ ∃ sv, s.file = some sv ∧ sv.evals = s.mEvals ∧ sv.ltime = s.mLtime ∧ sv.stime = s.stime

/-- kill, wait, resume, enter the loop, checkpoint — without running -/
def cycles (ds : List Nat) : List Op := ds.flatMap fun d => [.kill, .down d, .resume, .enterLoop, .checkpoint]

/-- Resuming is idempotent on the accounts: any number of kill → down-time → resume → loop entry → checkpoint cycles
without sampling in between leaves evaluations, likelihood time, sampling time and current sampling time unchanged
(fresh model, start re-armed at the loop entry, checkpoint written inside the loop). -/
theorem resume_idempotent_accounts (c : Cfg) (hf : c.freshModel = true) (hr : c.resetStart = true) (ds : List Nat) :
    ∀ s : St, Settled s →
      let s' := exec c s (cycles ds)
      Settled s' ∧ s'.mEvals = s.mEvals ∧ s'.mLtime = s.mLtime ∧ s'.stime = s.stime ∧ s'.current = s.current := by
  induction ds with
  | nil => intro s hs; simpa [cycles, exec] using hs
  | cons d ds ih =>
    intro s hs
    obtain ⟨ha, hil, hst, sv, hfile, he, hl, ht⟩ := hs
    have hstep : Settled (exec c s [.kill, .down d, .resume, .enterLoop, .checkpoint])
        ∧ (exec c s [.kill, .down d, .resume, .enterLoop, .checkpoint]).mEvals = s.mEvals
        ∧ (exec c s [.kill, .down d, .resume, .enterLoop, .checkpoint]).mLtime = s.mLtime
        ∧ (exec c s [.kill, .down d, .resume, .enterLoop, .checkpoint]).stime = s.stime
        ∧ (exec c s [.kill, .down d, .resume, .enterLoop, .checkpoint]).current = s.current := by
      simp [exec, step, hfile, hf, hr, Settled, St.current, he, hl, ht, hst]
    obtain ⟨hS, h1, h2, h3, h4⟩ := hstep
    have := ih _ hS
    simp only [cycles, List.flatMap_cons, exec, List.foldl_append] at this ⊢
    obtain ⟨g0, g1, g2, g3, g4⟩ := this
    simp only [exec] at h1 h2 h3 h4
    exact ⟨g0, g1.trans h1, g2.trans h2, g3.trans h3, g4.trans h4⟩

/-- the state right after the first in-loop checkpoint of a run is settled (used to apply `resume_idempotent_accounts`) -/
theorem settled_after_first_checkpoint : Settled (exec codeCfg {} [.resume, .enterLoop, .run 10 4 2, .checkpoint]) := by
  refine ⟨by decide, by decide, by decide, ⟨10, 2, 4, 0⟩, by decide, by decide, by decide, by decide⟩

/-- the theorem applied: three empty cycles with different down-times leave the sampling time of a settled sampler alone -/
example : (exec codeCfg (exec codeCfg {} [.resume, .enterLoop, .run 10 4 2, .checkpoint]) (cycles [4, 0, 7])).stime
    = (exec codeCfg {} [.resume, .enterLoop, .run 10 4 2, .checkpoint]).stime :=
  (resume_idempotent_accounts codeCfg rfl rfl [4, 0, 7] _ settled_after_first_checkpoint).2.2.2.1

/-- The hypotheses of `resume_idempotent_accounts` are needed: with a loop that does not re-arm the start one empty cycle
already changes the sampling time (4 → 12 with 4 ticks of down-time); with a reused model object the evaluations double;
and a cycle whose checkpoint is written BEFORE the loop entry (signal handler) adds the down-time as well (4 → 12). -/
theorem resume_idempotent_accounts_fails_without :
    (exec ⟨false, false, true⟩ {} ([.resume, .enterLoop, .run 10 4 2, .checkpoint] ++ cycles [4])).stime = 12
    ∧ (exec ⟨true, false, false⟩ {} ([.resume, .enterLoop, .run 10 4 2, .checkpoint] ++ cycles [4])).mEvals = 20
    ∧ (exec codeCfg {} [.resume, .enterLoop, .run 10 4 2, .checkpoint, .kill, .down 4, .resume, .checkpoint, .enterLoop]).stime = 12
    ∧ (exec codeCfg {} ([.resume, .enterLoop, .run 10 4 2, .checkpoint] ++ cycles [4, 0, 7])).stime = 4
    ∧ (exec codeCfg {} ([.resume, .enterLoop, .run 10 4 2, .checkpoint] ++ cycles [4, 0, 7])).mEvals = 10 := by decide

end NessaiVerif.C12
