-- Root of the library: models, drivers, generated definitions, proofs and property theorems.
import NessaiVerif.Driver
import NessaiVerif.Model.Np
import NessaiVerif.Model.Batch
