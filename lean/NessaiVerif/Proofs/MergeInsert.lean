import NessaiVerif.Proofs.InsertMany
/-
`np.insert(a, np.searchsorted(keys a, keys b), b)` for sorted `a` is the merge of `b`
into `a` that puts new elements BEFORE equal old ones; it is sorted when `b` is and a
permutation of `a ++ b`.  Generic in the key type through three order laws (instantiated
for `Int` likelihood keys and `Nat` index lists).
-/
namespace NessaiVerif.Np
variable {α κ : Type} [LT κ] [DecidableLT κ]

/-- the order facts used (all hold in any linear order) -/
structure OrdLaws (κ : Type) [LT κ] : Prop where
  /-- `p ≤ x`, `x < v` ⟹ `p < v` -/
  lt_of_le_of_lt : ∀ p x v : κ, ¬ x < p → x < v → p < v
  /-- `a ≤ b`, `b ≤ c` ⟹ `a ≤ c` -/
  le_trans : ∀ a b c : κ, ¬ b < a → ¬ c < b → ¬ c < a
  asymm : ∀ a b : κ, a < b → ¬ b < a

theorem ordLaws_int : OrdLaws Int := ⟨by intros; omega, by intros; omega, by intros; omega⟩
theorem ordLaws_nat : OrdLaws Nat := ⟨by intros; omega, by intros; omega, by intros; omega⟩

/-- non-decreasing in the key -/
def SortedK (k : α → κ) (l : List α) : Prop := l.Pairwise (fun x y => ¬ k y < k x)

def mergeNew (k : α → κ) : List α → List α → List α
  | a, [] => a
  | [], v :: vs => v :: vs
  | x :: xs, v :: vs =>
      if k x < k v then x :: mergeNew k xs (v :: vs) else v :: mergeNew k (x :: xs) vs

theorem mergeNew_perm (k : α → κ) (a b : List α) : (mergeNew k a b).Perm (a ++ b) := by
  fun_induction mergeNew k a b with
  | case1 a => simp
  | case2 v vs => simp
  | case3 x xs v vs h ih => simpa using ih
  | case4 x xs v vs h ih => exact (List.Perm.cons v ih).trans List.perm_middle.symm

theorem mergeNew_sorted (L : OrdLaws κ) (k : α → κ) (a b : List α)
    (ha : SortedK k a) (hb : SortedK k b) : SortedK k (mergeNew k a b) := by
  fun_induction mergeNew k a b with
  | case1 a => exact ha
  | case2 v vs => exact hb
  | case3 x xs v vs h ih =>
    unfold SortedK at *
    rw [List.pairwise_cons] at ha
    refine List.pairwise_cons.mpr ⟨?_, ih ha.2 hb⟩
    intro y hy
    have hy' := (mergeNew_perm k xs (v :: vs)).mem_iff.mp hy
    rcases List.mem_append.mp hy' with hy' | hy'
    · exact ha.1 y hy'
    · have hxv : ¬ k v < k x := L.asymm _ _ h
      rcases List.mem_cons.mp hy' with rfl | hy''
      · exact hxv
      · exact L.le_trans _ _ _ hxv ((List.pairwise_cons.mp hb).1 y hy'')
  | case4 x xs v vs h ih =>
    unfold SortedK at *
    rw [List.pairwise_cons] at hb
    refine List.pairwise_cons.mpr ⟨?_, ih ha hb.2⟩
    intro y hy
    have hy' := (mergeNew_perm k (x :: xs) vs).mem_iff.mp hy
    rcases List.mem_append.mp hy' with hy' | hy'
    · rcases List.mem_cons.mp hy' with rfl | hy''
      · exact h
      · exact L.le_trans _ _ _ h ((List.pairwise_cons.mp ha).1 y hy'')
    · exact hb.1 y hy'

theorem length_takeWhile_append_le {β : Type} (p : β → Bool) (l1 l2 : List β)
    (h : l2.takeWhile p = []) : ((l1 ++ l2).takeWhile p).length ≤ l1.length := by
  induction l1 with
  | nil => simp [h]
  | cons y ys ih =>
    simp only [List.cons_append, List.takeWhile_cons]
    split
    · simp; exact ih
    · simp

/-- the `searchsorted(side="left")` index against the whole sorted array decides the merge step -/
theorem ssl_le_iff (L : OrdLaws κ) (k : α → κ) (pre : List α) (x : α) (xs : List α) (v : κ)
    (hs : SortedK k (pre ++ x :: xs)) :
    ssl ((pre ++ x :: xs).map k) v ≤ pre.length ↔ ¬ k x < v := by
  unfold ssl
  constructor
  · intro hle hxv
    -- every element of `pre` is `≤ x < v`, so takeWhile runs past `pre` and takes `x`
    have hall : ∀ p ∈ pre, k p < v := by
      intro p hp
      have : ¬ k x < k p := by
        unfold SortedK at hs
        rw [List.pairwise_append] at hs
        exact hs.2.2 p hp x (by simp)
      exact L.lt_of_le_of_lt _ _ _ this hxv
    have h1 : (List.map k (pre ++ x :: xs)).takeWhile (fun y => decide (y < v))
        = pre.map k ++ ((x :: xs).map k).takeWhile (fun y => decide (y < v)) := by
      rw [List.map_append, List.takeWhile_append_of_pos]
      intro y hy
      obtain ⟨p, hp, rfl⟩ := List.mem_map.mp hy
      simpa using hall p hp
    rw [h1] at hle
    simp [hxv] at hle
    omega
  · intro hxv
    rw [List.map_append]
    have hstop : ((x :: xs).map k).takeWhile (fun y => decide (y < v)) = [] := by
      simp [hxv]
    have := length_takeWhile_append_le (fun y => decide (y < v)) (pre.map k) ((x :: xs).map k) hstop
    simpa using this

/-- **np.insert at searchsorted positions = merge.**  `a` is the not-yet-consumed suffix of the
sorted array `pre ++ a`, `pos = pre.length`. -/
theorem insertMany_ssl_eq_merge (L : OrdLaws κ) (k : α → κ) (pre a b : List α)
    (hs : SortedK k (pre ++ a)) :
    insertMany a (b.map (fun v => ssl ((pre ++ a).map k) (k v))) b pre.length = mergeNew k a b := by
  induction b generalizing pre a with
  | nil => cases a <;> simp [insertMany, mergeNew]
  | cons v vs ihb =>
    induction a generalizing pre with
    | nil =>
      simp only [List.map_cons, insertMany, mergeNew]
      congr 1
      have := ihb pre [] hs
      rw [this]
      cases vs <;> simp [mergeNew]
    | cons x xs iha =>
      have hiff := ssl_le_iff L k pre x xs (k v) hs
      simp only [List.map_cons, insertMany, mergeNew]
      by_cases hxv : k x < k v
      · have hnle : ¬ ssl ((pre ++ x :: xs).map k) (k v) ≤ pre.length := by
          intro h; exact (hiff.mp h) hxv
        simp only [hnle, hxv, if_false, if_true]
        congr 1
        have hs' : SortedK k ((pre ++ [x]) ++ xs) := by simpa using hs
        have := iha (pre ++ [x]) hs'
        simp only [List.map_cons, List.length_append, List.length_cons, List.length_nil,
          List.append_assoc, List.cons_append, List.nil_append] at this
        exact this
      · have hle : ssl ((pre ++ x :: xs).map k) (k v) ≤ pre.length := hiff.mpr hxv
        simp only [hle, hxv, if_true, if_false]
        congr 1
        exact ihb pre (x :: xs) hs

theorem insertMany_ssl_eq_merge0 (L : OrdLaws κ) (k : α → κ) (a b : List α) (hs : SortedK k a) :
    insertMany a (b.map (fun v => ssl (a.map k) (k v))) b 0 = mergeNew k a b := by
  simpa using insertMany_ssl_eq_merge L k [] a b (by simpa using hs)

end NessaiVerif.Np
