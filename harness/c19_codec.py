"""C19 helpers: Python value  <->  `enc` protocol tokens, file readers, and the oracle.

Floats travel as binary64 bit patterns (JSON side) or as exact values `<odd mantissa>e<exp2>` (HDF5 side,
where h5py/numpy may change the width of a number but must not change its value); never as decimal text.
"""
import json
import math
import struct

import numpy as np

NAN_BITS = 0x7FF8000000000000
SENTINEL = "__none__"  # the documented convention of the HDF5 writer (tests/test_io_utils.py)


# ------------------------------------------------------------------ tokens
def cps(s):
    return ".".join(str(ord(c)) for c in s)


def fbits(x):
    x = float(x)
    if x != x:
        return NAN_BITS
    return struct.unpack("<Q", struct.pack("<d", x))[0]


def vtok(x):
    """exact value of a Python/numpy real number"""
    if isinstance(x, (bool, np.bool_)):
        x = int(x)
    if isinstance(x, (int, np.integer)):
        m, e, neg = abs(int(x)), 0, int(x) < 0
    else:
        if x != x:
            return "nan"
        if x in (math.inf, -math.inf):
            return "inf" if x > 0 else "-inf"
        p, q = x.as_integer_ratio()
        p, q = int(p), int(q)
        neg = p < 0 or (p == 0 and math.copysign(1.0, float(x)) < 0)
        m, e = abs(p), -(q.bit_length() - 1)
    s = "-" if neg else ""
    if m == 0:
        return s + "0e0"
    while m % 2 == 0:
        m //= 2
        e += 1
    return f"{s}{m}e{e}"


FK = {np.dtype("float16"): "e", np.dtype("float32"): "f", np.dtype("float64"): "d"}


def key_tok(k):
    if isinstance(k, str):
        return "ks:" + cps(k)
    if isinstance(k, bool):
        return "kb:" + str(int(k))
    if isinstance(k, int):
        return "ki:" + str(k)
    if k is None:
        return "kn"
    return "kx"


def tok(v, out):
    """append the protocol tokens of an in-memory value"""
    if isinstance(v, dict):
        out += ["D", str(len(v))]
        for k, x in v.items():
            out.append(key_tok(k))
            tok(x, out)
    elif isinstance(v, list):
        out += ["L", str(len(v))]
        for x in v:
            tok(x, out)
    elif isinstance(v, tuple):
        out += ["T", str(len(v))]
        for x in v:
            tok(x, out)
    elif v is None:
        out.append("N")
    elif isinstance(v, bool):
        out.append("b:" + str(int(v)))
    elif isinstance(v, np.bool_):
        out.append("nb:" + str(int(v)))
    elif isinstance(v, np.integer):
        out.append("ni:" + str(int(v)))
    elif isinstance(v, np.floating):
        k = FK.get(v.dtype, "g")
        f = float(v)
        if f == v or v != v:
            out.append(f"nf:{k}:{fbits(f)}")
        else:
            out.append(f"nf:{k}:{fbits(f)}:{vtok(v)}")
    elif isinstance(v, int):
        out.append("i:" + str(v))
    elif isinstance(v, float):
        out.append("f:" + str(fbits(v)))
    elif isinstance(v, np.str_):
        out.append("ns:" + cps(str(v)))
    elif isinstance(v, str):
        out.append("s:" + cps(v))
    elif isinstance(v, np.ndarray) and v.dtype.names is not None and v.ndim == 1:
        names = list(v.dtype.names)
        out += ["S", str(len(names))] + ["s:" + cps(n) for n in names] + [str(len(v)), str(len(v) * len(names))]
        for row in v.tolist():
            for c in row:
                tok(c, out)
    elif isinstance(v, np.ndarray) and v.dtype.names is None:
        dt = {"i": "i", "u": "i", "f": "f", "b": "b", "U": "u", "O": "o"}.get(v.dtype.kind)
        if dt is None:
            out.append("o:" + cps(str(v)))
            return
        items = v.reshape(-1).tolist() if v.ndim else [v.item()]
        out += ["A", dt, str(v.ndim)] + [str(n) for n in v.shape] + [str(len(items))]
        for c in items:
            tok(c, out)
    else:
        out.append("o:" + cps(str(v)))


def tokens(v):
    out = []
    tok(v, out)
    return " ".join(out)


def tok_json(r, out):
    """tokens of what json.load returned"""
    if isinstance(r, dict):
        out += ["D", str(len(r))]
        for k, x in r.items():
            out.append("ks:" + cps(k))
            tok_json(x, out)
    elif isinstance(r, list):
        out += ["L", str(len(r))]
        for x in r:
            tok_json(x, out)
    elif r is None:
        out.append("N")
    elif isinstance(r, bool):
        out.append("b:" + str(int(r)))
    elif isinstance(r, int):
        out.append("i:" + str(r))
    elif isinstance(r, float):
        out.append("f:" + str(fbits(r)))
    elif isinstance(r, str):
        out.append("s:" + cps(r))
    else:
        out.append("?")


def json_tokens(r):
    out = []
    tok_json(r, out)
    return " ".join(out)


# ------------------------------------------------------------------ readers
def read_json(path):
    with open(path, "r") as fp:
        return json.load(fp)


def read_h5(path):
    """groups -> dicts, datasets -> ds[()], bytes -> str, the sentinel -> None"""
    import h5py

    def leaf(v):
        if isinstance(v, bytes):
            s = v.decode("utf-8")
            return None if s == SENTINEL else s
        if isinstance(v, np.ndarray) and v.dtype.kind == "O":
            flat = [x.decode("utf-8") if isinstance(x, bytes) else x for x in v.reshape(-1)]
            a = np.empty(len(flat), dtype=object)
            a[:] = flat
            return a.reshape(v.shape)
        return v

    def rd(g):
        return {k: (rd(x) if isinstance(x, h5py.Group) else leaf(x[()])) for k, x in g.items()}

    with h5py.File(path, "r") as f:
        return rd(f)


def _sc_tok(x, all_bool):
    if isinstance(x, (bool, np.bool_)):
        return ("b:" + str(int(x))) if all_bool else "v:" + vtok(int(x))
    if isinstance(x, str):
        return "s:" + cps(x)
    return "v:" + vtok(x)


def _arr_toks(shape, items):
    all_bool = len(items) > 0 and all(isinstance(x, (bool, np.bool_)) for x in items)
    toks = [_sc_tok(x, all_bool) for x in items]
    if len(shape) == 0:
        return toks
    return ["A", str(len(shape))] + [str(n) for n in shape] + [str(len(toks))] + toks


def tok_h5(r, out):
    """tokens of what read_h5 returned (dict keys sorted, numbers by exact value)"""
    if isinstance(r, dict):
        out += ["D", str(len(r))]
        for k in sorted(r):
            out.append("ks:" + cps(k))
            tok_h5(r[k], out)
    elif r is None:
        out.append("N")
    elif isinstance(r, str):
        out.append("s:" + cps(r))
    elif isinstance(r, np.ndarray) and r.dtype.names is not None:
        names = list(r.dtype.names)
        items = [r[n].reshape(-1)[i] for i in range(r.size) for n in names] if r.ndim == 1 else None
        if items is None:
            out.append("?")
            return
        out += ["S", str(len(names))] + ["s:" + cps(n) for n in names] + _arr_toks([len(r), len(names)], items)
    elif isinstance(r, np.ndarray):
        out += _arr_toks(list(r.shape), list(r.reshape(-1)))
    elif isinstance(r, (np.generic, bool, int, float)):
        out += _arr_toks([], [r])
    else:
        out.append("?")


def h5_tokens(r):
    out = []
    tok_h5(r, out)
    return " ".join(out)


def exc_tok(e):
    if isinstance(e, TypeError):
        return "err=type"
    if isinstance(e, ValueError):
        return "err=value"
    if isinstance(e, OSError):
        return "err=os"
    if isinstance(e, RuntimeError):
        return "err=runtime"
    return "err=" + type(e).__name__


# ------------------------------------------------------------------ oracle
def _num_eq(a, b):
    """same real value, NaN equal to NaN (exact: compared through exact value tokens)"""
    try:
        return vtok(a) == vtok(b)
    except Exception:  # noqa
        return False


def _is_num(v):
    return isinstance(v, (int, float, np.integer, np.floating)) and not isinstance(v, (bool, np.bool_))


def _is_bool(v):
    return isinstance(v, (bool, np.bool_))


def _is_opaque(v):
    return not isinstance(v, (dict, list, tuple, str, bool, int, float, type(None), np.generic, np.ndarray))


# finding classes with a known root cause are keyed by that call site, whichever API wrote the file
ROOT = {
    "longdouble-rounded": "NessaiJSONEncoder.default:longdouble-rounded",
    "structured-array-field-names": "NessaiJSONEncoder.default:structured-array-field-names",
    "empty-dict-dropped": "add_dict_to_hdf5_file:empty-dict-dropped",
    "none-inside-list": "encode_for_hdf5:none-inside-list",
    "ragged-list": "save_dict_to_hdf5:ragged-list",
}


LONGDOUBLE_SEEN = set()
_KNOWN_LD = []


def known_longdouble_paths():
    if not _KNOWN_LD:
        import pathlib
        paths = set()
        try:
            d = json.loads((pathlib.Path(__file__).resolve().parent.parent / "known_findings.json").read_text())
            for f in d["findings"]:
                if f.get("key") == ROOT["longdouble-rounded"]:
                    paths |= set(f.get("result_paths", []))
        except Exception:  # noqa
            pass
        _KNOWN_LD.append(paths)
    return _KNOWN_LD[0]


def has_slash_key(v):
    if isinstance(v, dict):
        return any((isinstance(k, str) and "/" in k) or has_slash_key(x) for k, x in v.items())
    return False


class Mismatch:
    """collects (key, what) pairs: key = stable finding class, what = path + observed vs required"""

    def __init__(self, site, real=False):
        self.site, self.items, self.real = site, [], real

    def add(self, cls, path, what):
        if cls == "structured-array-field-names" and path == ["posterior_samples"] \
                and self.site.startswith("FlowSampler.save_results"):
            cls = "posterior_samples-field-names"   # save_results converts these with live_points_to_dict
        key = ROOT.get(cls) or f"{self.site}:{cls}"
        if cls == "longdouble-rounded" and self.real:
            # in REAL result files the known finding is limited to the entries that are long double on the pinned tree (listed
            # in known_findings.json); a long double anywhere else — e.g. the reported uncertainty, seeded change C19-hA — is a
            # different violation of the same property
            pp = [c for c in path]
            while pp and pp[-1].isdigit():
                pp.pop()                       # the entry of a list: the list is the result entry
            LONGDOUBLE_SEEN.add("/".join(pp))
            if "/".join(pp) not in known_longdouble_paths():
                key = f"{self.site}:longdouble-rounded:{'/'.join(pp)}"
        self.items.append((key, f"at {'/'.join(path) or '<root>'}: {what}"))


def _short(v):
    s = repr(v)
    return s if len(s) < 120 else s[:117] + "..."


def same_json(v, r, path, mm):
    """does the value read back with json.load hold what the in-memory value `v` holds?"""
    if isinstance(v, dict):
        if not isinstance(r, dict):
            return mm.add("value-mismatch", path, f"dict read back as {_short(r)}")
        want = [k if isinstance(k, str) else json.dumps(k) if isinstance(k, (bool, type(None))) else str(k) for k in v]
        if list(r.keys()) != want:
            return mm.add("value-mismatch", path, f"keys {list(r.keys())!r} != {want!r}")
        for k, kk in zip(v, want):
            same_json(v[k], r[kk], path + [kk], mm)
    elif v is None:
        if r is not None:
            mm.add("value-mismatch", path, f"None read back as {_short(r)}")
    elif isinstance(v, np.bool_):
        # not one of the value types the property quantifies over (numpy integer/float scalars): no demand here;
        # what the code does with it (str(obj)) is pinned by the model correspondence and a `_partial` theorem
        return
    elif _is_bool(v):
        if not (isinstance(r, bool) and r == bool(v)):
            mm.add("value-mismatch", path, f"bool {v!r} read back as {_short(r)}")
    elif _is_num(v):
        if isinstance(r, bool) or not isinstance(r, (int, float)):
            return mm.add("value-mismatch", path, f"number {v!r} read back as {_short(r)}")
        if isinstance(v, (int, np.integer)) and not isinstance(r, int):
            return mm.add("value-mismatch", path, f"integer {v!r} read back as {_short(r)}")
        if _num_eq(v, r):
            return
        if isinstance(v, np.floating) and v.dtype.itemsize > 8 and _num_eq(float(v), r):
            return mm.add("longdouble-rounded", path,
                          f"np.longdouble {v!r} read back as {r!r} (rounded to binary64, exact {vtok(v)} vs {vtok(r)})")
        mm.add("value-mismatch", path, f"number {v!r} read back as {r!r}")
    elif isinstance(v, str):
        if not (isinstance(r, str) and r == str(v)):
            mm.add("value-mismatch", path, f"str {v!r} read back as {_short(r)}")
    elif isinstance(v, (list, tuple)):
        if not isinstance(r, list) or len(r) != len(v):
            return mm.add("value-mismatch", path, f"sequence of {len(v)} read back as {_short(r)}")
        for i, (a, b) in enumerate(zip(v, r)):
            same_json(a, b, path + [str(i)], mm)
    elif isinstance(v, np.ndarray) and v.dtype.names is not None:
        names = list(v.dtype.names)
        if isinstance(r, dict):
            if list(r.keys()) != names:
                return mm.add("value-mismatch", path, f"structured array fields {names} read back as {list(r.keys())}")
            for n in names:
                same_json(v[n], r[n], path + [n], mm)
            return
        # rows: values are compared positionally, and the loss of the field names is its own finding
        if not (isinstance(r, list) and len(r) == len(v)):
            return mm.add("value-mismatch", path, f"structured array of {len(v)} rows read back as {_short(r)}")
        for i, row in enumerate(v.tolist()):
            same_json(list(row), r[i], path + [str(i)], mm)
        mm.add("structured-array-field-names", path,
               f"structured array with fields {names} read back as bare rows: the field names are not in the file")
    elif isinstance(v, np.ndarray):
        same_json(v.tolist() if v.dtype.kind != "O" else v.tolist(), r, path, mm)
    elif isinstance(v, np.generic):
        same_json(v.item(), r, path, mm)
    else:
        # any other object: the property only asks for a readable file that still has the entry
        if not isinstance(r, str):
            mm.add("value-mismatch", path, f"object {_short(v)} read back as {_short(r)}")


def _seq_array(v):
    """the array a (possibly nested) sequence denotes, or None when it is not a regular numeric/str grid"""
    try:
        a = np.array(v)
    except Exception:  # noqa
        return None
    return a if a.dtype.kind in "biufUSO" else None


def _hollow(v):
    """a dict without any leaf: the writer creates nothing for it"""
    return isinstance(v, dict) and all(_hollow(x) for x in v.values())


def same_h5(v, r, path, mm):
    """does the value read back from the HDF5 file hold what the in-memory value `v` holds?"""
    if isinstance(v, dict):
        if not isinstance(r, dict):
            return mm.add("value-mismatch", path, f"dict read back as {_short(r)}")
        for k in v:
            if k not in r:
                if _hollow(v[k]):
                    mm.add("empty-dict-dropped", path + [str(k)], "empty dict is not in the file (key lost)")
                else:
                    mm.add("value-mismatch", path + [str(k)], f"key missing, file has {sorted(r)}")
                continue
            same_h5(v[k], r[k], path + [k], mm)
        extra = [k for k in r if k not in v]
        if extra:
            mm.add("value-mismatch", path, f"unexpected keys {extra}")
    elif v is None:
        if r is not None:
            mm.add("value-mismatch", path, f"None read back as {_short(r)}")
    elif isinstance(v, str):
        if not (isinstance(r, str) and r == str(v)):
            mm.add("value-mismatch", path, f"str {v!r} read back as {_short(r)}")
    elif _is_bool(v):
        if not (isinstance(r, (bool, np.bool_)) and bool(r) == bool(v)):
            mm.add("value-mismatch", path, f"bool {v!r} read back as {_short(r)}")
    elif _is_num(v):
        if isinstance(r, np.ndarray) and r.ndim == 0:
            r = r[()]
        if not (_is_num(r) and _num_eq(v, r)):
            mm.add("value-mismatch", path, f"number {v!r} read back as {_short(r)}")
    elif isinstance(v, np.ndarray) and v.dtype.names is not None:
        if not (isinstance(r, np.ndarray) and r.dtype.names == v.dtype.names and r.shape == v.shape):
            return mm.add("value-mismatch", path, f"structured array {v.dtype.names}{v.shape} read back as {_short(r)}")
        for n in v.dtype.names:
            same_h5(v[n], r[n], path + [n], mm)
    elif isinstance(v, (list, tuple, np.ndarray)):
        a = v if isinstance(v, np.ndarray) else _seq_array(v)
        if a is None:
            return mm.add("value-mismatch", path, f"sequence {_short(v)} read back as {_short(r)}")
        if a.ndim == 0:
            return same_h5(a[()], r, path, mm)
        if not (isinstance(r, np.ndarray) and r.shape == a.shape):
            return mm.add("value-mismatch", path, f"array of shape {a.shape} read back as {_short(r)}")
        fa, fr = list(a.reshape(-1)), list(r.reshape(-1))
        for i, (x, y) in enumerate(zip(fa, fr)):
            if isinstance(x, str) or isinstance(y, str):
                ok = isinstance(x, str) and isinstance(y, str) and str(x) == y
            elif _is_bool(x) and _is_bool(y):
                ok = bool(x) == bool(y)
            else:
                ok = _num_eq(x, y)
            if not ok:
                mm.add("value-mismatch", path + [str(i)], f"element {x!r} read back as {y!r}")
                break
    else:
        mm.add("value-mismatch", path, f"object {_short(v)} read back as {_short(r)}")


def find_h5_culprit(v):
    """why can the HDF5 writer not store this in-domain tree?  -> finding class or None"""
    if isinstance(v, dict):
        for x in v.values():
            c = find_h5_culprit(x)
            if c:
                return c
        return None
    if isinstance(v, (list, tuple)):
        def has_none(s):
            return any(x is None or (isinstance(x, (list, tuple)) and has_none(x)) for x in s)

        def shape(x):
            if isinstance(x, (list, tuple)):
                ss = [shape(y) for y in x]
                if any(s is None for s in ss) or any(s != ss[0] for s in ss):
                    return None
                return (len(x),) + (ss[0] if ss else ())
            if isinstance(x, np.ndarray):
                return x.shape
            return ()
        if shape(v) is None:
            return "ragged-list"
        if has_none(v):
            return "none-inside-list"
    return None
