import NessaiVerif.Driver.Parse
/- stub: replaced by the owner of this area -/
namespace NessaiVerif.Driver.Flow
def handle (_toks : List String) : String := "bad-op"
end NessaiVerif.Driver.Flow
