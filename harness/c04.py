"""C04 — INS sample store stays sorted, partitioned and aligned under all updates."""
import itertools

import numpy as np

PROPS_MODULE = "NessaiVerif.Props.C04"
MANIFEST = dict(
    text="TRANSLATION TIE for ALL FIVE mutating methods of OrderedSamples: add_to_nested_samples (harness/pyarr2lean.py -> Gen/OrderedTx.lean, add_to_nested_samples_source_eq_model) and add_initial_samples, add_samples (both threshold modes, the get_inverse_indices remap, the live-index merge, every None/TypeError/ValueError/RuntimeError exit), remove_samples (both modes) and finalise (harness/pyidx2lean.py -> Gen/OrderedOps.lean; add_initial_samples_source_eq_model, add_samples_source_eq_model, remove_samples_source_eq_model, finalise_source_eq_model) are translated statement by statement from the current source on every run and proved equal to the model's operations on every state in which samples is None only if the live indices are. "
         "Lean refinement proof over a literal model of OrderedSamples (np.searchsorted/np.insert index arithmetic, "
         "get_inverse_indices remap, add_to_nested_samples, remove_samples, finalise): for every operation sequence of "
         "any length and any batch sizes the store stays sorted, live/nested index arrays are strictly increasing and "
         "partition the indices, every sample ever added is present (multiset conservation), rows stay attached, "
         "nested samples are never changed by an insertion, removal reports and moves exactly the live samples strictly "
         "below the threshold, strict mode keeps exactly the samples at/above it. Model tied to the real class by a "
         "differential op-sequence correspondence (random long sequences + exhaustive small scope in the thorough tier) "
         "with the property's predicates evaluated on the real object after every operation.",
    note="np.argsort(order='logL') tie-breaking by the remaining dtype fields (unique id first) is mirrored by the model's "
         "(key,id) order; states reached after an exception are not explored (the sequence ends at the first error).",
    technique="Lean 4 proof (invariant + refinement by induction over op sequences) + source-to-Lean translation of all five mutating methods of OrderedSamples re-proved equal to the model on every run + differential correspondence",
    ref="5/C04")

NEG = -999  # stands for a likelihood of -inf (the model treats it as an ordinary smallest key, as NumPy does)


def fkey(k):
    return -np.inf if k == NEG else float(k)


def ikey(t):
    return NEG if t == -np.inf else int(t)


DTYPE = [("id", "f8"), ("logP", "f8"), ("logL", "f8"), ("logW", "f8"), ("logQ", "f8"), ("it", "i4")]
NCOL = 3


def mk_batch(pairs):
    """pairs: [(key, id)] -> (structured samples, log_q rows)"""
    x = np.zeros(len(pairs), dtype=DTYPE)
    q = np.zeros((len(pairs), NCOL))
    for j, (k, i) in enumerate(pairs):
        x[j] = (float(i), -0.5 * i, fkey(k), -1.0, -2.0, i % 7)
        q[j] = [i, i + 0.25, -float(i)]
    return x, q


def record(i, k):
    return mk_batch([(k, i)])[0][0]


def fmt_list(v):
    return "[" + ",".join(str(ikey(t)) for t in v) + "]"


def canon(os_, ret):
    s = os_.samples
    rows = os_.log_q
    live = os_.live_points_indices
    return (f"keys={fmt_list(s['logL'])} ids={fmt_list(s['id'])} rows={fmt_list(rows[:, 0])} "
            f"live={'none' if live is None else fmt_list(live)} nested={fmt_list(os_.nested_samples_indices)} "
            f"ret={'none' if ret is None else int(ret)}")


def exc_name(e):
    return {TypeError: "err=type", ValueError: "err=value", RuntimeError: "err=runtime"}.get(type(e), "err=" + type(e).__name__)


def op_str(op):
    if op[0] in ("init", "add"):
        return op[0] + " [" + ",".join(f"{k}:{i}" for k, i in op[1]) + "]"
    if op[0] == "thr":
        return f"thr {op[1]}"
    return op[0]


class Oracle:
    """the property's predicates on the real object, after every operation"""

    def __init__(self, ctx, case):
        self.ctx, self.case = ctx, case
        self.added = {}  # id -> record bytes
        self.thr = None  # the threshold the CALLER asked for last (the oracle never reads it back from the store)

    def fail(self, key, what):
        self.ctx.oracle_fail(key, what, self.case)

    def add(self, pairs):
        for k, i in pairs:
            self.added[i] = record(i, k).tobytes()

    def check(self, os_, op, ret, pre):
        site = "OrderedSamples." + {"init": "add_initial_samples", "add": "add_samples", "thr": "update_log_likelihood_threshold",
                                    "remove": "remove_samples", "finalise": "finalise"}[op[0]]
        s, live, nested = os_.samples, os_.live_points_indices, os_.nested_samples_indices
        if s is None:
            return
        n = len(s)
        if np.any(np.diff(s["logL"]) < 0):
            self.fail(site + ":sorted", f"store not sorted by likelihood: {s['logL'].tolist()}")
        lv = [] if live is None else [int(v) for v in live]
        ns = [int(v) for v in nested]
        if any(b <= a for a, b in zip(lv, lv[1:])) or any(b <= a for a, b in zip(ns, ns[1:])):
            self.fail(site + ":strictly-increasing", f"index sets not strictly increasing live={lv} nested={ns}")
        if sorted(lv + ns) != list(range(n)):
            self.fail(site + ":partition", f"live and nested do not partition the store: live={lv} nested={ns} n={n}")
        got = {}
        for rec in s:
            got.setdefault(int(rec["id"]), []).append(rec.tobytes())
        if sorted(got) != sorted(self.added) or any(len(v) != 1 or v[0] != self.added[i] for i, v in got.items()):
            self.fail(site + ":conservation", "a sample ever added is missing, duplicated or modified")
        q = os_.log_q
        if q.shape != (n, NCOL) or any(q[j].tolist() != [s["id"][j], s["id"][j] + 0.25, -s["id"][j]] for j in range(n)):
            self.fail(site + ":rows", "a density-table row is no longer attached to its sample")
        if op[0] == "remove":
            pre_live_keys, pre_thr = pre
            want = len(pre_live_keys) if os_.replace_all else sum(1 for k in pre_live_keys if k < pre_thr)
            if ret != want:
                self.fail(site + ":count", f"reported {ret} removed, {want} live samples were strictly below the threshold")
            if not os_.replace_all and any(s["logL"][i] < pre_thr for i in lv):
                self.fail(site + ":count", "a live sample strictly below the threshold survived removal")
        if os_.strict_threshold and op[0] in ("add",) and self.thr is not None:
            t = self.thr
            if lv != [i for i in range(n) if s["logL"][i] >= t]:
                self.fail(site + ":strict-live", f"strict threshold {t}: live set {lv} is not the samples at/above it {s['logL'].tolist()}")


def scribble(x, q):
    """the caller reuses its buffers after handing a batch over: the store must hold its own copy ("every sample ever added
    is still present and unmodified"; seeded change C04-e: an already sorted batch was kept by reference)"""
    if len(x):
        for f in x.dtype.names:
            x[f] = -12345 if x.dtype[f].kind in "iu" else -1.2345e300
        q[...] = -7.77e200


def run_impl(ctx, strict, repl, ops, case):
    from nessai.samplers.importancesampler import OrderedSamples
    os_ = OrderedSamples(strict_threshold=strict, replace_all=repl)
    orc = Oracle(ctx, case)
    outs = []
    for op in ops:
        ret = None
        pre = None
        try:
            if op[0] == "init":
                x, q = mk_batch(op[1])
                os_.add_initial_samples(x, q)
                orc.add(op[1])
                scribble(x, q)
            elif op[0] == "add":
                x, q = mk_batch(op[1])
                orc.add(op[1])
                os_.add_samples(x, q)
                scribble(x, q)
            elif op[0] == "thr":
                os_.update_log_likelihood_threshold(fkey(op[1]))
                orc.thr = fkey(op[1])
            elif op[0] == "remove":
                lp = os_.live_points
                pre = ([] if lp is None else lp["logL"].tolist(), orc.thr)
                ret = os_.remove_samples()
            elif op[0] == "finalise":
                os_.finalise()
        except (TypeError, ValueError, RuntimeError, IndexError, AttributeError) as e:
            outs.append(exc_name(e))
            break
        outs.append(canon(os_, ret) if os_.samples is not None else
                    "keys=[] ids=[] rows=[] live=none nested=[] ret=none")
        orc.check(os_, op, ret, pre)
    return outs


def gen_ops(rng, depth, alphabet, maxb, ids):
    ops = []
    ninf = rng.random() < 0.2  # this sequence contains -inf likelihoods (and sometimes a -inf threshold)
    def batch(lo=0):
        n = rng.choice([0, 1, 1, 2, 2, 3, maxb]) if maxb <= 4 else rng.choice([1, 2, 3, maxb // 4, maxb])
        n = max(lo, n)
        return [(NEG if ninf and rng.random() < 0.25 else rng.choice(alphabet), next(ids)) for _ in range(n)]
    if rng.random() < 0.97:
        ops.append(("init", batch()))
    thr_set = False
    for _ in range(depth):
        r = rng.random()
        if r < 0.40:
            ops.append(("add", batch(0 if rng.random() < 0.05 else 1)))
        elif r < 0.65:
            ops.append(("thr", rng.choice(alphabet + [min(alphabet) - 1, max(alphabet) + 1] + ([NEG] if ninf else []))))
            thr_set = True
        elif r < 0.97 or not ops:
            if thr_set or rng.random() < 0.1:
                ops.append(("remove",))
            else:
                ops.append(("thr", rng.choice(alphabet)))
                thr_set = True
        else:
            ops.append(("finalise",))
    if rng.random() < 0.5:
        ops.append(("finalise",))
    return ops


def shrink_failure(ctx, strict, repl, ops, nfail_before):
    """minimise the op sequence of a fresh oracle failure (same key must still fail)"""
    from .core import Probe, shrink_list
    new = ctx.fails[nfail_before:]
    for key in sorted({f["key"] for f in new}):
        _shrink_key(ctx, strict, repl, ops, new, key)


def _shrink_key(ctx, strict, repl, ops, new, key):
    from .core import Probe, shrink_list

    def fails(cand):
        pr = Probe()
        try:
            run_impl(pr, strict, repl, cand, {})
        except Exception:  # noqa
            return False
        return key in pr.keys

    small = shrink_list(ops, fails)
    # shrink batches
    for j, o in enumerate(list(small)):
        if o[0] in ("init", "add") and len(o[1]) > 1:
            b = shrink_list(o[1], lambda bb: fails(small[:j] + [(o[0], bb)] + small[j + 1:]), 60)
            small = small[:j] + [(o[0], b)] + small[j + 1:]
    case = {"strict": strict, "replace_all": repl, "ops": [op_str(o) for o in small], "shrunk_from_ops": len(ops)}
    for f in new:
        if f["key"] == key:
            f["case"] = case


def run_case(ctx, strict, repl, ops, lines, impls, cases, kind):
    case = {"strict": strict, "replace_all": repl, "ops": [op_str(o) for o in ops]}
    nf = len(ctx.fails)
    outs = run_impl(ctx, strict, repl, ops, case)
    if len(ctx.fails) > nf and len({f["key"] for f in ctx.fails[:nf]}) < 6:
        shrink_failure(ctx, strict, repl, ops, nf)
    line = f"os run {int(strict)} {int(repl)} " + ";".join(op_str(o) for o in ops[:len(outs)])
    lines.append(line)
    impls.append("|".join(outs))
    cases.append(case)
    nontriv = sum(1 for o in ops if o[0] in ("add", "remove")) >= 1 and len(outs) >= 2
    ctx.case(line, nontriv, case if len(ops) <= 8 else None, kind=kind)
    for o, out in zip(ops, outs):
        ctx.hist["op:" + o[0] + (":err" if out.startswith("err") else "")] += 1


def corpus(ctx):
    from .core import VERIF
    d = VERIF / "corpus" / "C04"
    res = []
    if d.exists():
        for p in sorted(d.glob("*.ops")):
            for ln in p.read_text().splitlines():
                ln = ln.strip()
                if ln and not ln.startswith("#"):
                    res.append(ln)
    return res


def parse_line(line):
    toks = line.split(" ", 4)
    strict, repl = toks[2] == "1", toks[3] == "1"
    ops = []
    for o in toks[4].split(";"):
        o = o.strip()
        if o.startswith(("init", "add")):
            name, body = o.split(" ", 1)
            body = body.strip()[1:-1]
            ops.append((name, [tuple(int(t) for t in kv.split(":")[:2]) for kv in body.split(",")] if body else []))
        elif o.startswith("thr"):
            ops.append(("thr", int(o.split()[1])))
        else:
            ops.append((o,))
    return strict, repl, ops


def gen(ctx):
    """regenerate Gen/OrderedTx.lean: `OrderedSamples.add_to_nested_samples` (the index program every removal and the
    finalisation go through) translated statement by statement by harness/pyarr2lean.py; theorem
    C04.add_to_nested_samples_source_eq_model (generated definition = the model's `addToNested`) is re-proved each run."""
    from . import core, pyarr2lean, py2lean
    spec = pyarr2lean.ArrSpec(
        source="nessai/samplers/importancesampler.py", func="add_to_nested_samples", cls="OrderedSamples",
        name="add_to_nested_samples",
        params=[("self.nested_samples_indices", "self_nested_samples_indices", "iarr"), ("indices", "indices", "iarr")],
        outputs=["self.nested_samples_indices"], doc="`OrderedSamples.add_to_nested_samples` (returns the new nested_samples_indices)")
    try:
        t = pyarr2lean.translate_arr(core.REPO, spec)
    except py2lean.TranslationError as e:
        ctx.broken(f"translator: OrderedSamples.add_to_nested_samples: {e}",
                   "Gen/OrderedTx.lean was left as it was (the theorem is about the last translatable source)")
        return
    except (OSError, SyntaxError) as e:
        ctx.broken(f"translator: cannot read/parse the source: {e}")
        return
    text = ("import NessaiVerif.Model.PySlice\nimport NessaiVerif.Model.OrderedSamples\n"
            "/-\nGENERATED by harness/pyarr2lean.py (harness/c04.py gen) from the CURRENT nessai source — do not edit.\n"
            "C04: index program of OrderedSamples.add_to_nested_samples.\n-/\n"
            "namespace NessaiVerif.Gen.OrderedTx\nopen NessaiVerif\n\n" + t.lean + "\nend NessaiVerif.Gen.OrderedTx\n")
    changed = py2lean.write_if_changed(core.LEAN / "NessaiVerif" / "Gen" / "OrderedTx.lean", text)
    ctx.extra["generated"] = {"add_to_nested_samples": dict(source=spec.source, lines=[t.first_line, t.last_line], sha256=t.sha256,
                                                              rewritten=changed)}
    gen_store_methods(ctx)


def gen_store_methods(ctx):
    """regenerate Gen/OrderedOps.lean: add_initial_samples, add_samples, remove_samples and finalise of OrderedSamples translated
    statement by statement by harness/pyidx2lean.py; C04.*_source_eq_model prove them equal to the model's operations."""
    from . import core, py2lean
    from . import pyidx2lean as X
    specs = [X.IdxSpec(func="add_initial_samples", name="add_initial_samples", params=[("samples", "new", X.ARR), ("log_q", "newRows", X.ROWS)]),
             X.IdxSpec(func="add_samples", name="add_samples", params=[("samples", "new", X.ARR), ("log_q", "newRows", X.ROWS)]),
             X.IdxSpec(func="remove_samples", name="remove_samples", returns=X.NAT),
             X.IdxSpec(func="finalise", name="finalise")]
    parts, infos = [], {}
    try:
        for sp in specs:
            lean, info = X.translate(core.REPO, sp)
            parts.append(lean)
            infos[sp.func] = info
    except py2lean.TranslationError as e:
        ctx.broken(f"translator: {e}", "Gen/OrderedOps.lean was left as it was (the theorems are about the last translatable source)")
        return
    except (OSError, SyntaxError) as e:
        ctx.broken(f"translator: cannot read/parse the source: {e}")
        return
    text = ("import NessaiVerif.Model.OrderedSamples\n"
            "/-\nGENERATED by harness/pyidx2lean.py (harness/c04.py gen_store_methods) from the CURRENT nessai source — do not edit.\n"
            "C04: the index programs of OrderedSamples.\n-/\n"
            "namespace NessaiVerif.Gen.OrderedOps\nopen NessaiVerif NessaiVerif.Np NessaiVerif.Ordered\n\n"
            + "\n".join(parts) + "\nend NessaiVerif.Gen.OrderedOps\n")
    rewritten = py2lean.write_if_changed(core.LEAN / "NessaiVerif" / "Gen" / "OrderedOps.lean", text)
    ctx.extra["generated"].update(dict(infos, ops_rewritten=rewritten))


def correspond(ctx):
    ctx.rule = ("op sequences init/add/thr/remove/finalise on the real OrderedSamples for the four strict x replace-all modes: "
                "committed corpus first, random sequences over a 5-value likelihood alphabet with thresholds below/inside/above it "
                "(a fifth of the sequences also carry -inf likelihoods and -inf thresholds, model key -999) "
                "(depth <= 12, batches 0-4), long sequences (depth 200, batches up to 500), thorough: exhaustive sequences of depth <= 3 "
                "over alphabet {0,1,2} with batches of size <= 2; state compared with the Lean model after every op; "
                "non-trivial = distinct sequence with at least one add/remove that ran past its first op")
    ctx.assume("NumPy primitives searchsorted/insert/argsort/isin behave as modelled in Model/Np.lean (validated by this correspondence)",
               "states reached after an exception are not explored")
    ctx.trust("hand-written model Model/OrderedSamples.lean; tie = op-sequence correspondence against the real class")
    lines, impls, cases = [], [], []
    for ln in corpus(ctx):
        st, ra, ops = parse_line(ln)
        run_case(ctx, st, ra, ops, lines, impls, cases, "corpus")
    rng = ctx.rng
    alphabet = [0, 1, 2, 3, 4]
    for k in range(ctx.scale(1500, 20000)):
        ids = itertools.count(1)
        st, ra = rng.random() < 0.5, rng.random() < 0.5
        ops = gen_ops(rng, rng.randint(1, 12), alphabet, 4, ids)
        run_case(ctx, st, ra, ops, lines, impls, cases, f"short:{int(st)}{int(ra)}")
    for k in range(ctx.scale(8, 60)):
        ids = itertools.count(1)
        st, ra = k % 2 == 0, (k // 2) % 2 == 0
        ops = gen_ops(rng, 200 if k % 4 else 60, list(range(0, 40)), 500 if k % 4 == 0 else 40, ids)
        run_case(ctx, st, ra, ops, lines, impls, cases, f"long:{int(st)}{int(ra)}")
    if not ctx.quick:
        exhaustive(ctx, lines, impls, cases)
    ctx.diff_model(lines, impls, cases)
    from . import np_prims
    np_prims.validate(ctx, ctx.scale(300, 3000))


def exhaustive(ctx, lines, impls, cases):
    """every sequence init;o1;..;od (d<=3) over alphabet {0,1,2}, batches <= 2, thresholds {-1,0,1,2,3}"""
    alpha = [0, 1, 2]
    batches = [[]] + [[a] for a in alpha] + [[a, b] for a in alpha for b in alpha]
    atoms = [("add", b) for b in batches if b] + [("thr", t) for t in (-1, 1, 2, 3)] + [("remove",), ("finalise",)]
    count = 0
    for st in (False, True):
        for ra in (False, True):
            for init in ([], [1], [0, 2], [1, 1]):
                for d in range(1, 4):
                    for seq in itertools.product(atoms, repeat=d):
                        # prune: at most one finalise and only last
                        if any(o[0] == "finalise" for o in seq[:-1]):
                            continue
                        ids = itertools.count(1)
                        ops = [("init", [(k, next(ids)) for k in init])]
                        for o in seq:
                            ops.append((o[0], [(k, next(ids)) for k in o[1]]) if o[0] == "add" else o)
                        run_case(ctx, st, ra, ops, lines, impls, cases, "exhaustive")
                        count += 1
    ctx.extra["exhaustive_sequences"] = count
    ctx.extra["exhaustive"] = False


def search(ctx):
    pass


def replay(ctx, obj):
    c = obj["case"]
    if "case" in c and "line" in c:
        c = c["case"]
    line = f"os run {int(c['strict'])} {int(c['replace_all'])} " + ";".join(c["ops"])
    st, ra, ops = parse_line(line)
    lines, impls, cases = [], [], []
    run_case(ctx, st, ra, ops, lines, impls, cases, "replay")
    ctx.diff_model(lines, impls, cases)
