"""C07 — numeric oracle for the transcendental family, the FlowProposal layer and the finding probes.

Nothing here is a proof: the real objects are run and the property is evaluated on their outputs
(round trip, non-sampling fields, log-Jacobians negatives, log_j minus finite-difference log|det| constant,
prime prior = prior / J up to a constant with the same support)."""
import math
import tempfile
import shutil
from unittest import mock

import numpy as np

from . import c07 as H
from . import c07_cases as G

PI = math.pi


# ----------------------------------------------------------------------------------------------- running objects
def build(case):
    objs = [H.build_real(s, case["bounds"])[0] for s in case["reparams"]]
    if len(objs) == 1 and not case.get("combined"):
        return objs[0], objs
    from nessai.reparameterisations import CombinedReparameterisation
    top = CombinedReparameterisation(reverse_order=case.get("reverse", False))
    for o in objs:
        top.add_reparameterisations(o)
    top.check_order()
    return top, objs


def chi_objs(objs):
    return [o for o in objs if getattr(o, "chi", False)]


def evaluate(top, objs, names, X, radial=None, test=None, force=None, rng=None, half=None, inverse=True):
    """forward (and inverse) through the real object(s) on the rows of X (columns = names)."""
    from nessai.livepoint import empty_structured_array
    X = np.asarray(X, dtype=float).reshape(-1, len(names))
    x = H.live_points(names, X)
    x0 = x.copy()
    saved = []
    for k, o in enumerate(chi_objs(objs)):
        saved.append((o, o.chi))
        real = o.chi.real if isinstance(o.chi, H.FakeChi) else o.chi
        o.chi = H.FakeChi(real, np.asarray(radial)[:, k])
    prime = []
    for o in objs:
        prime += [pp for pp in o.prime_parameters if pp not in prime]
    xp = empty_structured_array(x.size, names=prime)
    script = H.Scripted(rng, force=force)
    kw = {} if test is None else {"test": test}
    try:
        with mock.patch("numpy.random.choice", script), np.errstate(all="ignore"):
            x1, xp1, lj1 = top.reparameterise(x, xp, np.zeros(x.size), **kw)
            out = dict(x0=x0, x1=x1, xp1=xp1.copy(), lj1=np.array(lj1, dtype=float), prime=prime, nrep=xp1.size // max(x0.size, 1))
            if inverse:
                pnames = []
                for o in objs:
                    pnames += [p for p in o.parameters if p not in pnames]
                pnames += [p for p in names if p not in pnames]
                xin = empty_structured_array(xp1.size, names=pnames)
                for k, v in H.NS_VALUES.items():
                    xin[k] = v
                out["xin_ns"] = H.ns_bytes(xin)
                x2, xp2, lj2 = top.inverse_reparameterise(xin, xp1, np.zeros(xp1.size))
                out.update(x2=x2, xp2=xp2, lj2=np.array(lj2, dtype=float))
    finally:
        for o, c in saved:
            o.chi = c
    if half is not None:   # duplicated output: keep the first / second copy
        n = x0.size
        sl = slice(0, n) if half == 0 else slice(n, 2 * n)
        out["xp1"], out["lj1"] = out["xp1"][sl], out["lj1"][sl]
    return out


def fd_logdet(fn, B, Hs):
    """log|det| of the Jacobian of fn at the rows of B by a 5-point central stencil (step Hs per row and dim)."""
    M, n = B.shape
    rows = []
    for d in range(n):
        for k in (-2, -1, 1, 2):
            Z = B.copy()
            Z[:, d] += k * Hs[:, d]
            rows.append(Z)
    Y = fn(np.concatenate(rows, axis=0))
    m = Y.shape[1]
    assert m == n, (m, n)
    J = np.zeros((M, m, n))
    for d in range(n):
        f = [Y[(4 * d + j) * M:(4 * d + j + 1) * M] for j in range(4)]
        J[:, :, d] = (f[0] - 8 * f[1] + 8 * f[2] - f[3]) / (12 * Hs[:, [d]])
    sign, logdet = np.linalg.slogdet(J)
    return logdet


# ----------------------------------------------------------------------------------------------- the oracle
def oracle(ctx, case, rng):
    names = case["names"]
    key = case["site"]
    try:
        top, objs = build(case)
    except Exception as e:  # noqa
        if case.get("expect_reject"):
            ctx.case(("T", repr(case)), False, None, kind=case["kind"] + ":rejected")
            return
        ctx.oracle_fail(key + ":init-raises", f"constructor raised {type(e).__name__}: {e}", case)
        return
    X = np.array(case["points"], dtype=float).reshape(-1, len(names))
    n = X.shape[0]
    nchi = len(chi_objs(objs))
    radial = np.array(case.get("radial") or np.ones((n, max(nchi, 1))), dtype=float).reshape(n, -1)
    test = case.get("test")
    if case.get("update") is not None:
        top.update(H.live_points(names, case["update"]))
    try:
        out = evaluate(top, objs, names, X, radial=radial, test=test, rng=rng)
    except Exception as e:  # noqa
        ctx.oracle_fail(key + ":raises", f"reparameterise / inverse raised {type(e).__name__}: {e}", case)
        return
    nrep = out["nrep"]
    rows = np.tile(np.arange(n), nrep)
    x0, x1, x2 = out["x0"], out["x1"], out["x2"]
    # float rounding can push a point one ulp inside a bound ONTO the singular point of logit / log (x' = +-inf):
    # such rows (only among the near-singular ones) are recorded and left out; any other non-finite value is a failure
    nearset = np.array(case.get("near_singular_rows") or [], dtype=int)
    blown = np.zeros(rows.size, dtype=bool)
    for f in out["prime"]:
        blown |= ~np.isfinite(out["xp1"][f])
    blown &= np.isin(rows, nearset)
    if np.any(blown):
        ctx.hist["near-singular-overflow"] += int(np.sum(blown))
        keep = ~blown
        rows = rows[keep]
        x1, x2 = x1[keep], x2[keep]
        out["xp1"], out["lj1"], out["lj2"] = out["xp1"][keep], out["lj1"][keep], out["lj2"][keep]
        if H.ns_bytes(out["x1"][~keep]) != H.ns_bytes(x0[np.tile(np.arange(n), nrep)[~keep]]):
            ctx.oracle_fail(key + ":non-sampling", "non-sampling fields changed by the reparameterisation", case)
        out["xin_ns"] = H.ns_bytes(x2)
    # non-sampling fields and inputs untouched
    if H.ns_bytes(x1) != H.ns_bytes(x0[rows]) or out["xin_ns"] != H.ns_bytes(x2):
        ctx.oracle_fail(key + ":non-sampling", "non-sampling fields (logP, logL, it) changed by the reparameterisation", case)
    for p in names:
        if not np.array_equal(x1[p], x0[p][rows]):
            ctx.oracle_fail(key + ":forward-mutates-x", f"reparameterise changed the input parameter {p}", case)
    # round trip
    scale = case.get("scales") or {p: max(1.0, abs(case["bounds"][p][0]), abs(case["bounds"][p][1])) for p in case["bounds"]}
    owned = [p for o in objs for p in o.parameters if p in names]
    for p in owned:
        tol = case.get("rt_tol", 1e-9) * scale.get(p, 1.0)
        err = np.abs(x2[p] - x0[p][rows])
        if np.any(~(err <= tol)):
            r = int(np.argmax(~(err <= tol)))
            ctx.oracle_fail(key + ":roundtrip", f"{p}: x={float(x0[p][rows][r])!r} -> x'={[float(out['xp1'][f][r]) for f in out['prime']]}"
                            f" -> x={float(x2[p][r])!r}", dict(case, row=r))
    for k, o in enumerate(chi_objs(objs)):
        err = np.abs(x2[o.parameters[-1]] - radial[rows, k])
        if np.any(~(err <= 1e-9 * np.maximum(1.0, radial[rows, k]))):
            ctx.oracle_fail(key + ":roundtrip-radial", "the auxiliary radial draw is not recovered by the inverse", case)
    # log-Jacobians negatives of each other
    lj1, lj2 = out["lj1"], out["lj2"]
    # one ulp from a singular point log_j is ill-conditioned (an ulp of x changes it by O(1)): the comparison
    # there is relative to that conditioning, everywhere else 1e-9
    near = np.isin(rows, np.array(case.get("near_singular_rows") or [], dtype=int))
    bad = ~(np.abs(lj1 + lj2) <= np.where(near, 4.0, 1e-9) * np.maximum(1.0, np.abs(lj1)))
    if np.any(bad):
        r = int(np.argmax(bad))
        ctx.oracle_fail(key + ":jacobian-inverse", f"log_j forward {float(lj1[r])!r} is not minus log_j inverse {float(lj2[r])!r} "
                        f"at x={X[rows[r]].tolist()}", dict(case, row=r))
    # log_j minus the true log|det| constant across points (finite differences on the real forward map)
    fd_rows = case.get("fd_rows")
    if fd_rows:
        consts = []
        cols = case["fd_cols"]                       # input columns that the object(s) transform
        ci = [names.index(c) for c in cols]
        variants = case.get("fd_variants") or [dict()]
        for var in variants:
            B = np.concatenate([X[fd_rows][:, ci], radial[fd_rows][:, :nchi]], axis=1)
            Hs = np.concatenate([np.array([[1e-4 * (case["bounds"][c][1] - case["bounds"][c][0]) for c in cols]] * len(fd_rows)),
                                 1e-4 * radial[fd_rows][:, :nchi]], axis=1)

            def fn(Z, var=var):
                reps = Z.shape[0] // len(fd_rows)
                Xf = np.tile(X[fd_rows], (reps, 1))
                Xf[:, ci] = Z[:, :len(ci)]
                o = evaluate(top, objs, names, Xf, radial=Z[:, len(ci):] if nchi else None, test=test, rng=rng,
                             inverse=False, **var)
                return np.stack([o["xp1"][f] for f in case["fd_out"]], axis=1)
            base = evaluate(top, objs, names, X[fd_rows], radial=radial[fd_rows], test=test, rng=rng, inverse=False, **var)
            ld = fd_logdet(fn, B, Hs)
            consts.append(base["lj1"] - ld)
        c = np.concatenate(consts)
        if not np.all(np.isfinite(c)) or np.max(c) - np.min(c) > case.get("fd_tol", 1e-5):
            ctx.oracle_fail(key + ":jacobian-vs-derivative",
                            f"log_j minus the finite-difference log|det J| is not constant across points: "
                            f"min {float(np.nanmin(c))!r} max {float(np.nanmax(c))!r}", case)
    # prime prior
    if getattr(top, "has_prime_prior", False) and case.get("orig_prior") is not None:
        lp = np.asarray(top.x_prime_log_prior(out["xp1"].copy()), dtype=float)
        orig = orig_log_prior(case, objs, X[rows], radial[rows])
        interior = np.array(case.get("interior_rows") or list(range(n)))
        sel = np.isin(rows, interior)
        if np.any(sel & np.isfinite(orig) & ~np.isfinite(lp)):
            r = int(np.argmax(sel & np.isfinite(orig) & ~np.isfinite(lp)))
            ctx.oracle_fail(key + ":prime-prior-support", f"a point of the prior box has prime-space log-prior {lp[r]!r} at "
                            f"x={X[rows[r]].tolist()} x'={[float(out['xp1'][f][r]) for f in out['prime']]}", dict(case, row=r))
        ok = sel & np.isfinite(lp) & np.isfinite(orig)
        if np.any(ok):
            c = (lp - (orig - lj1))[ok]
            if np.max(c) - np.min(c) > 1e-8 * max(1.0, np.max(np.abs(lj1[ok]))):
                ctx.oracle_fail(key + ":prime-prior-density",
                                "log p'(x') - (log p(x) - log_j(x)) is not constant across points "
                                f"(spread {float(np.max(c) - np.min(c))!r})", case)
    ctx.case(("T", repr(case)), True, dict(kind=case["kind"], reparams=case["reparams"], bounds=case["bounds"],
                                           n_points=n, test=str(test)), kind=case["kind"])


def orig_log_prior(case, objs, X, radial):
    """log of the original prior (up to a constant) the prime prior is supposed to represent"""
    kind = case["orig_prior"]
    names = case["names"]
    if kind == "uniform":
        return np.zeros(X.shape[0])
    if kind == "chi":          # uniform angle(s), auxiliary radius from the chi distribution
        o = chi_objs(objs)[0]
        return o.chi.logpdf(radial[:, 0]) if not isinstance(o.chi, H.FakeChi) else o.chi.real.logpdf(radial[:, 0])
    if kind == "sine+chi":
        o = chi_objs(objs)[0]
        return np.log(np.sin(X[:, 0])) + o.chi.logpdf(radial[:, 0])
    if kind == "isotropic-ra-dec-radial":     # radius is a model parameter with a flat prior
        return np.log(np.cos(X[:, names.index("dec")]))
    if kind == "isotropic-az-zen-radial":
        return np.log(np.sin(X[:, names.index("dec")]))
    if kind == "isotropic-ra-dec":
        o = chi_objs(objs)[0]
        return np.log(np.cos(X[:, names.index(o.parameters[1])])) + o.chi.logpdf(radial[:, 0])
    if kind == "isotropic-az-zen":
        o = chi_objs(objs)[0]
        return np.log(np.sin(X[:, names.index(o.parameters[1])])) + o.chi.logpdf(radial[:, 0])
    if kind.startswith("power:"):
        return float(kind.split(":")[1]) * np.log(X[:, 0])
    raise AssertionError(kind)


# ----------------------------------------------------------------------------------------------- generators
def grid(rng, lo, hi, k, lower=True, upper=True, ulp=True):
    pts = [lo + (hi - lo) * rng.randint(1, 1023) / 1024.0 for _ in range(k)]
    edge = []
    if lower:
        edge.append(lo)
    if upper:
        edge.append(hi)
    if ulp:
        edge += [inside(lo, hi), inside(hi, lo)]
    return pts, edge


def inside(a, b):
    """the float next to the bound a in the direction of b; next to a zero bound 2^-60 of the range (no denormals)"""
    return float(np.nextafter(a, b)) if a != 0 else (b - a) * 2.0 ** -60


def columns(rng, specs, k):
    """specs: {name: (lo, hi, lower_ok, upper_ok)} -> rows, fd_rows (the first k rows are well inside)"""
    cols = {}
    n_edge = 0
    for p, (lo, hi, lok, uok) in specs.items():
        inner = [lo + (hi - lo) * (0.04 + 0.92 * rng.randint(0, 1024) / 1024.0) for _ in range(k)]
        _, edge = grid(rng, lo, hi, 0, lok, uok)
        more = [lo + (hi - lo) * rng.randint(1, 2 ** 20 - 1) / 2.0 ** 20 for _ in range(3)]
        cols[p] = (inner, edge + more)
        n_edge = max(n_edge, len(edge + more))
    rows = []
    for r in range(k):
        rows.append([cols[p][0][r] for p in specs])
    for r in range(n_edge):
        rows.append([(cols[p][1][r] if r < len(cols[p][1]) else cols[p][0][r % k]) for p in specs])
    return rows, list(range(k))


def near_rows(rows, k=6):
    """rows after the first k: on a bound, one ulp inside it, or on the 2^-20 grid next to it"""
    return list(range(k, len(rows)))


def rtb_transcendental(ctx, rng):
    """RescaleToBounds with logit / log / exp pre- and post-rescalings"""
    reps = ctx.scale(8, 60)
    for rep in range(reps):
        for name in ("logit", "log-rescale"):
            for npar in (1, 2):
                params = [f"p{i}" for i in range(npar)]
                bounds = {p: G.bounds_for(rng) for p in params}
                spec = dict(name=name, gw=False, parameters=params, kwargs={})
                sp = {p: (bounds[p][0], bounds[p][1], False, name == "log-rescale") for p in params}
                rows, fd = columns(rng, sp, 6)
                yield dict(layer="transcendental", kind="rtb:" + name, site="RescaleToBounds[" + name + "]", names=params,
                           bounds=bounds, reparams=[spec], points=rows, fd_rows=fd, fd_cols=params,
                           fd_out=[p + "_prime" for p in params], update=None, test=None, near_singular_rows=near_rows(rows))
        for pre in ("log", "exp", "logit"):
            for upd in (False, True):
                if pre == "log":
                    lo = rng.choice([0.5, 1.0, 2.0, 10.0])
                    b = [lo, lo * rng.choice([2.0, 4.0, 100.0])]
                elif pre == "exp":
                    lo = rng.choice([-2.0, 0.0, 1.0])
                    b = [lo, lo + rng.choice([0.5, 1.0, 3.0])]
                else:
                    b = rng.choice([[0.125, 0.875], [0.25, 0.5], [0.0009765625, 0.75]])
                kw = {"pre_rescaling": pre}
                if rng.random() < 0.4:
                    kw["offset"] = True
                if rng.random() < 0.4:
                    kw["rescale_bounds"] = rng.choice([[0.0, 1.0], [-3.0, 7.0]])
                inv = rng.random() < 0.4
                test = None
                if inv:
                    kw["boundary_inversion"] = True
                    kw["inversion_type"] = rng.choice(["split", "duplicate"])
                    test = rng.choice(["lower", "upper", False])
                if rng.random() < 0.5:
                    kw["update_bounds"] = rng.random() < 0.5
                spec = dict(name="default", gw=False, parameters=["p0"], kwargs=kw)
                data = None
                plo, phi = b
                if upd:
                    col = sorted(b[0] + (b[1] - b[0]) * rng.randint(1, 63) / 64.0 for _ in range(4))
                    data = [[v] for v in col]
                    if inv and test and kw.get("update_bounds", True):
                        plo, phi = (col[0], phi) if test == "lower" else (plo, col[-1])
                rows, fd = columns(rng, {"p0": (plo, phi, True, True)}, 6)
                variants = None
                if inv and test:
                    variants = ([dict(force=False), dict(force=True)] if kw["inversion_type"] == "split"
                                else [dict(half=0), dict(half=1)])
                yield dict(layer="transcendental", kind=f"rtb:pre={pre}" + (":inversion" if inv else "") + (":updated" if upd else ""),
                           site="RescaleToBounds[pre_rescaling=" + pre + "]", names=["p0"], bounds={"p0": b}, reparams=[spec],
                           points=rows, fd_rows=fd, fd_cols=["p0"], fd_out=["p0_prime"], update=data, test=test,
                           fd_variants=variants)


def angle_cases(ctx, rng):
    reps = ctx.scale(4, 24)
    table = {
        "angle": (1.0, [[0.0, 2 * PI], [-PI, PI], [0.0, 2.0], [1.0, 3.0], [-1.0, 1.0], [0.0, PI]]),
        "angle-2pi": (1.0, [[0.0, 2 * PI], [-PI, PI], [0.0, 4.0], [-2.0, 3.0]]),
        "angle-pi": (2.0, [[0.0, PI], [-PI / 2, PI / 2], [0.0, 1.5], [-1.0, 1.0]]),
        "periodic": (None, [[0.0, 1.0], [0.0, 24.0], [-0.5, 0.5], [-180.0, 180.0], [0.0, 2 * PI]]),
    }
    for rep in range(reps):
        for name, (scale, blist) in table.items():
            for b in blist:
                for with_radial in (False, True):
                    sc = scale if scale is not None else 2 * PI / (b[1] - b[0])
                    zero = b[0] == 0
                    # the identified end point of the period is excluded
                    upper_ok = not (zero and abs(b[1] * sc - 2 * PI) < 1e-9)
                    lower_ok = not ((not zero) and abs(b[0] * sc + PI) < 1e-9)
                    kw = {}
                    prior = None
                    if name == "angle" and b == [0.0, PI] and not with_radial:
                        kw["prior"] = prior = "sine"
                    elif name in ("angle-pi", "angle-2pi") and not with_radial:
                        prior = "uniform"
                    params = ["a", "r"] if with_radial else ["a"]
                    bounds = {"a": b}
                    sp = {"a": (b[0], b[1], lower_ok, upper_ok)}
                    if with_radial:
                        bounds["r"] = [0.0, 5.0]
                        sp["r"] = (0.0, 5.0, False, True)
                    rows, fd = columns(rng, sp, 6)
                    radial = None if with_radial else [[0.05 + 4 * rng.random()] for _ in rows]
                    spec = dict(name=name, gw=False, parameters=params, kwargs=kw)
                    yield dict(layer="transcendental", kind="angle:" + name + (":radial" if with_radial else ":chi"),
                               site="Angle", names=params, bounds=bounds, reparams=[spec], points=rows, radial=radial,
                               fd_rows=fd, fd_cols=params, fd_out=["a_x", "a_y"], update=None, test=None,
                               near_singular_rows=near_rows(rows) if with_radial else None,
                               orig_prior=({"uniform": "chi", "sine": "sine+chi"}.get(prior) if not with_radial else None))


def to_cartesian_cases(ctx, rng):
    for rep in range(ctx.scale(6, 30)):
        for mode in ("split", "duplicate", "half"):
            for with_radial in (False, True):
                b = G.bounds_for(rng)
                params = ["a", "r"] if with_radial else ["a"]
                bounds = {"a": b}
                sp = {"a": (b[0], b[1], True, True)}
                if with_radial:
                    bounds["r"] = [0.0, 5.0]
                    sp["r"] = (0.0, 5.0, False, True)
                rows, fd = columns(rng, sp, 6)
                radial = None if with_radial else [[0.05 + 4 * rng.random()] for _ in rows]
                kw = {"mode": mode}
                prior = None
                if not with_radial and b[1] > 0 and rng.random() < 0.6:
                    kw["prior"] = prior = "uniform"
                variants = {"split": [dict(force=False), dict(force=True)], "duplicate": [dict(half=0), dict(half=1)],
                            "half": None}[mode]
                yield dict(layer="transcendental", kind="to-cartesian:" + mode + (":radial" if with_radial else ":chi"),
                           site="ToCartesian", names=params, bounds=bounds,
                           reparams=[dict(name="to-cartesian", gw=False, parameters=params, kwargs=kw)],
                           points=rows, radial=radial, fd_rows=fd, fd_cols=params, fd_out=["a_x", "a_y"], update=None,
                           test=None, fd_variants=variants, near_singular_rows=near_rows(rows) if with_radial else None, orig_prior="chi" if prior else None)


def angle_pair_cases(ctx, rng):
    for rep in range(ctx.scale(4, 20)):
        for name, gw, conv in (("angle-pair", False, None), ("sky-ra-dec", True, "ra-dec"), ("sky-az-zen", True, "az-zen"),
                               ("angle-pair", False, "az-zen")):
            for ra_b in ([0.0, 2 * PI], [-PI, PI]):
                for with_radial in (False, True):
                    use_zen = conv == "az-zen" or (conv is None and rng.random() < 0.5)
                    vb = [0.0, PI] if use_zen else [-PI / 2, PI / 2]
                    params = ["ra", "dec"] + (["dist"] if with_radial else [])
                    if rng.random() < 0.5:
                        params = ["dec", "ra"] + params[2:]
                    bounds = {"ra": ra_b, "dec": vb}
                    sp = {p: None for p in params}
                    sp["ra"] = (ra_b[0], ra_b[1], ra_b[0] == 0.0, False)
                    sp["dec"] = (vb[0], vb[1], False, False)
                    if with_radial:
                        bounds["dist"] = [0.0, 4.0]
                        sp["dist"] = (0.0, 4.0, False, True)
                    rows, fd = columns(rng, sp, 6)
                    radial = None if with_radial else [[0.05 + 4 * rng.random()] for _ in rows]
                    kw = {}
                    if name == "angle-pair" and conv:
                        kw["convention"] = conv
                    prior = None
                    if not with_radial and rng.random() < 0.7:
                        kw["prior"] = prior = "isotropic"
                    elif with_radial and rng.random() < 0.5:
                        # isotropic angles with the radius a MODEL parameter (uniform here): if a prime prior is offered at all
                        # it has to be this prior over the Jacobian, not the 3-d Gaussian of the auxiliary-radius case
                        # (seeded change C07-eB)
                        kw["prior"] = prior = "isotropic"
                    yield dict(layer="transcendental", kind="angle-pair:" + name + (":radial" if with_radial else ":chi"),
                               site="AnglePair", names=params, bounds=bounds,
                               reparams=[dict(name=name, gw=gw, parameters=list(params), kwargs=kw)], points=rows,
                               radial=radial, fd_rows=fd, fd_cols=["ra", "dec"] + (["dist"] if with_radial else []),
                               fd_reorder=True, update=None, test=None, near_singular_rows=near_rows(rows),
                               orig_prior=((("isotropic-az-zen" if use_zen else "isotropic-ra-dec") + ("-radial" if with_radial else ""))
                                           if prior else None))


def gw_cases(ctx, rng):
    for rep in range(ctx.scale(12, 60)):
        power = rng.choice([2, 1, 3, 1.5])
        b = rng.choice([[100.0, 2000.0], [10.0, 500.0], [1000.0, 8000.0]])
        upd = rng.random() < 0.5
        test = rng.choice(["upper", False, "lower"])
        data = None
        phi = b[1]
        if upd:
            col = sorted(b[0] + (b[1] - b[0]) * rng.randint(1, 63) / 64.0 for _ in range(4))
            data = [[v] for v in col]
            if test == "upper":
                phi = col[-1]
        rows, fd = columns(rng, {"d": (b[0], phi, True, True)}, 6)
        spec = dict(name="distance", gw=True, parameters=["d"], kwargs={"prior": "power-law", "converter_kwargs": {"power": power}})
        yield dict(layer="transcendental", kind="gw:distance-power-law" + (":updated" if upd else ""),
                   site="DistanceReparameterisation[power-law]", names=["d"], bounds={"d": b}, reparams=[spec], points=rows,
                   fd_rows=fd, fd_cols=["d"], fd_out=["d_prime"], update=data, test=test,
                   fd_variants=[dict(half=0), dict(half=1)] if test == "upper" else None, orig_prior=f"power:{power}")
    for rep in range(ctx.scale(8, 40)):
        names = ["phase", "psi", "theta_jn"]
        bounds = {"phase": [0.0, 2 * PI], "psi": [0.0, PI], "theta_jn": [0.0, PI]}
        sp = {"phase": (0.0, 2 * PI, True, False), "psi": (0.0, PI, True, True), "theta_jn": (0.0, PI, True, True)}
        rows, fd = columns(rng, sp, 6)
        specs = [dict(name="null", gw=False, parameters=["psi", "theta_jn"], kwargs={}),
                 dict(name="delta_phase", gw=True, parameters=["phase"], kwargs={})]
        yield dict(layer="transcendental", kind="gw:delta-phase", site="DeltaPhaseReparameterisation", names=names, bounds=bounds,
                   reparams=specs, combined=True, reverse=True, points=rows, fd_rows=fd, fd_cols=["phase"],
                   fd_out=["delta_phase"], update=None, test=None)


def finish_case(case):
    """fill fd_out for AnglePair (prime names depend on the parameter order chosen by the class)"""
    if case["site"] == "AnglePair":
        spec = case["reparams"][0]
        obj = H.build_real(spec, case["bounds"])[0]
        case["fd_out"] = list(obj.prime_parameters)
        case["fd_cols"] = [p for p in obj.parameters if p in case["names"]]
    return case


def post_rescaling_update_guard(ctx):
    """`post_rescaling` 'logit' / 'log' x `update_bounds` (left at its default, True, False): the combination is either refused at
    construction or the object is an exact bijection on the interior of the whole prior box ALSO after `update()` on live points
    that do not reach the prior bounds (seeded change C07-iA: the guard 'Cannot use log or logit with update bounds' read the
    class default of `_update` because the assignment had moved below it — the combination was accepted and gave NaN for
    prior-box points outside the live range)."""
    from nessai.reparameterisations import RescaleToBounds
    from nessai.livepoint import empty_structured_array, numpy_array_to_live_points
    for post in ("logit", "log"):
        for ub in (None, True, False):
            for lo, hi in ((1.0, 5.0), (-2.0, 0.5)):
                kw = dict(parameters=["p0"], prior_bounds={"p0": [lo, hi]}, post_rescaling=post, rescale_bounds=[0.0, 1.0])
                if ub is not None:
                    kw["update_bounds"] = ub
                case = dict(layer="transcendental", kind="post-rescaling-guard", kwargs={k: v for k, v in kw.items() if k != "parameters"})
                key = ("post-rescaling-guard", post, ub, lo)
                try:
                    r = RescaleToBounds(**kw)
                except (ValueError, RuntimeError) as e:
                    ctx.case(key, True, dict(case, rejected=str(e)[:80]), kind="post-rescaling-guard:rejected-at-construction")
                    continue
                w = hi - lo
                try:
                    live = numpy_array_to_live_points(np.array([[lo + 0.4 * w], [lo + 0.5 * w], [lo + 0.6 * w]]), ["p0"])
                    r.update(live)
                    vals = np.array([lo + f * w for f in (0.0625, 0.25, 0.5, 0.75, 0.9375)])
                    pts = numpy_array_to_live_points(vals[:, None], ["p0"])
                    with np.errstate(all="ignore"):
                        xp = empty_structured_array(pts.size, names=list(r.prime_parameters))
                        _, xp1, lj = r.reparameterise(pts.copy(), xp, np.zeros(pts.size))
                        xin = empty_structured_array(pts.size, names=["p0"])
                        x2, _, lji = r.inverse_reparameterise(xin, xp1.copy(), np.zeros(pts.size))
                    pv = np.asarray(xp1[r.prime_parameters[0]], dtype=float)
                    ok = (np.isfinite(pv).all() and np.isfinite(lj).all() and np.isfinite(lji).all()
                          and np.allclose(np.asarray(x2["p0"], dtype=float), vals, rtol=1e-12, atol=1e-12)
                          and np.allclose(np.asarray(lj) + np.asarray(lji), 0.0, atol=1e-9))
                    what = (f"x'={pv.tolist()}, log_J={np.asarray(lj).tolist()}, round trip={np.asarray(x2['p0'], dtype=float).tolist()}")
                except Exception as e:  # noqa
                    ok, what = False, f"{type(e).__name__}: {e}"
                if not ok:
                    ctx.oracle_fail("RescaleToBounds:post_rescaling+update_bounds:accepted-but-not-a-bijection-after-update",
                                    f"post_rescaling={post!r}, update_bounds={'default' if ub is None else ub}, prior [{lo}, {hi}], accepted at "
                                    f"construction; after update() on live points in the middle of the box, interior prior points give {what}", case)
                ctx.case(key, True, case, kind="post-rescaling-guard:accepted")


def transcendental(ctx, rng):
    post_rescaling_update_guard(ctx)
    for gen in (rtb_transcendental, angle_cases, to_cartesian_cases, angle_pair_cases, gw_cases):
        for case in gen(ctx, rng):
            oracle(ctx, finish_case(case), rng)


# ----------------------------------------------------------------------------------------------- FlowProposal layer
def make_model(names, bounds):
    from nessai.model import Model

    class M(Model):
        def __init__(self):
            self.names = list(names)
            self.bounds = {p: list(bounds[p]) for p in names}

        def log_prior(self, x):
            return np.log(self.in_bounds(x), dtype="float")

        def log_likelihood(self, x):
            return np.zeros(x.size)
    return M()


def proposal_case(ctx, case, rng, tmp):
    """every third case runs with EXTRA non-sampling fields registered (as the importance sampler or a user does) holding
    non-default values: they must come through rescale / inverse_rescale like logP, logL, it (seeded change C07-d)"""
    import zlib
    from nessai.livepoint import add_extra_parameters_to_live_points, reset_extra_live_points_parameters
    extra = zlib.crc32(repr(sorted(case.items(), key=lambda kv: kv[0])).encode()) % 3 == 0
    if not extra:
        return _proposal_case(ctx, case, rng, tmp, None)
    add_extra_parameters_to_live_points(["logW", "aux_flag"], [0.0, -1.0])
    try:
        return _proposal_case(ctx, dict(case, extra_fields=["logW", "aux_flag"]), rng, tmp, {"logW": 2.5, "aux_flag": 7.0})
    finally:
        reset_extra_live_points_parameters()


def _proposal_case(ctx, case, rng, tmp, extra_values):
    from nessai.proposal.flowproposal import FlowProposal
    names, bounds = case["names"], case["bounds"]
    key = "FlowProposal.rescale"
    model = make_model(names, bounds)
    seed_state = np.random.get_state()
    np.random.seed(rng.getrandbits(32))
    try:
        try:
            reps = case["reparameterisations"]
            if isinstance(reps, dict):
                reps = {k: (H.decode_kwargs(v) if isinstance(v, dict) else v) for k, v in reps.items()}
            prop = FlowProposal(model, output=tmp, poolsize=10, plot=False, reparameterisations=reps,
                                reverse_reparameterisations=case.get("reverse", False), **case.get("proposal_kwargs", {}))
            prop.set_rescaling()
            prop.verify_rescaling()
            accepted = True
        except Exception as e:  # noqa
            accepted = False
            why = f"{type(e).__name__}: {e}"
    finally:
        np.random.set_state(seed_state)
    expect = case.get("expect", "accept")
    if not accepted:
        if expect == "accept":
            ctx.oracle_fail(key + ":rejects-valid-configuration", f"the proposal refused a configuration whose maps are bijective: {why}", case)
        ctx.case(("P", repr(case)), False, None, kind="proposal:rejected-at-init")
        return
    X = np.array(case["points"], dtype=float)
    x = H.live_points(names, X)
    for k, v in (extra_values or {}).items():
        x[k] = v + 0.25 * np.arange(x.size)
    x0 = x.copy()
    if case.get("update") is not None:
        prop.check_state(H.live_points(names, case["update"]))
    script = H.Scripted(rng)
    with mock.patch("numpy.random.choice", script), np.errstate(all="ignore"):
        xp, lj = prop.rescale(x, **({"test": case["test"]} if case.get("test") is not None else {}))
        xp0 = xp.copy()
        xb, lji = prop.inverse_rescale(xp)
    nrep = xp.size // x0.size
    rows = np.tile(np.arange(x0.size), nrep)
    if H.ns_bytes(xp0) != H.ns_bytes(x0[rows]) or H.ns_bytes(xb) != H.ns_bytes(x0[rows]):
        ctx.oracle_fail(key + ":non-sampling", "non-sampling fields (logP, logL, it" + (", " + ", ".join(extra_values) if extra_values else "")
                        + ") are not carried unchanged through rescale / inverse_rescale", case)
    bad = []
    for p in names:
        tol = 1e-9 * max(1.0, abs(bounds[p][0]), abs(bounds[p][1]))
        err = np.abs(xb[p] - x0[p][rows])
        if np.any(~(err <= tol)):
            bad.append((p, int(np.argmax(~(err <= tol)))))
    if bad:
        p, r = bad[0]
        what = f"{p}: x={float(x0[p][rows][r])!r} -> x={float(xb[p][r])!r} after rescale / inverse_rescale"
        if expect == "reject":
            ctx.oracle_fail(key + ":accepts-non-invertible-configuration",
                            "verify_rescaling accepted a configuration that is not invertible on the prior box: " + what, case)
        else:
            ctx.oracle_fail(key + ":roundtrip", what, dict(case, row=r))
    if np.any(~(np.abs(lj + lji) <= 1e-9 * np.maximum(1.0, np.abs(lj)))):
        ctx.oracle_fail(key + ":jacobian-inverse", "log_J of rescale is not minus log_J of inverse_rescale", case)
    ctx.case(("P", repr(case)), True, dict(kind=case["kind"], reparameterisations=case["reparameterisations"], bounds=bounds),
             kind="proposal:" + case["kind"])


def proposal_cases(ctx, rng):
    def pts(names, bounds, k=6):
        cols = {p: G.points_in(rng, bounds[p][0], bounds[p][1], k) for p in names}
        return [[cols[p][r] for p in names] for r in range(5 + k)]
    for rep in range(ctx.scale(2, 8)):
        names = ["x", "y", "z"]
        bounds = {p: G.bounds_for(rng) for p in names}
        yield dict(layer="proposal", kind="default+offset+null", names=names, bounds=bounds,
                   reparameterisations={"x": "default", "y": {"reparameterisation": "offset", "update_bounds": False}, "z": "null"},
                   points=pts(names, bounds), test=None)
        yield dict(layer="proposal", kind="fallback-only", names=names, bounds=bounds, reparameterisations=None,
                   points=pts(names, bounds), test=None)
        yield dict(layer="proposal", kind="scale+zscore+logit", names=names, bounds=bounds,
                   reparameterisations={"scale": {"parameters": ["x"], "scale": 4.0}, "y": "z-score", "z": "logit"},
                   points=[r[:2] + [bounds["z"][0] + (bounds["z"][1] - bounds["z"][0]) * rng.randint(1, 2 ** 20 - 1) / 2.0 ** 20]
                           for r in pts(names, bounds)], test=None,
                   update=[[bounds[p][0] + (bounds[p][1] - bounds[p][0]) * f for p in names] for f in (0.25, 0.5, 0.75, 1.0)])
        for test in ("lower", "upper", False):
            for itype in ("inversion", "inversion-duplicate"):
                yield dict(layer="proposal", kind=f"{itype}:{test}", names=names, bounds=bounds,
                           reparameterisations={"x": {"reparameterisation": itype, "update_bounds": False, "detect_edges": False,
                                                      "prior": "uniform"},
                                                "y": {"reparameterisation": "default", "prior": "uniform"}, "z": "default"},
                           points=pts(names, bounds), test=test, reverse=rng.random() < 0.5)
    # a decreasing pre-rescaling makes the reported factor negative (log_j = NaN): must be refused at initialisation
    names = ["x", "y"]
    bounds = {"x": [0.0, 1.0], "y": [0.0, 1.0]}
    yield dict(layer="proposal", kind="decreasing-pre-rescaling:reject", names=names, bounds=bounds,
               reparameterisations={"x": {"reparameterisation": "default", "pre_rescaling": ["affine", -1.0, 0.0]}},
               points=[[0.25, 0.5], [0.75, 0.5]], test=None, expect="reject")
    # angle configurations: bijective ones must be accepted, non-invertible ones must be refused at initialisation
    for name, b, expect in (("periodic", [0.0, 2.0], "accept"), ("periodic", [-1.0, 1.0], "accept"), ("periodic", [1.0, 3.0], "reject"),
                            ("angle-pi", [1.0, 3.0], "reject"), ("angle", [1.0, 3.0], "accept"), ("angle-2pi", [0.0, 6.0], "accept"),
                            ("angle", [-4.0, 4.0], "reject")):
        names = ["x", "y"]
        bounds = {"x": b, "y": [0.0, 1.0]}
        cols = G.points_in(rng, b[0], b[1], 6)[2:]
        yield dict(layer="proposal", kind=f"{name}:{expect}", names=names, bounds=bounds, reparameterisations={"x": name},
                   points=[[v, 0.5] for v in cols], test=None, expect=expect)


def proposal_level(ctx, rng):
    tmp = tempfile.mkdtemp(prefix="c07-")
    try:
        for case in proposal_cases(ctx, rng):
            proposal_case(ctx, case, rng, tmp)
    finally:
        shutil.rmtree(tmp, ignore_errors=True)


# ----------------------------------------------------------------------------------------------- finding probes
def findings(ctx, rng):
    """Inputs inside the property's domain on which the unchanged code is known to break it.  They go through the same
    oracle as everything else; the site string makes the key specific."""
    lines, pend = [], []
    # (1) boundary inversion after update(): points of the prior box outside the data range on the reflecting side
    for itype in ("split", "duplicate"):
        for test, x in (("lower", 0.125), ("upper", 0.875)):
            case = dict(layer="exact", kind="finding:inversion-after-update",
                        site="RescaleToBounds._apply_inversion:after-update:point-outside-data-range",
                        names=["p0"], bounds={"p0": [0.0, 1.0]},
                        reparams=[dict(name="default", gw=False, parameters=["p0"],
                                       kwargs={"boundary_inversion": {"p0": itype}})],
                        reverse=False, combined=False, update=[[0.25], [0.5], [0.75]], test=test,
                        points=[[x], [0.5]], regular=True)
            H.exact_case(ctx, case, rng, lines, pend)
    # (2) invert='both': determine_rescaled_bounds reports (-0.5, 1.5) while _apply_inversion reflects about 0 like 'lower'
    case = dict(layer="exact", kind="finding:invert-both-prime-prior",
                site="RescaleToBounds.update_prime_prior_bounds:invert-both", names=["p0"], bounds={"p0": [0.0, 1.0]},
                reparams=[dict(name="default", gw=False, parameters=["p0"],
                               kwargs={"boundary_inversion": {"p0": "duplicate"}, "prior": "uniform"})],
                reverse=False, combined=False, update=None, test="both", points=[[0.75], [0.25]], regular=True)
    H.exact_case(ctx, case, rng, lines, pend)
    # (3) prime-prior bound vs image of the prior bound computed with different operation orders
    D = 5.958261794218833          # fl(fl(3*D)/D) = 2.9999999999999996 < 3
    case = dict(layer="exact", kind="finding:prime-bound-rounding", site="RescaleToBounds.update_prime_prior_bounds",
                names=["p0"], bounds={"p0": [0.0, D]},
                reparams=[dict(name="default", gw=False, parameters=["p0"],
                               kwargs={"rescale_bounds": [0.0, 3.0], "prior": "uniform", "update_bounds": False})],
                reverse=False, combined=False, update=None, test=False, points=[[D], [1.0]], regular=True)
    case2 = dict(case, reparams=[dict(name="default", gw=False, parameters=["p0"],
                                     kwargs={"rescale_bounds": [0.0, 3.0], "prior": "uniform"})],
                 update=[[0.5], [1.5], [3.0]])
    for c in (case, case2):
        H.exact_case(ctx, c, rng, lines, pend)
    outs = ctx.model(lines)
    for out, (tag, payload, c, rec) in zip(outs, pend):
        H.compare_exact(ctx, out, tag, payload, c, rec)
    # (4) prior='uniform' offered together with a non-linear pre-rescaling: uniform in x' is not prior / J
    for pre, b in (("log", [1.0, 4.0]), ("exp", [0.0, 1.0])):
        rows, fd = columns(rng, {"p0": (b[0], b[1], True, True)}, 6)
        case = dict(layer="transcendental", kind="finding:uniform-prime-prior+nonlinear-pre-rescaling",
                    site="RescaleToBounds.x_prime_log_prior:prior-uniform+nonlinear-pre_rescaling", names=["p0"], bounds={"p0": b},
                    reparams=[dict(name="default", gw=False, parameters=["p0"], kwargs={"pre_rescaling": pre, "prior": "uniform"})],
                    points=rows, fd_rows=fd, fd_cols=["p0"], fd_out=["p0_prime"], update=None, test=None, orig_prior="uniform")
        oracle(ctx, case, rng)


def replay_case(ctx, case, rng):
    case = {k: v for k, v in case.items() if k != "row"}
    if case.get("layer") == "proposal":
        tmp = tempfile.mkdtemp(prefix="c07-")
        try:
            proposal_case(ctx, case, rng, tmp)
        finally:
            shutil.rmtree(tmp, ignore_errors=True)
    else:
        oracle(ctx, finish_case(case), rng)
