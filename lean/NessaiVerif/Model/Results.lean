import NessaiVerif.Model.Np
import NessaiVerif.Model.Quadrature
/-
C05 — what a completed run returns.  Core Lean only (linked into the driver).

Part 1: the standard sampler's bookkeeping that determines the RETURNED quantities
  (`nessai/samplers/nestedsampler.py`: `populate_live_points`, `insert_live_point`, `consume_sample`,
  `finalise`, `nested_sampling_loop`, `birth_log_likelihoods`; `_NSIntegralState.__init__/increment`
  as far as `logLs`/`nlive` are concerned).  A point is `(logL, it)`; the likelihood type `K` is any
  type with a decidable `<` (executed at `Rat`: the floats of a real run as exact rationals).
  Randomness is an input: each iteration receives the stream of candidate likelihoods the proposal
  produced (candidates with `logP = -inf` already dropped), and the float-valued stopping test
  `condition <= tolerance` is supplied by the caller as a Boolean per iteration.
  `calls` records the arguments of every `state.increment(logL, nlive=…)` call, in order: the
  integral state (C02, `Model/Quadrature.lean`) is a function of that list alone.

Part 2: `_INSIntegralState` (`nessai/evidence.py`) in the LINEAR domain (`w = exp(logL + logW)`):
  `update_evidence`, `logZ`, `log_posterior_weights`, `compute_uncertainty`.

Part 3: a small expression language for "which attribute does this result entry read", used by the
  translated tables of `Gen/Results.lean`.
-/
namespace NessaiVerif.Results
open NessaiVerif.Np

inductive Err | indexErr | shapeErr | starved | scriptEnd
deriving DecidableEq, Repr

/-- a live point / nested sample: log-likelihood and the field `it` (iteration at which it was born) -/
structure Pt (K : Type) where
  logL : K
  it : Nat
deriving Repr, DecidableEq

/-- `NestedSampler` as far as the returned results are concerned -/
structure NS (K : Type) where
  nlive : Nat
  live : Option (List (Pt K))          -- `live_points` (`None` after `finalise`)
  nested : List (Pt K)                 -- `nested_samples`
  calls : List (K × Option Nat)        -- arguments of every `state.increment(logL, nlive)` so far
  iteration : Nat
  finalised : Bool
deriving Repr, DecidableEq

variable {K : Type}

/-- `state.logLs`: starts as `[-inf]` (`none`), `increment` appends its `logL` -/
def NS.logLs (s : NS K) : List (Option K) := none :: s.calls.map (fun c => some c.1)

/-- `state.nlive`: `increment` appends `nlive` (`base_nlive` when not given) -/
def NS.nliveSeen (s : NS K) : List Nat := s.calls.map (fun c => c.2.getD s.nlive)

/-- `birth_log_likelihoods`: `np.array(state.logLs)[np.array(nested_samples)["it"]]`
(outer `none` = IndexError; inner `none` = `-inf`) -/
def NS.births (s : NS K) : List (Option (Option K)) := s.nested.map (fun p => s.logLs[p.it]?)

/-- `b < x` where `b` may be `-inf` (`none`) -/
def ltExt [LT K] : Option K → K → Prop
  | none, _ => True
  | some b, x => b < x

instance [LT K] [DecidableLT K] (b : Option K) (x : K) : Decidable (ltExt b x) := by
  cases b <;> simp only [ltExt] <;> infer_instance

section order
variable [LT K] [DecidableLT K]

def insSorted (x : K) : List K → List K
  | [] => [x]
  | y :: ys => if y < x then y :: insSorted x ys else x :: y :: ys

/-- `np.sort(live_points, order="logL")` as far as the likelihoods are concerned -/
def sortK (l : List K) : List K := l.foldr insSorted []

/-- `populate_live_points`: `nlive` finite points, sorted by `logL`, then `live_points["it"] = 0`;
`_NSIntegralState.__init__`: `logLs = [-inf]`, `nlive = []` -/
def populate (pts : List K) : NS K :=
  { nlive := pts.length, live := some ((sortK pts).map fun l => ⟨l, 0⟩), nested := [], calls := [],
    iteration := 0, finalised := false }

/-- `insert_live_point`:
`index = np.searchsorted(live["logL"], p["logL"]); live[:index-1] = live[1:index]; live[index-1] = p`.
With `index = 0` NumPy refuses the slice assignment (shape mismatch). -/
def insertLive (live : List (Pt K)) (p : Pt K) : Except Err (List (Pt K)) :=
  let index := ssl (live.map (·.logL)) p.logL
  if index = 0 then .error .shapeErr
  else .ok ((live.drop 1).take (index - 1) ++ [p] ++ live.drop index)

/-- `yield_sample` inside `consume_sample`: the first candidate with `logL > logLmin` -/
def firstAbove (lmin : K) : List K → Option K
  | [] => none
  | c :: cs => if lmin < c then some c else firstAbove lmin cs

/-- `consume_sample`: `worst = live[0]; logLmin = worst.logL; state.increment(worst.logL);
nested_samples.append(worst); iteration += 1; … proposed["it"] = iteration; insert_live_point(proposed)` -/
def consume (s : NS K) (stream : List K) : Except Err (NS K) :=
  match s.live with
  | none => .error .indexErr
  | some [] => .error .indexErr
  | some (worst :: rest) =>
    match firstAbove worst.logL stream with
    | none => .error .starved          -- the real loop keeps drawing; a finite script ends here
    | some c =>
      match insertLive (worst :: rest) ⟨c, s.iteration + 1⟩ with
      | .error e => .error e
      | .ok live' =>
        .ok { s with live := some live', nested := s.nested ++ [worst],
                     calls := s.calls ++ [(worst.logL, none)], iteration := s.iteration + 1 }

end order

/-- the `state.increment` calls of `finalise`:
`for i, p in enumerate(live_points): state.increment(p["logL"], nlive=self.nlive - i)` -/
def handOver (nlive : Nat) : Nat → List (Pt K) → List (K × Option Nat)
  | _, [] => []
  | i, p :: ps => (p.logL, some (nlive - i)) :: handOver nlive (i + 1) ps

/-- `finalise`: hand the live points over in their stored order, `live_points = None`, `finalised = True` -/
def finalise (s : NS K) : Except Err (NS K) :=
  match s.live with
  | none => .error .indexErr
  | some live =>
    .ok { s with live := none, nested := s.nested ++ live, calls := s.calls ++ handOver s.nlive 0 live,
                 finalised := true }

/-- `self.iteration >= self.max_iteration` (`max_iteration = None` ↦ `np.inf`) -/
def capReached (maxIt : Option Nat) (it : Nat) : Bool :=
  match maxIt with
  | none => false
  | some m => decide (m ≤ it)

section order
variable [LT K] [DecidableLT K]

/-- `while self.condition > self.tolerance: consume_sample(); …; if iteration >= max_iteration: break`.
`below` = "condition ≤ tolerance" now; every step carries the candidate stream of that iteration and the
value of "condition ≤ tolerance" after it.  Returns the state and the last value of the test. -/
def whileLoop (maxIt : Option Nat) : NS K → Bool → List (List K × Bool) → Except Err (NS K × Bool)
  | s, true, _ => .ok (s, true)
  | _, false, [] => .error .scriptEnd
  | s, false, (stream, b) :: rest =>
    match consume s stream with
    | .error e => .error e
    | .ok s' => if capReached maxIt s'.iteration then .ok (s', b) else whileLoop maxIt s' b rest

/-- `nested_sampling_loop` (uninterrupted, or one segment after a resume):
`if self.finalised: return …` / the loop / `if not self.finalised and (self.condition <= self.tolerance): self.finalise()` -/
def nestedSamplingLoop (maxIt : Option Nat) (s : NS K) (below : Bool) (steps : List (List K × Bool)) :
    Except Err (NS K) :=
  if s.finalised then .ok s
  else
    match whileLoop maxIt s below steps with
    | .error e => .error e
    | .ok (s', b) => if !s'.finalised && b then finalise s' else .ok s'

/-- a run resumed any number of times at iteration boundaries: every segment is one call of
`nested_sampling_loop` (its own cap, the value of the stopping test at its start, its steps) on the state the
previous segment left behind (pickling at an iteration boundary is the identity on this state) -/
def runSegments : NS K → List (Option Nat × Bool × List (List K × Bool)) → Except Err (NS K)
  | s, [] => .ok s
  | s, (maxIt, below, steps) :: rest =>
    match nestedSamplingLoop maxIt s below steps with
    | .error e => .error e
    | .ok s' => runSegments s' rest

end order

/-! ### Part 2 — `_INSIntegralState`, linear domain -/
section ins
variable [Add K] [Sub K] [Mul K] [Div K] [OfNat K 0] [NatCast K]

/-- `update_evidence(nested_samples, live_points)`:
`_weights = concatenate([ns["logL"] + ns["logW"], lp["logL"] + lp["logW"]])` (`live_points=None` ↦ `[]`);
a sample is the pair `(L, W) = (exp logL, exp logW)` -/
def insWeights (nested live : List (K × K)) : List K := (nested ++ live).map (fun s => s.1 * s.2)

/-- `logZ = logsumexp(_weights) - log(_n)`, `_n = _weights.size` -/
def insZ (w : List K) : K := Quad.sumL w / (w.length : K)

/-- `compute_evidence_ratio(ns_only)` in the linear domain: the mean weight of the live points over the mean weight of the
nested samples alone (`ns_only`, the `ratio_ns` criterion) or of all samples (the `ratio` criterion) -/
def insRatio (nested live : List (K × K)) (nsOnly : Bool) : K :=
  insZ (insWeights [] live) / (if nsOnly then insZ (insWeights nested []) else insZ (insWeights nested live))

/-- `log_posterior_weights = _weights - logZ` -/
def insPostW (w : List K) : List K := w.map (· / insZ w)

/-- `compute_uncertainty(log_evidence=False)` squared: `sum((Z_i - Z_hat)^2) / (n (n - 1))` -/
def insVar (w : List K) : K :=
  Quad.sumL (w.map fun x => (x - insZ w) * (x - insZ w)) / ((w.length : K) * ((w.length : K) - (1 : Nat)))

/-- `compute_uncertainty(log_evidence=True)` squared: `|u / Z_hat|^2` -/
def insRelVar (w : List K) : K := insVar w / (insZ w * insZ w)

end ins

/-! ### Part 3 — expressions read by result entries -/

/-- the source of a result entry, after inlining the sampler's forwarding properties:
`root` = the sampler object (`self`, or `self.ns` inside `FlowSampler`) -/
inductive E where
  | root : E
  | attr : E → String → E          -- `e.name`
  | app : String → E → E           -- `f(e)` / `e.method(kwargs…)` (callee and normalised keywords in the string)
  | ite : E → E → E → E            -- `t if c else e`, or an `if c: return t … else: return e` chain
  | notNone : E → E                -- `e is not None`
  | none : E                       -- `None`
  | opaque : String → E            -- anything else, as source text
deriving DecidableEq, Repr

/-- the two run-time facts the INS result entries branch on -/
structure Cfg where
  iid : Bool          -- `draw_iid_live` (then `iid_samples` is an `OrderedSamples`, else `None`)
  hasFinal : Bool     -- `_final_samples is not None` (samples were redrawn after sampling)
deriving DecidableEq, Repr

/-- attributes of the sampler that hold `None` under `cfg` -/
def nullAttr (cfg : Cfg) (name : String) : Bool :=
  (name == "iid_samples" && !cfg.iid) || (name == "_final_samples" && !cfg.hasFinal)

/-- Python truthiness of an evaluated expression: `None` is false, `draw_iid_live` is the flag,
every other object (sampler stores, integral states) is true -/
def truthOf (cfg : Cfg) : E → Bool
  | .none => false
  | .notNone .none => false
  | .attr .root name => if name == "draw_iid_live" then cfg.iid else true
  | _ => true

/-- resolve the conditionals of an expression under `cfg` -/
def eval (cfg : Cfg) : E → E
  | .ite c t e => if truthOf cfg (eval cfg c) then eval cfg t else eval cfg e
  | .attr e n =>
    match eval cfg e with
    | .root => if nullAttr cfg n then .none else .attr .root n
    | e' => .attr e' n
  | .app f e => .app f (eval cfg e)
  | .notNone e => .notNone (eval cfg e)
  | e => e

/-- a result dictionary / exposure table: later assignments to the same key win -/
def lookup (t : List (String × E)) (k : String) : Option E :=
  (t.reverse.find? (fun p => p.1 == k)).map (·.2)

end NessaiVerif.Results
