import NessaiVerif.Proofs.Pool
/-
C09 — invariants of the population loops (core Lean only).
-/
namespace NessaiVerif.Pool
open EV

/-! ### plain branch -/

/-- the accepted points of all scripted batches, the uniform lists being consumed only by batches with at least
    one survivor (exactly as the loop consumes them) -/
def plainStream (t : Option EV) : List (List Cand) → List (List EV) → List Cand
  | [], _ => []
  | b :: bs, us =>
    if (survivors t b).isEmpty then plainStream t bs us
    else match us with
      | [] => []
      | u :: us => plainAccepted t b u ++ plainStream t bs us

/-- loop invariant: `pre` = everything accepted so far -/
structure Good (N : Nat) (pre : List Cand) (st : PlainSt) : Prop where
  nacc : st.nAcc = pre.length
  arr : st.arr = (pre.take N).map some ++ List.replicate (N - pre.length) none
  writes : st.writes = List.range (min N pre.length)

theorem good_init (N : Nat) : Good N [] (PlainSt.init N) := by
  constructor <;> simp [PlainSt.init]

theorem sliceWrite_fill {α : Type} (N : Nat) (pre xa : List α) (h : pre.length < N) :
    sliceWrite ((pre.take N).map some ++ List.replicate (N - pre.length) none) pre.length
        (min (N - pre.length) xa.length) xa
      = ((pre ++ xa).take N).map some ++ List.replicate (N - (pre ++ xa).length) none := by
  have hpre : pre.take N = pre := List.take_of_length_le (by omega)
  unfold sliceWrite
  rw [hpre]
  have h1 : (List.map some pre ++ List.replicate (N - pre.length) none).take pre.length = List.map some pre := by
    rw [List.take_append_of_le_length (by simp)]
    exact List.take_of_length_le (by simp)
  have h2 : (List.map some pre ++ List.replicate (N - pre.length) (none : Option α)).drop
        (pre.length + min (N - pre.length) xa.length)
      = List.replicate (N - (pre ++ xa).length) none := by
    have := List.drop_length_add_append (l₁ := List.map some pre)
      (l₂ := List.replicate (N - pre.length) (none : Option α)) (min (N - pre.length) xa.length)
    simp only [List.length_map] at this
    rw [this, List.drop_replicate]
    congr 1
    simp only [List.length_append]
    omega
  rw [h1, h2]
  have h3 : (pre ++ xa).take N = pre ++ xa.take (N - pre.length) := by
    rw [List.take_append, hpre]
  rw [h3]
  have h4 : xa.take (min (N - pre.length) xa.length) = xa.take (N - pre.length) := by
    rw [List.take_eq_take_iff]; omega
  rw [h4]
  simp

theorem plainLoop_good (z : Bool) (N : Nat) (t : Option EV) :
    ∀ (bs : List (List Cand)) (us : List (List EV)) (st : PlainSt) (pre : List Cand) (st' : PlainSt),
      Good N pre st → plainLoop z N t st bs us = some st' → st'.crashed = false →
      ∃ post, Good N (pre ++ post) st' ∧ N ≤ (pre ++ post).length ∧ post <+: plainStream t bs us := by
  intro bs
  induction bs with
  | nil =>
    intro us st pre st' hg h hc
    unfold plainLoop at h
    split at h
    · rename_i hN
      cases h
      exact ⟨[], by simpa using hg, by simpa [← hg.nacc] using hN, by simp [plainStream]⟩
    · simp at h
  | cons b bs ih =>
    intro us st pre st' hg h hc
    unfold plainLoop at h
    split at h
    · rename_i hN
      cases h
      exact ⟨[], by simpa using hg, by simpa [← hg.nacc] using hN, List.nil_prefix⟩
    · rename_i hN
      simp only at h
      split at h
      · cases h; simp at hc
      split at h
      · rename_i hE
        have hg1 : Good N pre { st with nProp := st.nProp + b.length, batches := st.batches + 1 } :=
          ⟨hg.nacc, hg.arr, hg.writes⟩
        obtain ⟨post, h1, h2, h3⟩ := ih us _ pre st' hg1 h hc
        exact ⟨post, h1, h2, by simpa [plainStream, hE] using h3⟩
      · rename_i hE
        cases us with
        | nil => simp at h
        | cons u us =>
          simp only at h
          have hlt : pre.length < N := by have := hg.nacc; omega
          have hg2 : Good N (pre ++ plainAccepted t b u)
              { st with nProp := st.nProp + b.length, batches := st.batches + 1,
                        arr := sliceWrite st.arr st.nAcc (min (N - st.nAcc) (plainAccepted t b u).length)
                                 (plainAccepted t b u),
                        nAcc := st.nAcc + (plainAccepted t b u).length,
                        writes := st.writes ++ (List.range (min (N - st.nAcc) (plainAccepted t b u).length)).map
                                    (st.nAcc + ·),
                        rands := st.rands + 1 } := by
            refine ⟨by simp [hg.nacc], ?_, ?_⟩
            · simp only [hg.arr, hg.nacc]
              exact sliceWrite_fill N pre _ hlt
            · simp only [hg.writes, hg.nacc, List.length_append]
              have e1 : min N pre.length = pre.length := by omega
              have e2 : min N (pre.length + (plainAccepted t b u).length)
                  = pre.length + min (N - pre.length) (plainAccepted t b u).length := by omega
              rw [e1, e2, List.range_add]
          obtain ⟨post, h1, h2, h3⟩ := ih us _ _ st' hg2 h hc
          refine ⟨plainAccepted t b u ++ post, by simpa using h1, by simpa using h2, ?_⟩
          simp only [plainStream, hE]
          exact (List.prefix_append_right_inj _).2 h3

/-- a population is aborted only by a drawn batch with a non-finite log-density under the `strictZ` quirk -/
theorem plainLoop_no_crash (z : Bool) (N : Nat) (t : Option EV) :
    ∀ (bs : List (List Cand)) (us : List (List EV)) (st st' : PlainSt),
      (∀ b ∈ bs, batchCrashes z b = false) → st.crashed = false → plainLoop z N t st bs us = some st' →
      st'.crashed = false := by
  intro bs
  induction bs with
  | nil =>
    intro us st st' _ hs h
    unfold plainLoop at h
    split at h
    · cases h; exact hs
    · simp at h
  | cons b bs ih =>
    intro us st st' hb hs h
    have hb' : ∀ b' ∈ bs, batchCrashes z b' = false := fun b' h' => hb b' (List.mem_cons_of_mem _ h')
    unfold plainLoop at h
    split at h
    · cases h; exact hs
    · simp only at h
      split at h
      · rename_i hcr; simp [hb b List.mem_cons_self] at hcr
      split at h
      · exact ih us _ st' hb' (by exact hs) h
      · cases us with
        | nil => simp at h
        | cons u us => exact ih us _ st' hb' (by exact hs) h

theorem mem_plainStream (t : Option EV) :
    ∀ (bs : List (List Cand)) (us : List (List EV)) (c : Cand), c ∈ plainStream t bs us →
      ∃ b ∈ bs, ∃ u, c ∈ plainAccepted t b u
  | [], _, _, h => by simp [plainStream] at h
  | b :: bs, us, c, h => by
    unfold plainStream at h
    split at h
    · obtain ⟨b', hb', r⟩ := mem_plainStream t bs us c h
      exact ⟨b', List.mem_cons_of_mem _ hb', r⟩
    · cases us with
      | nil => simp at h
      | cons u us =>
        simp only [List.mem_append] at h
        rcases h with h | h
        · exact ⟨b, List.mem_cons_self, u, h⟩
        · obtain ⟨b', hb', r⟩ := mem_plainStream t bs us c h
          exact ⟨b', List.mem_cons_of_mem _ hb', r⟩

theorem take_of_prefix {α : Type} {l₁ l₂ : List α} {n : Nat} (h : l₁ <+: l₂) (hn : n ≤ l₁.length) :
    l₁.take n = l₂.take n := by
  obtain ⟨r, rfl⟩ := h
  rw [List.take_append_of_le_length hn]

/-- the final loop state of a completed plain population: the array holds the first `N` accepted points, every
    slot was written exactly once, in increasing order -/
theorem plainLoop_final {z : Bool} {N : Nat} {t : Option EV} {bs : List (List Cand)} {us : List (List EV)}
    {st : PlainSt} (h : plainLoop z N t (PlainSt.init N) bs us = some st) (hc : st.crashed = false) :
    st.arr = ((plainStream t bs us).take N).map some ∧ N ≤ (plainStream t bs us).length ∧
      st.writes = List.range N ∧ N ≤ st.nAcc := by
  obtain ⟨post, hg, hN, hp⟩ := plainLoop_good z N t bs us _ [] st (good_init N) h hc
  simp only [List.nil_append] at hg hN
  have hz : N - post.length = 0 := by omega
  refine ⟨?_, Nat.le_trans hN hp.length_le, ?_, by rw [hg.nacc]; exact hN⟩
  · rw [hg.arr, hz, take_of_prefix hp hN]; simp
  · rw [hg.writes]; congr 1; omega

theorem populatePlain_eq {z : Bool} {N : Nat} {t : Option EV} {bs : List (List Cand)} {us : List (List EV)}
    {P : Population} (h : populatePlain z N t bs us = some P) (hc : P.crashed = false) :
    P.pool = ((plainStream t bs us).take N).map some ∧ N ≤ (plainStream t bs us).length ∧ P.llCalls = P.pool := by
  unfold populatePlain at h
  cases hl : plainLoop z N t (PlainSt.init N) bs us with
  | none => simp [hl] at h
  | some st =>
    simp only [hl, Option.map_some, Option.some.injEq] at h
    subst h
    obtain ⟨h1, h2, _, _⟩ := plainLoop_final hl hc
    refine ⟨?_, h2, rfl⟩
    simp only
    rw [h1]
    exact List.take_of_length_le (by simp; omega)

end NessaiVerif.Pool
