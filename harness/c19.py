"""C19 — saved results read back equal to the in-memory results."""
import copy
import math
import os
import random
import shutil
import struct
import tempfile
from types import SimpleNamespace

import numpy as np

from . import core
from . import c19_codec as cd
from . import c19_gen as g
from .c19_translate import Untranslatable, translate

PROPS_MODULE = "NessaiVerif.Props.C19"
MANIFEST = dict(
    text="Lean theorems over a value-tree model of nessai's writers (nessai/utils/io.py, FlowSampler.save_results/"
         "save_kwargs). The isinstance dispatch of NessaiJSONEncoder.default, the None sentinel of encode_for_hdf5, "
         "the extension table of save_results and the keys save_kwargs adds are regenerated from the source with "
         "`ast` on every run (Gen/Encode.lean) and the theorems are re-proved against them. JSON: for every tree with "
         "json-acceptable keys that are distinct as written in each dict and well-shaped arrays, save_to_json never "
         "raises and json.load (dicts built by assignment) returns the canonical form made of native values only "
         "(json_roundtrip; json_dispatch_matches_canon states that this is the generated dispatch carried through the "
         "recursion); the canonical form is pinned independently: plain trees read back identical, numpy int/float "
         "scalars -> the number with the same bit pattern, an array of any shape -> nested lists whose leaves are its "
         "elements in order, a 1-d array -> its flat list; the config file is readable for all kwargs with distinct "
         "string keys; counter-examples for a bad key, duplicate rendered keys ({1:..,'1':..}) and an ill-shaped tree. "
         "HDF5: hdf5_roundtrip is about the full writer the real code is tied to (h5WriteFull: numpy/h5py leaf "
         "conversion, then name linking, in write order): for nested dicts with distinct single-segment string keys, "
         "no empty sub-dict, no genuine sentinel string and writable leaves it succeeds, equals the container-level "
         "writer and reads back the same dict (None preserved at any depth) up to the leaf canonicalisation of h5py; "
         "`_fails_without` theorems for '/' keys, empty dict, the sentinel string, non-str key, None inside a list, "
         "ragged rows, opaque leaves. Extensions: the three spellings select the documented writer, anything else is "
         "rejected. Partial: structured arrays other than posterior_samples lose their field names in JSON (`_partial` "
         "theorem = known finding); np.bool_ -> str, '/' keys and the sentinel string are outside the property's "
         "quantifier: model, theorems and model==code boundary stream only, no oracle demand. ORACLE-ONLY (no theorem): "
         "the result-level clauses - which fields the real result dictionaries of both samplers hold and that they "
         "equal the in-memory results (log_evidence, error, nested samples, posterior samples, weights, insertion "
         "indices, history), and the posterior_samples -> dict-of-columns step of the JSON branch (model==code only). "
         "Tie: the real save_to_json / save_dict_to_hdf5 / FlowSampler.save_results / save_kwargs write generated "
         "trees (every value type of results and kwargs, live-point dtypes, 0-d/empty arrays, depth <= 4) and REAL "
         "result dictionaries of tiny standard and importance runs in json/hdf5/h5; files are read with json.load / "
         "h5py and compared token by token with the model (floats as bit patterns / exact values) and field by field "
         "with the in-memory values by an independent oracle.",
    note="Assumed, not proved (validated by the correspondence): the json text layer incl. float repr round trip, "
         "NaN/Infinity literals and member order, ndarray.tolist, str(obj), float(np.longdouble), numpy's list->array "
         "coercion, h5py's name normalisation, dtype support and `dataset[()]` (Model/EncodeLeaf.lean). nessai ships "
         "no HDF5 reader: the reader used is groups->dicts, datasets->values, bytes->str, '__none__'->None (the "
         "convention its tests document).",
    technique="Lean 4 proof (mutual structural induction over value trees; source-translated dispatch tables) + "
              "differential correspondence through temp files",
    ref="5/C19")

GEN_FILE = core.LEAN / "NessaiVerif" / "Gen" / "Encode.lean"
INFO = {}


# ------------------------------------------------------------------ translator
def gen(ctx):
    try:
        text, info = translate(core.REPO)
    except Untranslatable as e:
        ctx.broken("translator: nessai/utils/io.py / flowsampler.py no longer has the shape the C19 model is "
                   "generated from", str(e))
        return
    except (OSError, SyntaxError) as e:
        ctx.broken("translator: cannot read/parse the source", repr(e))
        return
    INFO.update(info)
    if not GEN_FILE.exists() or GEN_FILE.read_text() != text:
        GEN_FILE.write_text(text)
    ctx.extra["generated"] = {"file": "lean/NessaiVerif/Gen/Encode.lean", "io_sha256": info["io_sha"],
                              "flowsampler_sha256": info["fs_sha"],
                              "chain": [f"{t}->{a}" for t, a in info["chain"]], "fallback": info["fallback"],
                              "sentinel": info["sentinel"], "extensions": info["table"],
                              "kwargs_extra": info["extras"]}


# ------------------------------------------------------------------ token -> value (for replay)
class Opaque:
    def __init__(self, s):
        self.s = s

    def __str__(self):
        return self.s

    __repr__ = __str__


def _uncps(s):
    return "".join(chr(int(c)) for c in s.split(".")) if s else ""


def _unfloat(bits):
    return struct.unpack("<d", struct.pack("<Q", int(bits)))[0]


def _unvtok(t):
    if t in ("nan", "inf", "-inf"):
        return np.longdouble(t)
    m, e = t.split("e")
    return np.longdouble(int(m)) * np.longdouble(2) ** np.longdouble(int(e))


def untok(toks, i=0):
    t = toks[i]
    h = t.split(":")
    if t == "N":
        return None, i + 1
    if h[0] == "i":
        return int(h[1]), i + 1
    if h[0] == "f":
        return _unfloat(h[1]), i + 1
    if h[0] == "s":
        return _uncps(h[1]), i + 1
    if h[0] == "b":
        return h[1] == "1", i + 1
    if h[0] == "ni":
        return np.int64(int(h[1])) if -2 ** 63 <= int(h[1]) < 2 ** 63 else np.uint64(int(h[1])), i + 1
    if h[0] == "nf":
        if len(h) == 4:
            return _unvtok(h[3]), i + 1
        ty = {"e": np.float16, "f": np.float32, "d": np.float64, "g": np.longdouble}[h[1]]
        with np.errstate(all="ignore"):
            return ty(_unfloat(h[2])), i + 1
    if h[0] == "nb":
        return np.bool_(h[1] == "1"), i + 1
    if h[0] == "ns":
        return np.str_(_uncps(h[1])), i + 1
    if h[0] == "o":
        return Opaque(_uncps(h[1])), i + 1
    if t in ("L", "T"):
        n, i, xs = int(toks[i + 1]), i + 2, []
        for _ in range(n):
            x, i = untok(toks, i)
            xs.append(x)
        return (xs if t == "L" else tuple(xs)), i
    if t == "D":
        n, i, d = int(toks[i + 1]), i + 2, {}
        for _ in range(n):
            k = toks[i].split(":")
            key = {"ks": lambda: _uncps(k[1]), "ki": lambda: int(k[1]), "kb": lambda: k[1] == "1",
                   "kn": lambda: None, "kx": lambda: (0, 0)}[k[0]]()
            v, i = untok(toks, i + 1)
            d[key] = v
        return d, i
    if t == "A":
        dt, nd = toks[i + 1], int(toks[i + 2])
        shape = tuple(int(x) for x in toks[i + 3:i + 3 + nd])
        n, i, xs = int(toks[i + 3 + nd]), i + 4 + nd, []
        for _ in range(n):
            x, i = untok(toks, i)
            xs.append(x)
        dtype = {"i": "i8", "f": "f8", "b": "bool", "u": "U", "o": object}[dt]
        if dt == "o":
            a = np.empty(n, dtype=object)
            a[:] = xs
        else:
            a = np.array(xs, dtype=dtype) if (dt != "u" or xs) else np.array(xs, dtype="U1")
        return a.reshape(shape), i
    if t == "S":
        nf = int(toks[i + 1])
        names = [_uncps(x.split(":")[1]) for x in toks[i + 2:i + 2 + nf]]
        nr, nc, i, xs = int(toks[i + 2 + nf]), int(toks[i + 3 + nf]), i + 4 + nf, []
        for _ in range(nc):
            x, i = untok(toks, i)
            xs.append(x)
        cols = [xs[j::nf] for j in range(nf)]
        dt = [(n, "i4" if (c and all(isinstance(v, int) for v in c)) or (not c and n == "it") else "f8")
              for n, c in zip(names, cols)]
        a = np.zeros(nr, dtype=dt)
        for n, c in zip(names, cols):
            a[n] = c
        return a, i
    raise ValueError("bad token " + t)


def from_tokens(s):
    v, i = untok(s.split(" "))
    return v


# ------------------------------------------------------------------ running the real writers
class Run:
    """one check run: temp dir, collected model lines, oracle bookkeeping"""

    def __init__(self, ctx):
        self.ctx = ctx
        self.tmp = tempfile.mkdtemp(prefix="c19-")
        self.lines, self.impls, self.cases = [], [], []
        self.reported = {}
        self.n = 0

    def path(self, name):
        self.n += 1
        return os.path.join(self.tmp, f"{self.n}-{name}")

    def close(self):
        shutil.rmtree(self.tmp, ignore_errors=True)

    def add(self, line, impl, case):
        self.lines.append(line)
        self.impls.append(impl)
        self.cases.append(case)

    def fail(self, key, what, case):
        k = self.reported.get(key, 0)
        self.reported[key] = k + 1
        if k < 3:
            self.ctx.oracle_fail(key, what, case)

    def report(self, mm, case, shrinker=None):
        seen = set()
        for key, what in mm.items:
            if key in seen:
                continue
            seen.add(key)
            c = dict(case)
            if shrinker is not None and self.reported.get(key, 0) == 0:
                res = shrinker(key)
                if res is not None:
                    small, small_what = res
                    c["minimal"] = {"repr": cd._short(small), "tokens": cd.tokens(small), "what": small_what}
            self.fail(key, what, c)


def impl_json(run, obj):
    from nessai.utils.io import save_to_json
    p = run.path("t.json")
    try:
        save_to_json(obj, p)
    except Exception as e:  # noqa
        return cd.exc_tok(e), None, e
    try:
        r = cd.read_json(p)
    except Exception as e:  # noqa
        return "unreadable", None, e
    finally:
        os.remove(p)
    return "ok " + cd.json_tokens(r), r, None


def impl_h5(run, obj):
    from nessai.utils.io import save_dict_to_hdf5
    p = run.path("t.h5")
    try:
        save_dict_to_hdf5(obj, p)
    except Exception as e:  # noqa
        if os.path.exists(p):
            os.remove(p)
        return cd.exc_tok(e), None, e
    try:
        r = cd.read_h5(p)
    except Exception as e:  # noqa
        return "unreadable", None, e
    finally:
        os.remove(p)
    return "ok " + cd.h5_tokens(r), r, None


def json_in_scope(v):
    """the JSON oracle's domain: keys the json module documents (str, int, bool, None), unique after conversion"""
    if isinstance(v, dict):
        ks = []
        for k in v:
            if not (isinstance(k, (str, int, bool)) or k is None) or isinstance(k, np.generic) and not isinstance(k, str):
                return False
            ks.append(k if isinstance(k, str) else {True: "true", False: "false", None: "null"}[k]
                      if isinstance(k, bool) or k is None else str(k))
        return len(set(ks)) == len(ks) and all(json_in_scope(x) for x in v.values())
    if isinstance(v, (list, tuple)):
        return all(json_in_scope(x) for x in v)
    if isinstance(v, np.ndarray) and v.dtype.kind == "O":
        return all(json_in_scope(x) for x in v.reshape(-1))
    return True


def h5_in_scope(v, top=True):
    """the HDF5 oracle's domain: the value types that occur in results (no arbitrary objects, no np.str_, no
    embedded NUL, ints that fit 64 bits, homogeneous str-or-number sequences), keys = non-empty str without '/'
    other than '.', no string equal to the None sentinel (adversarial keys/strings are not result value types:
    they are exercised in the boundary stream for model == code only)"""
    if isinstance(v, dict):
        return all(isinstance(k, str) and not isinstance(k, np.str_) and k not in ("", ".") and "/" not in k
                   and "\x00" not in k and h5_in_scope(x, False) for k, x in v.items())
    if v is None or isinstance(v, (bool, np.bool_, float, np.integer, np.floating)):
        return True
    if isinstance(v, np.str_):
        return False
    if isinstance(v, str):
        return "\x00" not in v and v != cd.SENTINEL
    if isinstance(v, int):
        return -2 ** 63 <= v < 2 ** 63
    if isinstance(v, np.ndarray):
        return v.dtype.kind in "biuf" or (v.dtype.names is not None and v.ndim == 1)
    if isinstance(v, (list, tuple)):
        flat = []

        def walk(s):
            for x in s:
                if isinstance(x, (list, tuple)):
                    walk(x)
                elif isinstance(x, np.ndarray):
                    flat.append(0.0 if x.dtype.kind in "biuf" else object)
                else:
                    flat.append(x)
        walk(v)
        if any(isinstance(x, (dict, np.str_)) or x is object or cd._is_opaque(x) for x in flat):
            return False
        strs = [isinstance(x, str) for x in flat]
        if any(strs):
            return all(s or x is None for s, x in zip(strs, flat)) and \
                all("\x00" not in x and x != cd.SENTINEL for x in flat if isinstance(x, str))
        return all(not isinstance(x, int) or isinstance(x, bool) or abs(x) < 2 ** 53 for x in flat)
    return False


def shrink(obj, still_fails):
    """greedy: drop dict entries / list elements while the same finding is still produced"""
    def attempt(o):
        try:
            return still_fails(o)
        except Exception:  # noqa
            return False

    changed = True
    budget = 200
    while changed and budget > 0:
        changed = False
        for path, parent, key in list(_slots(obj)):
            budget -= 1
            if budget <= 0:
                break
            if isinstance(parent, dict):
                saved = parent.pop(key)
                if attempt(obj):
                    changed = True
                    break
                # re-insert at the end is fine for the oracle (order is not part of the findings)
                parent[key] = saved
            elif isinstance(parent, list) and len(parent) > 1:
                saved = parent.pop(key)
                if attempt(obj):
                    changed = True
                    break
                parent.insert(key, saved)
    return obj


def _slots(o, path=()):
    if isinstance(o, dict):
        for k in list(o):
            yield path + (k,), o, k
            yield from _slots(o[k], path + (k,))
    elif isinstance(o, list):
        for i in range(len(o)):
            yield path + (i,), o, i
            yield from _slots(o[i], path + (i,))


def _copy(o):
    if isinstance(o, dict):
        return {k: _copy(v) for k, v in o.items()}
    if isinstance(o, list):
        return [_copy(v) for v in o]
    return o


def check_json(run, obj, case, site="save_to_json", oracle=True):
    line = "enc json " + cd.tokens(obj)
    out, r, exc = impl_json(run, obj)
    run.add(line, out, case)
    if not oracle or not json_in_scope(obj):
        return out
    if exc is not None:
        run.fail(f"{site}:{'unreadable' if out == 'unreadable' else 'raised'}",
                 f"{type(exc).__name__}: {exc}", case)
        return out
    mm = cd.Mismatch(site)
    cd.same_json(obj, r, [], mm)

    def findings(o):
        _, r2, e2 = impl_json(run, o)
        m2 = cd.Mismatch(site)
        if e2 is None:
            cd.same_json(o, r2, [], m2)
        return m2

    def shrinker(key):
        small = shrink(_copy(obj), lambda o: any(k == key for k, _ in findings(o).items))
        return small, next((w for k, w in findings(small).items if k == key), None)
    run.report(mm, case, shrinker)
    return out


def check_h5(run, obj, case, site="save_dict_to_hdf5", oracle=True):
    line = "enc h5 " + cd.tokens(obj)
    out, r, exc = impl_h5(run, obj)
    run.add(line, out, case)
    if not oracle or not h5_in_scope(obj):
        return out

    def findings(o):
        _, r2, e2 = impl_h5(run, o)
        m2 = cd.Mismatch(site)
        if e2 is not None:
            m2.add(cd.find_h5_culprit(o) or "raised", [], f"{type(e2).__name__}: {e2}")
        else:
            cd.same_h5(o, r2, [], m2)
        return m2

    mm = cd.Mismatch(site)
    if exc is not None:
        mm.add("unreadable" if out == "unreadable" else (cd.find_h5_culprit(obj) or "raised"), [],
               f"{type(exc).__name__}: {exc}")
    else:
        cd.same_h5(obj, r, [], mm)

    def shrinker(key):
        small = shrink(_copy(obj), lambda o: any(k == key for k, _ in findings(o).items))
        return small, next((w for k, w in findings(small).items if k == key), None)
    run.report(mm, case, shrinker)
    return out


# ------------------------------------------------------------------ save_results / save_kwargs level
def stub_sampler(d, post, init_post):
    s = SimpleNamespace(ns=SimpleNamespace(get_result_dictionary=lambda: dict(d)), posterior_samples=post)
    if init_post is not None:
        s.initial_posterior_samples = init_post
    return s


def detect_format(path):
    import h5py
    if h5py.is_hdf5(path):
        return "hdf5"
    try:
        cd.read_json(path)
        return "json"
    except Exception:  # noqa
        return "unknown"


def run_save_results(run, sampler, stem, file_ext, extension):
    """real FlowSampler.save_results -> (canonical ext answer, path written or None, exception)"""
    from nessai.flowsampler import FlowSampler
    d = run.path("res")
    # every other output directory has dots in its NAME (run_v1.2, ./outdir): the extension is a property of the file
    # name, not of the path (seeded change C19-d: "a dot anywhere in the path")
    run._dotted = not getattr(run, "_dotted", False)
    if run._dotted:
        d = d + "_v1.2.d"
    os.makedirs(d)
    filename = os.path.join(d, stem + ("." + file_ext if file_ext else ""))
    try:
        FlowSampler.save_results(sampler, filename, extension)
    except Exception as e:  # noqa
        return cd.exc_tok(e), None, e
    files = os.listdir(d)
    if len(files) != 1:
        return f"files={sorted(files)}", None, None
    written = os.path.join(d, files[0])
    appended = extension is not None and files[0] == os.path.basename(filename) + "." + extension \
        and files[0] != os.path.basename(filename)
    if not appended and files[0] != os.path.basename(filename):
        return f"files={files}", written, None
    return f"{detect_format(written)} {int(appended)}", written, None


def check_results(run, d, post, init_post, file_ext, extension, case, oracle=True):
    full = dict(d)
    full["posterior_samples"] = post
    if init_post is not None:
        full["initial_posterior_samples"] = init_post
    ans, written, exc = run_save_results(run, stub_sampler(d, post, init_post), "result", file_ext, extension)
    run.add(f"enc ext {file_ext or '-'} {'none' if extension is None else (extension or '-')}", ans, case)
    sel = extension if extension is not None else file_ext
    if written is None:
        if exc is not None and not isinstance(exc, RuntimeError):
            # the writer itself raised: same classes as the direct calls
            fmt = {"json": "json", "hdf5": "hdf5", "h5": "hdf5"}.get(sel)
            run.lines.pop(), run.impls.pop(), run.cases.pop()
            if fmt == "hdf5":
                run.add(f"enc results {sel} " + cd.tokens(full), "hdf5 " + cd.exc_tok(exc), case)
                if oracle and h5_in_scope(full):
                    mm = cd.Mismatch("FlowSampler.save_results[hdf5]")
                    mm.add(cd.find_h5_culprit(full) or "raised", [], f"{type(exc).__name__}: {exc}")
                    run.report(mm, case)
            elif fmt == "json":
                run.add(f"enc results {sel} " + cd.tokens(full), "json " + cd.exc_tok(exc), case)
                if oracle and json_in_scope(full):
                    run.fail("FlowSampler.save_results:raised", f"{type(exc).__name__}: {exc}", case)
        elif oracle and sel in ("json", "hdf5", "h5") and (extension is not None or file_ext):
            run.fail("FlowSampler.save_results:extension", f"extension {sel!r} rejected: {exc}", case)
        return
    fmt = ans.split(" ")[0]
    want_fmt = {"json": "json", "hdf5": "hdf5", "h5": "hdf5"}.get(sel)
    if oracle and want_fmt is not None:
        want_name = "result." + (file_ext if file_ext else extension)
        if fmt != want_fmt:
            run.fail("FlowSampler.save_results:extension", f"extension {sel!r} produced a {fmt} file", case)
        if os.path.basename(written) != want_name:
            run.fail("FlowSampler.save_results:filename", f"wrote {os.path.basename(written)!r}, documented {want_name!r}", case)
    if fmt == "json":
        r = cd.read_json(written)
        run.add(f"enc results {sel} " + cd.tokens(full), "json ok " + cd.json_tokens(r), case)
        if oracle and json_in_scope(full):
            mm = cd.Mismatch("FlowSampler.save_results[json]")
            cd.same_json(full, r, [], mm)
            run.report(mm, case)
    elif fmt == "hdf5":
        r = cd.read_h5(written)
        run.add(f"enc results {sel} " + cd.tokens(full), "hdf5 ok " + cd.h5_tokens(r), case)
        if oracle and h5_in_scope(full):
            mm = cd.Mismatch("FlowSampler.save_results[hdf5]")
            cd.same_h5(full, r, [], mm)
            run.report(mm, case)
    shutil.rmtree(os.path.dirname(written), ignore_errors=True)


def check_kwargs(run, kwargs, eps, torch_dtype, ins, case):
    from nessai.flowsampler import FlowSampler
    out_dir = run.path("cfg")
    os.makedirs(out_dir)
    attrs = {"eps": eps, "torch_dtype": torch_dtype, "importance_nested_sampler": ins}
    stub = SimpleNamespace(output=os.path.join(out_dir, ""), **attrs)
    extras = INFO.get("extras") or [("eps", "eps"), ("torch_dtype", "torch_dtype"), ("importance_sampler", "importance_nested_sampler")]
    vals = [attrs.get(a) for _, a in extras]
    line = f"enc kwargs {len(vals)} " + " ".join(cd.tokens(v) for v in vals) + " " + cd.tokens(kwargs)
    p = os.path.join(out_dir, "config.json")
    try:
        FlowSampler.save_kwargs(stub, kwargs)
    except Exception as e:  # noqa
        run.add(line, cd.exc_tok(e), case)
        if json_in_scope(kwargs):
            run.fail("FlowSampler.save_kwargs:raised", f"{type(e).__name__}: {e}", case)
        return
    try:
        r = cd.read_json(p)
    except Exception as e:  # noqa
        run.add(line, "unreadable", case)
        run.fail("FlowSampler.save_kwargs:unreadable", f"config.json cannot be read with json.load: {e!r}", case)
        return
    finally:
        shutil.rmtree(out_dir, ignore_errors=True)
    run.add(line, "ok " + cd.json_tokens(r), case)
    if not json_in_scope(kwargs):
        return
    want = [k if isinstance(k, str) else str(k) for k in kwargs]
    missing = [k for k in want + ["eps", "torch_dtype", "importance_sampler"] if k not in r]
    if not isinstance(r, dict) or missing:
        run.fail("FlowSampler.save_kwargs:missing-key", f"config.json lacks {missing}", case)
        return
    # values that are plain JSON must be unchanged; the rest only has to be present
    for k, v in kwargs.items():
        if isinstance(k, str) and (v is None or isinstance(v, (bool, int, float, str))) and not isinstance(v, np.generic):
            mm = cd.Mismatch("FlowSampler.save_kwargs")
            cd.same_json(v, r[k], [k], mm)
            run.report(mm, case)


# ------------------------------------------------------------------ real result dictionaries
def make_model(truth):
    from nessai.model import Model

    class Gaussian(Model):
        def __init__(self):
            self.names = ["x", "y"]
            self.bounds = {"x": [-5, 5], "y": [-5, 5]}
            if truth:
                self.truth = {"x": 0.0, "y": np.float64(0.0)}

        def log_prior(self, x):
            return np.log(self.in_bounds(x), dtype="float") - 2 * np.log(10)

        def log_likelihood(self, x):
            # computed in float64 whatever the precision of the live points (with float32 live points the stored logL — a
            # float64 field — then holds values no float32 can)
            a, b = np.asarray(x["x"], dtype=np.float64), np.asarray(x["y"], dtype=np.float64)
            return -0.5 * (a ** 2 + b ** 2) / 1.1

        def to_unit_hypercube(self, x):
            y = x.copy()
            for n in self.names:
                y[n] = (x[n] + 5) / 10
            return y

        def from_unit_hypercube(self, x):
            y = x.copy()
            for n in self.names:
                y[n] = x[n] * 10 - 5
            return y
    return Gaussian()


def real_run(run, ins, seed, ext, truth):
    """a tiny real run -> the FlowSampler (results in memory) and the file it saved itself"""
    from nessai.flowsampler import FlowSampler
    out = run.path("real") + ("_v1.2" if seed % 2 else "")       # a dot in the name of the output directory is legal
    kw = dict(nlive=50, plot=False, seed=seed, flow_config=dict(n_blocks=2, n_neurons=4),
              training_config=dict(max_epochs=5))
    if ins:
        kw.update(min_samples=10, max_iteration=3)
    else:
        kw.update(max_iteration=200)
    kw0 = copy.deepcopy(kw)   # nessai fills in flow_config in place after the configuration file is written
    fs = FlowSampler(make_model(truth), output=out, importance_nested_sampler=ins, resume=False, signal_handling=False,
                     result_extension=ext, **kw)
    # run() saves through self.save_results: an exception there is a finding about saving, not about sampling
    orig, errs = fs.save_results, []

    def guarded(*a, **k):
        if not ins and seed % 2 == 1 and not getattr(fs, "_c19_scaled", False):
            # insertion indices as large as a run with more than 65535 live points produces them (index j shifted by
            # 65536 (j mod 3)): what is held in memory at save time must come back from the file, whatever its magnitude
            # (seeded change C19-eA: the result dictionary stored them as uint16)
            fs._c19_scaled = True
            fs.ns.insertion_indices = [np.int64(int(v) + 65536 * (j % 3)) for j, v in enumerate(fs.ns.insertion_indices)]
        try:
            return orig(*a, **k)
        except Exception as e:  # noqa
            errs.append(e)
    fs.save_results = guarded
    fs.run(plot=False, save=True)
    del fs.save_results
    for e in errs:
        run.fail("FlowSampler.run:save_results-raised", f"result_extension={ext!r}: {type(e).__name__}: {e}",
                 {"stream": "real", "ins": ins, "seed": seed, "truth": truth, "format": ext})
    return fs, os.path.join(out, "result." + ext), os.path.join(out, "config.json"), kw0


def in_memory_fields(fs, ins):
    """the results as the user holds them after run(), by the names they are saved under"""
    m = {"log_evidence": fs.log_evidence, "log_evidence_error": fs.log_evidence_error,
         "posterior_samples": fs.posterior_samples, "history": fs.ns.history}
    if ins:
        m["samples"] = fs.nested_samples
        m["log_posterior_weights"] = fs.ns.final_log_posterior_weights
    else:
        m["nested_samples"] = fs.nested_samples
        m["log_posterior_weights"] = fs.ns.state.log_posterior_weights
        m["insertion_indices"] = fs.ns.insertion_indices
    return m


def check_real(run, ins, seed, own_ext, truth):
    ctx = run.ctx
    tag = "ImportanceNestedSampler" if ins else "NestedSampler"
    fs, own_file, cfg, kw = real_run(run, ins, seed, own_ext, truth)
    ctx.traces += 1
    d = fs.ns.get_result_dictionary()
    full = dict(d)
    full["posterior_samples"] = fs.posterior_samples
    if hasattr(fs, "initial_posterior_samples"):
        full["initial_posterior_samples"] = fs.initial_posterior_samples
    fields = in_memory_fields(fs, ins)
    base = {"stream": "real", "ins": ins, "seed": seed, "truth": truth}

    def compare(path, fmt, how):
        case = dict(base, file=how, format=fmt)
        site = f"FlowSampler.save_results[{fmt}]"
        if not os.path.exists(path):
            run.fail(site + ":missing-file", f"{how}: no file {os.path.basename(path)}", case)
            return
        if detect_format(path) != fmt:
            run.fail("FlowSampler.save_results:extension", f"{how}: file is {detect_format(path)}, documented {fmt}", case)
            return
        r = cd.read_json(path) if fmt == "json" else cd.read_h5(path)
        same = cd.same_json if fmt == "json" else cd.same_h5
        mm = cd.Mismatch(site, real=True)
        for k, v in fields.items():
            if k not in r:
                mm.add("missing-field", [k], f"{tag} result has no {k!r}")
            else:
                same(v, r[k], [k], mm)
        same(full, r, [], mm)
        run.report(mm, case)
        ext = os.path.splitext(path)[1].lstrip(".")
        toks = cd.json_tokens(r) if fmt == "json" else cd.h5_tokens(r)
        run.add(f"enc results {ext} " + cd.tokens(full), f"{fmt} ok " + toks, case)
        ctx.case(("real", ins, seed, how), True, None, kind=f"real:{tag}:{ext}")

    compare(own_file, {"json": "json", "hdf5": "hdf5", "h5": "hdf5"}[own_ext], f"run(save=True), result_extension={own_ext!r}")
    for ext in ("json", "hdf5", "h5"):
        fmt = "json" if ext == "json" else "hdf5"
        d1 = run.path("again")
        os.makedirs(d1)
        try:
            fs.save_results(os.path.join(d1, "result"), extension=ext)
            fs.save_results(os.path.join(d1, "result"), extension=ext)   # a re-run overwrites the previous file
            compare(os.path.join(d1, "result." + ext), fmt, f"save_results('result', extension={ext!r})")
            fs.save_results(os.path.join(d1, "named." + ext))
            compare(os.path.join(d1, "named." + ext), fmt, f"save_results('named.{ext}')")
        except Exception as e:  # noqa
            run.fail(f"FlowSampler.save_results[{fmt}]:raised", f"{type(e).__name__}: {e}", dict(base, ext=ext))
        shutil.rmtree(d1, ignore_errors=True)
    # the configuration file written at start-up
    case = dict(base, file="config.json")
    try:
        r = cd.read_json(cfg)
        missing = [k for k in list(kw) + ["eps", "torch_dtype", "importance_sampler"] if k not in r]
        if missing:
            run.fail("FlowSampler.save_kwargs:missing-key", f"config.json lacks {missing}", case)
        mm = cd.Mismatch("FlowSampler.save_kwargs")
        cd.same_json(kw, {k: r.get(k) for k in kw}, [], mm)
        run.report(mm, case)
    except Exception as e:  # noqa
        run.fail("FlowSampler.save_kwargs:unreadable", f"config.json cannot be read with json.load: {e!r}", case)
    ctx.case(("real-config", ins, seed), True, None, kind="real:config.json")
    shutil.rmtree(os.path.dirname(own_file), ignore_errors=True)


# ------------------------------------------------------------------ the check
def sub_rng(ctx):
    s = ctx.rng.getrandbits(64)
    return s, random.Random(s)


def nontrivial(obj):
    """a tree is non-trivial when it holds at least one value the json module / h5py cannot take as is
    (numpy value, None, tuple, nested dict, non-finite float, object)"""
    def walk(v):
        if isinstance(v, dict):
            return any(walk(x) or isinstance(x, dict) for x in v.values())
        if isinstance(v, (list,)):
            return any(walk(x) for x in v)
        if isinstance(v, float):
            return not math.isfinite(v)
        return not isinstance(v, (str, int, bool))
    return walk(obj)


def kinds_of(obj, acc):
    if isinstance(obj, dict):
        acc.add("dict" if obj else "empty-dict")
        for v in obj.values():
            kinds_of(v, acc)
    elif isinstance(obj, (list, tuple)):
        acc.add(type(obj).__name__)
        for v in obj:
            kinds_of(v, acc)
    elif isinstance(obj, np.ndarray):
        acc.add("structured" if obj.dtype.names else f"ndarray{obj.ndim}d" + ("-empty" if obj.size == 0 else ""))
    elif isinstance(obj, float):
        acc.add("float" if math.isfinite(obj) else "nonfinite")
    elif isinstance(obj, np.generic):
        acc.add(type(obj).__name__)
    elif obj is None or isinstance(obj, (str, int, bool)):
        acc.add(type(obj).__name__)
    else:
        acc.add("object")


def generated_streams(ctx, run):
    n = ctx.scale(1500, 12000)
    for i in range(n):
        s, rng = sub_rng(ctx)
        prof = "results weak" if i % 10 == 0 else "results"
        t = g.tree(rng, rng.choice([0, 1, 2, 3]), prof)
        ks = set()
        kinds_of(t, ks)
        for k in ks:
            ctx.hist["type:" + k] += 1
        case = {"stream": "tree", "sub": s, "profile": prof, "repr": cd._short(t), "tokens": cd.tokens(t)}
        oj = check_json(run, t, dict(case, op="json"))
        oh = check_h5(run, t, dict(case, op="h5"))
        ctx.case(("tree", case["tokens"]), nontrivial(t), case if len(case["tokens"]) < 400 else None,
                 kind="tree:" + ("weak" if "weak" in prof else "results") + (":h5-err" if oh.startswith("err") else ""))
    for i in range(ctx.scale(400, 4000)):
        s, rng = sub_rng(ctx)
        t = g.tree(rng, rng.choice([1, 2, 3]), "kwargs json-only")
        case = {"stream": "json-objects", "sub": s, "repr": cd._short(t), "tokens": cd.tokens(t), "op": "json"}
        check_json(run, t, case)
        ctx.case(("jtree", case["tokens"]), nontrivial(t), case if len(case["tokens"]) < 400 else None, kind="tree:with-objects")


def results_stream(ctx, run):
    exts = [("", "json"), ("", "hdf5"), ("", "h5"), ("json", None), ("hdf5", None), ("h5", None)]
    for i in range(ctx.scale(240, 2400)):
        s, rng = sub_rng(ctx)
        d = g.tree(rng, rng.choice([1, 2, 3]), "results")
        post = g.structured_array(rng)
        init = g.structured_array(rng) if rng.random() < 0.3 else None
        fe, ext = exts[i % len(exts)]
        case = {"stream": "results", "sub": s, "file_ext": fe, "extension": ext, "repr": cd._short(d)}
        check_results(run, d, post, init, fe, ext, case)
        ctx.case(("results", s), True, None, kind=f"save_results:{fe or '-'}:{ext}")
    # the extension grid on a tiny dictionary (every combination, incl. rejected ones)
    post = np.zeros(2, dtype=g.live_dtype(["x"]))
    for fe in ["", "json", "hdf5", "h5", "txt", "v1", "JSON"]:
        for ext in [None, "json", "hdf5", "h5", "txt", "JSON", "hdf", ""]:
            case = {"stream": "ext-grid", "file_ext": fe, "extension": ext}
            check_results(run, {"log_evidence": -1.5}, post, None, fe, ext, case)
            ctx.case(("ext", fe, ext), True, case, kind="ext-grid")


def kwargs_stream(ctx, run):
    import torch
    for i in range(ctx.scale(500, 5000)):
        s, rng = sub_rng(ctx)
        kw = g.kwargs_tree(rng)
        eps = rng.choice([None, 1e-8, np.float64(1e-12)])
        td = rng.choice([torch.float32, torch.float64, None, "float64"])
        ins = rng.random() < 0.5
        case = {"stream": "kwargs", "sub": s, "repr": cd._short(kw)}
        check_kwargs(run, kw, eps, td, ins, case)
        ctx.case(("kwargs", cd.tokens(kw)), len(kw) > 0, case if len(case["repr"]) < 300 else None, kind="save_kwargs")
    g.close_pools()


def corpus_stream(ctx, run):
    d = core.VERIF / "corpus" / "C19"
    if not d.exists():
        return
    for p in sorted(d.glob("*.ops")):
        for ln in p.read_text().splitlines():
            ln = ln.strip()
            if not ln or ln.startswith("#"):
                continue
            op, toks = ln.split(" ", 1)
            t = from_tokens(toks)
            case = {"stream": "corpus", "op": op, "repr": cd._short(t), "tokens": toks}
            (check_h5 if op == "h5" else check_json)(run, t, case)
            ctx.case(("corpus", ln), True, None, kind="corpus")


def boundary_stream(ctx, run):
    s, rng = sub_rng(ctx)
    for i, t in enumerate(g.boundary_trees(rng)):
        case = {"stream": "boundary", "sub": s, "index": i, "repr": cd._short(t), "tokens": cd.tokens(t)}
        oj = check_json(run, t, dict(case, op="json"))
        oh = check_h5(run, t, dict(case, op="h5"))
        ctx.case(("boundary", case["tokens"]), True, case if i < 45 else None,
                 kind="boundary:json-" + oj.split(" ")[0] + ":h5-" + oh.split(" ")[0])
    # save_kwargs with keys the json module refuses
    for kw in ({np.int64(1): 2}, {"a": {(1, 2): 3}}, {3: g.SomeFlow, "pool": g.FakePool()}):
        check_kwargs(run, kw, None, None, False, {"stream": "boundary-kwargs", "repr": cd._short(kw)})
        ctx.case(("bkw", repr(sorted(map(str, kw)))), True, None, kind="boundary:kwargs")


def real_streams(ctx, run):
    plan = [(False, "hdf5", True), (True, "json", False), (False, "json", False), (True, "h5", True)]
    if not ctx.quick:
        plan += [(False, "h5", False), (True, "hdf5", False)] * 3
    # one standard run with the documented non-default live-point precision (default_float_dtype = float32; logL stays
    # float64): what is held in memory must come back from the JSON file field by field (seeded change C19-hB converted every
    # float field of the posterior samples with the default dtype)
    plan += [(False, "json", "f4")]
    for ins, ext, truth in plan:
        seed = ctx.rng.randrange(1, 2 ** 31)
        try:
            if truth == "f4":
                from nessai import config as nconfig
                old_dt = nconfig.livepoints.default_float_dtype
                nconfig.livepoints.default_float_dtype = "f4"
                nconfig.livepoints.reset_properties()
                try:
                    check_real(run, ins, seed, ext, False)
                finally:
                    nconfig.livepoints.default_float_dtype = old_dt
                    nconfig.livepoints.reset_properties()
                continue
            check_real(run, ins, seed, ext, truth)
        except Exception as e:  # noqa: a real run (or building / saving its results) that raises is a finding, not a harness problem
            import traceback
            run.fail("FlowSampler.run:real-run-raised", f"real {'INS' if ins else 'standard'} run with result_extension={ext!r} raised "
                     f"{type(e).__name__}: {e}", {"stream": "real", "ins": ins, "seed": seed, "truth": truth, "format": ext,
                                                  "where": traceback.format_exc()[-800:]})


def correspond(ctx):
    ctx.rule = ("generated value trees (dict depth <= 4; None, bool, int, finite/NaN/inf/-0.0/subnormal/timedelta-derived "
                "floats, str, numpy int/float16/32/64/longdouble/bool scalars, 0-d/empty/1-3-d float/int/bool arrays, "
                "structured arrays with nessai's live-point dtype (0-4 rows), lists of numbers/strings/arrays, tuples, "
                "non-serialisable objects) written by the real save_to_json and save_dict_to_hdf5, by "
                "FlowSampler.save_results (stub sampler; all extension spellings + a rejected-extension grid) and "
                "FlowSampler.save_kwargs (pools, classes, callbacks, numpy values), read back with json.load / h5py and "
                "compared token by token with the Lean model; plus a boundary stream (non-str keys, '/', '', '.' keys, "
                "the sentinel string, NUL, ragged and None-holding lists, empty dicts, 2**70, np.str_) and the REAL result "
                "dictionaries of a tiny standard and a tiny importance run in json/hdf5/h5; non-trivial = distinct tree "
                "holding at least one value that json/h5py cannot take as is")
    ctx.assume("json text layer: dumps/loads of native values is the identity incl. float repr round trip and NaN/Infinity",
               "ndarray.tolist / str(obj) / float(np.longdouble) as numpy and Python define them",
               "h5py: name normalisation, automatic intermediate groups, list->array coercion, dtype support, dataset[()] "
               "(modelled in Model/EncodeLeaf.lean, validated here)",
               "a Python dict has distinct keys; circular references are not representable as trees",
               "HDF5 reader convention (nessai has none): groups->dicts, bytes->str, '__none__'->None")
    ctx.trust("translator harness/c19_translate.py (ast shape matching of default/encode_for_hdf5/add_dict_to_hdf5_file/"
              "save_dict_to_hdf5/save_to_json/save_results/save_kwargs; unknown shape = broken tie)",
              "hand-written value-tree model Model/Encode.lean; tie = this correspondence")
    if not INFO:
        try:
            INFO.update(translate(core.REPO)[1])
        except Exception:  # noqa
            pass
    run = Run(ctx)
    try:
        if ctx.model_ok:
            ctx.extra["model_dispatch"] = ctx.model(["enc chain"])[0]
        corpus_stream(ctx, run)
        boundary_stream(ctx, run)
        generated_streams(ctx, run)
        results_stream(ctx, run)
        kwargs_stream(ctx, run)
        real_streams(ctx, run)
        ctx.diff_model(run.lines, run.impls, run.cases)
        ctx.extra["files_written_and_read_back"] = run.n
    finally:
        run.close()


def search(ctx):
    """a tie/proof broke and the oracle has not failed yet: enlarge the generated streams (time-boxed)"""
    import time
    t0 = time.time()
    run = Run(ctx)
    try:
        while not ctx.fails and time.time() - t0 < ctx.scale(60, 600):
            generated_streams(ctx, run)
            results_stream(ctx, run)
            kwargs_stream(ctx, run)
            run.lines, run.impls, run.cases = [], [], []
    finally:
        run.close()


def replay(ctx, obj):
    c = obj.get("case") or {}
    if "case" in c and "line" in c:   # a recorded model/implementation disagreement
        c = c["case"]
    run = Run(ctx)
    try:
        if not INFO:
            try:
                INFO.update(translate(core.REPO)[1])
            except Exception:  # noqa
                pass
        src = (c.get("minimal") or {}).get("tokens") or c.get("tokens")
        if c.get("stream") == "real":
            check_real(run, c["ins"], c["seed"], "json" if c.get("format") == "json" else "hdf5", c.get("truth", False))
        elif c.get("stream") == "results":
            rng = random.Random(c["sub"])
            d = g.tree(rng, rng.choice([1, 2, 3]), "results")
            post = g.structured_array(rng)
            init = g.structured_array(rng) if rng.random() < 0.3 else None
            check_results(run, d, post, init, c["file_ext"], c["extension"], c)
        elif c.get("stream") == "ext-grid":
            post = np.zeros(2, dtype=g.live_dtype(["x"]))
            check_results(run, {"log_evidence": -1.5}, post, None, c["file_ext"], c["extension"], c)
        elif c.get("stream") == "kwargs":
            import torch
            rng = random.Random(c["sub"])
            kw = g.kwargs_tree(rng)
            eps = rng.choice([None, 1e-8, np.float64(1e-12)])
            td = rng.choice([torch.float32, torch.float64, None, "float64"])
            check_kwargs(run, kw, eps, td, rng.random() < 0.5, c)
        elif src:
            t = from_tokens(src)
            if c.get("op") == "h5":
                check_h5(run, t, c)
            else:
                check_json(run, t, c)
        else:
            correspond(ctx)
            return
        ctx.case(("replay", repr(c)[:200]), True, None, kind="replay")
        ctx.diff_model(run.lines, run.impls, run.cases)
    finally:
        run.close()
