"""pyarr2lean — Python-`ast` → Lean 4 translator for straight-line NumPy ARRAY code (slicing, indexing, searchsorted).

Companion of py2lean.py (integer/boolean decision logic).  It turns the body of a small method that shuffles
one-dimensional arrays (e.g. `NestedSampler.insert_live_point`) into a Lean `def` in the `Except Py.Err` monad over
the Python/NumPy indexing semantics of `lean/NessaiVerif/Model/PySlice.lean`, threading every mutated variable, so
that a theorem `generated definition = hand-written model` is re-proved by `lake build` against what the source says
now.  Anything outside the supported fragment raises `TranslationError` (reported as a broken tie by the caller).

Types (declared per free variable by the caller): `arr` (List of records), `rec` (one record), `int`, `iarr` (List Nat:
an array of non-negative integers, e.g. index arrays).
Supported
  statements   `x = e`, `x[i] = e`, `x[a:b] = e` (x a name or `self.attr`), `return e`, doc strings
  expressions  names, `self.attr`, integer literals, `+ - *` on ints, unary `-`,
               `x["field"]` (record field / column of an array), `x[i]`, `x[a:b]` (step 1, bounds optional),
               `np.searchsorted(a, v)` and `np.searchsorted(a, v, side="left"|"right")`, `len(x)`, `x.size`, `x.copy()`,
               on index arrays: `np.searchsorted(ia, ib)` (element-wise), `np.insert(ia, positions, values)`
"""
import ast
import hashlib
import textwrap
from dataclasses import dataclass, field
from typing import Dict, List, Optional, Sequence, Tuple

from .py2lean import TranslationError, find_function


@dataclass
class ArrSpec:
    source: str                       # path relative to the repository root
    func: str
    name: str                         # Lean definition name
    cls: Optional[str] = None
    params: Sequence[Tuple[str, str, str]] = ()      # (python text, lean name, type in {arr, rec, int})
    record_type: str = "Pt"           # Lean type of a record
    field_types: Dict[str, str] = field(default_factory=dict)   # record field -> lean type (for documentation only)
    outputs: Sequence[str] = ()       # python texts of mutated variables returned next to the return value
    doc: str = ""


@dataclass
class ArrTranslated:
    spec: ArrSpec
    lean: str
    sha256: str
    first_line: int
    last_line: int
    source_text: str


class _Tx:
    def __init__(self, spec: ArrSpec):
        self.spec = spec
        self.types: Dict[str, str] = {p[0]: p[2] for p in spec.params}
        self.names: Dict[str, str] = {p[0]: p[1] for p in spec.params}
        self.lines: List[str] = []

    # ------------------------------------------------------------------ helpers
    def key(self, node) -> str:
        return ast.unparse(node)

    def lean_name(self, text: str) -> str:
        if text in self.names:
            return self.names[text]
        n = text.replace("self.", "self_").replace(".", "_")
        if not n.isidentifier():
            raise TranslationError(f"cannot name {text!r}")
        self.names[text] = n
        return n

    def typeof(self, node) -> str:
        k = self.key(node)
        if k in self.types:
            return self.types[k]
        if isinstance(node, ast.Constant) and isinstance(node.value, int) and not isinstance(node.value, bool):
            return "int"
        if isinstance(node, ast.BinOp) or isinstance(node, ast.UnaryOp):
            return "int"
        if isinstance(node, ast.Call):
            f = self.key(node.func)
            if f == "np.searchsorted" and len(node.args) >= 2 and self.types.get(self.key(node.args[0])) == "iarr":
                return "iarr" if self.typeof(node.args[1]) == "iarr" else "int"
            if f == "np.insert" and node.args and self.typeof(node.args[0]) == "iarr":
                return "iarr"
            if f in ("np.searchsorted", "len"):
                return "int"
            if f.endswith(".copy"):
                return self.typeof(node.func.value)
        if isinstance(node, ast.Attribute) and node.attr == "size":
            return "int"
        if isinstance(node, ast.Subscript):
            base = self.typeof(node.value)
            if isinstance(node.slice, ast.Constant) and isinstance(node.slice.value, str):
                return "col" if base == "arr" else "fieldval"
            if isinstance(node.slice, ast.Slice):
                return base
            if base == "arr":
                return "rec"
        raise TranslationError(f"cannot type {k!r}")

    # ------------------------------------------------------------------ expressions
    def int_expr(self, node) -> str:
        if isinstance(node, ast.Constant) and isinstance(node.value, int) and not isinstance(node.value, bool):
            return f"({node.value} : Int)"
        if isinstance(node, ast.UnaryOp) and isinstance(node.op, ast.USub):
            return f"(-{self.int_expr(node.operand)})"
        if isinstance(node, ast.BinOp) and isinstance(node.op, (ast.Add, ast.Sub, ast.Mult)):
            op = {ast.Add: "+", ast.Sub: "-", ast.Mult: "*"}[type(node.op)]
            return f"({self.int_expr(node.left)} {op} {self.int_expr(node.right)})"
        if isinstance(node, (ast.Name, ast.Attribute)) and self.types.get(self.key(node)) == "int":
            return self.lean_name(self.key(node))
        if isinstance(node, ast.Call) and self.key(node.func) == "np.searchsorted":
            side = "left"
            for kw in node.keywords:
                if kw.arg == "side" and isinstance(kw.value, ast.Constant) and kw.value.value in ("left", "right"):
                    side = kw.value.value
                else:
                    raise TranslationError(f"np.searchsorted keyword {ast.unparse(kw)!r}")
            if len(node.args) == 3 and isinstance(node.args[2], ast.Constant) and node.args[2].value in ("left", "right"):
                side = node.args[2].value
            elif len(node.args) != 2:
                raise TranslationError("np.searchsorted arity")
            a, v = node.args[0], node.args[1]
            if self.typeof(a) != "col" or self.typeof(v) != "fieldval":
                raise TranslationError("np.searchsorted(column, scalar field) expected")
            fn = "Np.ssl" if side == "left" else "Np.ssr"
            return f"(({fn} {self.col_expr(a)} {self.fieldval_expr(v)} : Nat) : Int)"
        if isinstance(node, ast.Call) and self.key(node.func) == "len" and len(node.args) == 1:
            return f"(({self.arr_expr(node.args[0])}).length : Int)"
        if isinstance(node, ast.Attribute) and node.attr == "size" and self.typeof(node.value) == "arr":
            return f"(({self.arr_expr(node.value)}).length : Int)"
        raise TranslationError(f"unsupported integer expression {self.key(node)!r}")

    def col_expr(self, node) -> str:
        if isinstance(node, ast.Name) and self.types.get(self.key(node)) == "col":
            return self.lean_name(self.key(node))
        if isinstance(node, ast.Subscript) and isinstance(node.slice, ast.Constant) and isinstance(node.slice.value, str):
            return f"(({self.arr_expr(node.value)}).map (·.{node.slice.value}))"
        raise TranslationError(f"unsupported column expression {self.key(node)!r}")

    def fieldval_expr(self, node) -> str:
        if isinstance(node, ast.Subscript) and isinstance(node.slice, ast.Constant) and isinstance(node.slice.value, str):
            return f"({self.rec_pure(node.value)}).{node.slice.value}"
        raise TranslationError(f"unsupported field expression {self.key(node)!r}")

    def rec_pure(self, node) -> str:
        if isinstance(node, (ast.Name, ast.Attribute)) and self.types.get(self.key(node)) == "rec":
            return self.lean_name(self.key(node))
        if isinstance(node, ast.Call) and self.key(node.func).endswith(".copy") and not node.args:
            return self.rec_pure(node.func.value)
        raise TranslationError(f"unsupported record expression {self.key(node)!r}")

    def bound(self, node) -> str:
        return "none" if node is None else f"(some {self.int_expr(node)})"

    def arr_expr(self, node) -> str:
        """pure array expression (slicing never fails)"""
        if isinstance(node, (ast.Name, ast.Attribute)) and self.types.get(self.key(node)) == "arr":
            return self.lean_name(self.key(node))
        if isinstance(node, ast.Call) and self.key(node.func).endswith(".copy") and not node.args:
            return self.arr_expr(node.func.value)
        if isinstance(node, ast.Subscript) and isinstance(node.slice, ast.Slice) and self.typeof(node.value) == "arr":
            sl = node.slice
            if sl.step is not None:
                raise TranslationError("slice step")
            return f"(Py.getSlice {self.arr_expr(node.value)} {self.bound(sl.lower)} {self.bound(sl.upper)})"
        raise TranslationError(f"unsupported array expression {self.key(node)!r}")

    def iarr_expr(self, node) -> str:
        if isinstance(node, (ast.Name, ast.Attribute)) and self.types.get(self.key(node)) == "iarr":
            return self.lean_name(self.key(node))
        if isinstance(node, ast.Call) and self.key(node.func) == "np.searchsorted" and len(node.args) == 2 and not node.keywords:
            a, b = node.args
            if self.typeof(a) == "iarr" and self.typeof(b) == "iarr":
                return f"(({self.iarr_expr(b)}).map (Np.ssl {self.iarr_expr(a)}))"
        if isinstance(node, ast.Call) and self.key(node.func) == "np.insert" and len(node.args) == 3 and not node.keywords:
            a, i, v = node.args
            if all(self.typeof(x) == "iarr" for x in (a, i, v)):
                return f"(Np.insertMany {self.iarr_expr(a)} {self.iarr_expr(i)} {self.iarr_expr(v)} 0)"
        raise TranslationError(f"unsupported index-array expression {self.key(node)!r}")

    def rec_expr(self, node) -> Tuple[str, bool]:
        """(lean term, monadic?)"""
        if isinstance(node, ast.Subscript) and not isinstance(node.slice, (ast.Slice, ast.Constant)) \
                and self.typeof(node.value) == "arr":
            return f"Py.getItem {self.arr_expr(node.value)} {self.int_expr(node.slice)}", True
        if isinstance(node, ast.Subscript) and isinstance(node.slice, ast.Constant) and isinstance(node.slice.value, int) \
                and self.typeof(node.value) == "arr":
            return f"Py.getItem {self.arr_expr(node.value)} {self.int_expr(node.slice)}", True
        return self.rec_pure(node), False

    # ------------------------------------------------------------------ statements
    def stmt(self, st, is_last: bool) -> None:
        if isinstance(st, ast.Expr) and isinstance(st.value, ast.Constant) and isinstance(st.value.value, str):
            return
        if isinstance(st, ast.Return):
            outs = [self.lean_name(o) for o in self.spec.outputs]
            if st.value is None:
                ret = None
            else:
                t = self.typeof(st.value)
                ret = self.int_expr(st.value) if t == "int" else self.arr_expr(st.value) if t == "arr" else self.rec_pure(st.value)
            parts = outs + ([ret] if ret is not None else [])
            self.lines.append("return " + (parts[0] if len(parts) == 1 else "(" + ", ".join(parts) + ")"))
            self.returned = True
            return
        if isinstance(st, ast.Assign) and len(st.targets) == 1:
            tgt = st.targets[0]
            if isinstance(tgt, (ast.Name, ast.Attribute)):
                k = self.key(tgt)
                t = self.typeof(st.value)
                if t == "int":
                    self.types[k] = "int"
                    self.lines.append(f"let {self.lean_name(k)} : Int := {self.int_expr(st.value)}")
                elif t == "arr":
                    rhs = self.arr_expr(st.value)
                    self.types[k] = "arr"
                    self.lines.append(f"let {self.lean_name(k)} := {rhs}")
                elif t == "iarr":
                    rhs = self.iarr_expr(st.value)
                    self.types[k] = "iarr"
                    self.lines.append(f"let {self.lean_name(k)} : List Nat := {rhs}")
                elif t == "col":
                    rhs = self.col_expr(st.value)
                    self.types[k] = "col"
                    self.lines.append(f"let {self.lean_name(k)} := {rhs}")
                elif t == "rec":
                    term, mon = self.rec_expr(st.value)
                    self.types[k] = "rec"
                    self.lines.append(f"let {self.lean_name(k)} {'←' if mon else ':='} {term}")
                else:
                    raise TranslationError(f"assignment of a {t} value")
                return
            if isinstance(tgt, ast.Subscript) and self.types.get(self.key(tgt.value)) == "arr":
                base = self.lean_name(self.key(tgt.value))
                if isinstance(tgt.slice, ast.Slice):
                    if tgt.slice.step is not None:
                        raise TranslationError("slice step")
                    if self.typeof(st.value) != "arr":
                        raise TranslationError("slice assignment of a non-array")
                    self.lines.append(f"let {base} ← Py.setSlice {base} {self.bound(tgt.slice.lower)} "
                                      f"{self.bound(tgt.slice.upper)} {self.arr_expr(st.value)}")
                    return
                if isinstance(tgt.slice, ast.Constant) and isinstance(tgt.slice.value, str):
                    raise TranslationError("column assignment")
                term, mon = self.rec_expr(st.value)
                if mon:
                    self.lines.append(f"let tmp_rec ← {term}")
                    term = "tmp_rec"
                self.lines.append(f"let {base} ← Py.setItem {base} {self.int_expr(tgt.slice)} {term}")
                return
        raise TranslationError(f"unsupported statement {ast.unparse(st).splitlines()[0]!r}")


def translate_arr(repo_root, spec: ArrSpec) -> ArrTranslated:
    from pathlib import Path
    text = (Path(repo_root) / spec.source).read_text()
    fn = find_function(ast.parse(text), spec.func, spec.cls)
    tx = _Tx(spec)
    tx.returned = False
    body = list(fn.body)
    for i, st in enumerate(body):
        if tx.returned:
            raise TranslationError("statement after return")
        tx.stmt(st, i == len(body) - 1)
    if not tx.returned:
        outs = [tx.lean_name(o) for o in spec.outputs]
        if not outs:
            raise TranslationError("function without result")
        tx.lines.append("return " + (outs[0] if len(outs) == 1 else "(" + ", ".join(outs) + ")"))
    seg = "\n".join(text.splitlines()[fn.lineno - 1:fn.end_lineno])
    sha = hashlib.sha256(seg.encode()).hexdigest()
    tmap = {"arr": f"List {spec.record_type}", "rec": spec.record_type, "int": "Int", "iarr": "List Nat"}
    params = " ".join(f"({ln} : {tmap[t]})" for _, ln, t in spec.params)
    head = (f"/-- {spec.doc or spec.func}\n"
            f"generated from `{spec.source}` ({(spec.cls + '.') if spec.cls else ''}{spec.func}, lines {fn.lineno}-{fn.end_lineno}, "
            f"sha256 {sha[:16]}) -/\n")
    lean = head + f"def {spec.name} {params} :=\n  show Except Py.Err _ from do\n" + textwrap.indent("\n".join(tx.lines), "    ") + "\n"
    return ArrTranslated(spec, lean, sha, fn.lineno, fn.end_lineno, seg)
