/-
C15 — stopping rule and idempotence: the hand-written part of the model (core Lean only).

* `Ext`      : rationals extended by ±∞ (the values `self.condition`, the INS criteria and the
               tolerances take: finite floats are dyadic rationals, `np.inf` is `pinf`); NaN is
               outside the model (see the MANIFEST note).
* `runLoop`  : the loop skeleton shared by both samplers
                   while W(s):            -- `W` false  → leave
                       if TOP(s): break
                       s = body(s)
                       if BOT(s): break
               The three guards `W`, `TOP`, `BOT` are NOT written here: they are generated from the
               Python source into `Gen/Loops.lean` on every run of the check.
* `finaliseLoop` : the `for i, p in enumerate(self.live_points)` loop of `NestedSampler.finalise`.
* the stopping criteria of the importance sampler in the linear domain (weights `w = L·W`, not logs),
  generic over the number type: executed at `Rat`, theorems for every ordered field.
-/
namespace NessaiVerif.Loops

/-! ### extended rationals -/

inductive Ext where
  | ninf
  | fin (q : Rat)
  | pinf
deriving DecidableEq, Repr, Inhabited

namespace Ext
def le : Ext → Ext → Bool
  | ninf, _ => true
  | _, pinf => true
  | fin a, fin b => decide (a ≤ b)
  | _, _ => false

instance : LE Ext := ⟨fun a b => le a b = true⟩
instance : LT Ext := ⟨fun a b => le b a = false⟩
instance : DecidableLE Ext := fun a b => inferInstanceAs (Decidable (le a b = true))
instance : DecidableLT Ext := fun a b => inferInstanceAs (Decidable (le b a = false))
end Ext

/-! ### iteration caps (`max_iteration`: an integer or `np.inf`) -/

inductive Cap where
  | inf
  | fin (m : Int)
deriving DecidableEq, Repr, Inhabited

namespace Cap
/-- `iteration >= max_iteration` -/
def ge (it : Int) : Cap → Bool | inf => false | fin m => decide (it ≥ m)
/-- `iteration > max_iteration` -/
def gt (it : Int) : Cap → Bool | inf => false | fin m => decide (it > m)
/-- `iteration <= max_iteration` -/
def le (it : Int) : Cap → Bool | inf => true | fin m => decide (it ≤ m)
/-- `iteration < max_iteration` -/
def lt (it : Int) : Cap → Bool | inf => true | fin m => decide (it < m)
/-- `iteration == max_iteration` -/
def eq (it : Int) : Cap → Bool | inf => false | fin m => decide (it = m)
/-- `iteration != max_iteration` -/
def ne (it : Int) : Cap → Bool | inf => true | fin m => decide (it ≠ m)
end Cap

/-! ### the part of the sampler states the stopping logic reads and writes -/

/-- `NestedSampler` -/
structure Std (K : Type) where
  finalised : Bool
  iteration : Int
  condition : K
  tolerance : K
  maxIteration : Cap
  nlive : Int
  /-- `self.live_points` (ids, sorted by likelihood); `none` after `finalise` -/
  live : Option (List Nat)
  nested : List Nat
  /-- the calls `state.increment(p, nlive=…)` made by `finalise` -/
  incs : List (Nat × Int)
  /-- number of `consume_sample` calls so far (all likelihood work happens there) -/
  bodies : Nat
  /-- scripted future values of `self.condition` (used by the driver's body only) -/
  traj : List K
deriving Repr

/-- `ImportanceNestedSampler` -/
structure Ins (K : Type) where
  finalised : Bool
  iteration : Int
  criterion : List K
  tolerance : List K
  stopAny : Bool
  minIteration : Int
  maxIteration : Cap
  live : Option (List Nat)
  nested : List Nat
  bodies : Nat
  traj : List (List K)
deriving Repr

/-! ### the loop skeleton -/

variable {σ : Type}

/-- `body` applied `k` times -/
def iter (body : σ → σ) : Nat → σ → σ
  | 0, s => s
  | k + 1, s => iter body k (body s)

/-- `while W: (if TOP: break); body; (if BOT: break)` with `fuel` = the number of body executions
we are prepared to follow.  Returns the number of body executions and the final state, or `none`
when the loop is still running after `fuel` bodies. -/
def runLoop (w top bot : σ → Bool) (body : σ → σ) : Nat → σ → Nat → Option (Nat × σ)
  | 0, s, k => if !w s || top s then some (k, s) else none
  | fuel + 1, s, k =>
    if !w s then some (k, s)
    else if top s then some (k, s)
    else
      let s' := body s
      if bot s' then some (k + 1, s') else runLoop w top bot body fuel s' (k + 1)

/-- "the loop leaves with exactly `j` bodies executed": after the `j`-th body either the bottom
test fires (only reachable when `j ≥ 1`) or the while/top test of the next pass does — both look at
the same state `body^j s`. -/
def stopAt (w top bot : σ → Bool) (body : σ → σ) (s : σ) (j : Nat) : Bool :=
  let sj := iter body j s
  (!w sj || top sj) || (decide (1 ≤ j) && bot sj)

/-! ### `NestedSampler.finalise` -/

structure FinAcc (α : Type) where
  incs : List (α × Int)      -- calls `state.increment(p["logL"], nlive=…)`
  nested : List α            -- `self.nested_samples`
deriving Repr, DecidableEq

/-- `for i, p in enumerate(live): state.increment(p, nlive = nl i); nested.append(p)`;
`nl` is the generated expression `self.nlive - i`. -/
def finaliseLoop {α : Type} (nl : Nat → Int) : List α → Nat → FinAcc α → FinAcc α
  | [], _, acc => acc
  | p :: ps, i, acc =>
    finaliseLoop nl ps (i + 1) { incs := acc.incs ++ [(p, nl i)], nested := acc.nested ++ [p] }

/-! ### `configure_stopping_criterion`: alias resolution (table generated) -/

/-- `for c in stopping_criterion: for criterion, aliases in table.items(): if c in aliases: append criterion` -/
def resolveNames (table : List (String × List String)) (names : List String) : List String :=
  names.flatMap fun c => (table.filter fun e => e.2.contains c).map (·.1)

/-- the same two loops nested the other way round (`for criterion, aliases in table.items(): for c in names`):
the result comes out in alias-TABLE order, not in the user's order -/
def resolveNamesTableMajor (table : List (String × List String)) (names : List String) : List String :=
  table.flatMap fun e => (names.filter fun c => e.2.contains c).map (fun _ => e.1)

/-- the canonical criterion a name stands for: the key of the first alias list containing it -/
def canonOf (table : List (String × List String)) (c : String) : Option String :=
  (table.find? fun e => e.2.contains c).map (·.1)

def allAliases (table : List (String × List String)) : List String := table.flatMap (·.2)

inductive CfgErr | unknownCriterion | lengthMismatch | badCheck
deriving DecidableEq, Repr

/-! ### stopping criteria, linear domain -/

section crit
variable {K : Type} [Add K] [Sub K] [Mul K] [Div K] [OfNat K 0] [OfNat K 1] [NatCast K]

def sumK : List K → K
  | [] => 0
  | x :: xs => x + sumK xs

/-- `exp(state.logZ)`: the evidence estimate is the mean weight, `logsumexp(w) - log n` -/
def evidence (ws : List K) : K := sumK ws / (ws.length : K)

/-- `effective_n_posterior_samples` as the code computes it: posterior weights `p = w / Ẑ`,
normalised `p̂ = p / Σp`, `1 / Σ p̂²` -/
def essCode (ws : List K) : K :=
  let z := evidence ws
  let p := ws.map (· / z)
  let sp := sumK p
  let ph := p.map (· / sp)
  1 / sumK (ph.map fun x => x * x)

/-- Kish's effective sample size `(Σw)² / Σw²` -/
def essKish (ws : List K) : K := (sumK ws * sumK ws) / sumK (ws.map fun w => w * w)

/-- `exp(ratio)`: `OrderedSamples.compute_evidence_ratio` = log of (mean weight of the samples with
`logL ≥ threshold`) minus `logZ` of all samples — note the mean is over the samples above only -/
def ratioLin (above all : List K) : K := evidence above / evidence all

/-- `exp(ratio_ns)`: `log_evidence_live_points - log_evidence_nested_samples` -/
def ratioNsLin (live nested : List K) : K := evidence live / evidence nested

/-- `Σ (w - Ẑ)² / (n (n-1))`: the squared standard error `u²` of `compute_uncertainty` -/
def errSq (ws : List K) : K :=
  let m := evidence ws
  sumK (ws.map fun w => (w - m) * (w - m)) / ((ws.length : K) * ((ws.length : K) - 1))

/-- `(u / Ẑ)²`: square of `log_evidence_error` (= `fractional_error`; `Z_err = exp` of its root) -/
def relErrSq (ws : List K) : K :=
  let z := evidence ws
  errSq ws / (z * z)

end crit

end NessaiVerif.Loops
