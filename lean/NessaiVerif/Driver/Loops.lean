import NessaiVerif.Model.LoopsRun
import NessaiVerif.Driver.Parse
/-
C15 line protocol (first token `loop` already consumed by the dispatcher).
Extended rationals: `inf`, `-inf`, `p/q`, `p`.  Caps: `inf` or an integer.  Lists `[a,b,c]`.

  std <finalised> <iteration> <cond> <tol> <cap> <nlive> <live|none> <nested> <traj>
      NestedSampler.nested_sampling_loop on a scripted trajectory, then a SECOND call on the result
      → `k=<bodies of call 1> it= fin= cond= live= nested= incs= k2=<bodies of call 2> same=<call 2 changed nothing>`
        or `running` (trajectory exhausted while the loop continues)
  ins <finalised> <iteration> <crit> <tol> <any> <min> <cap> <live|none> <nested> <traj>
      the same for ImportanceNestedSampler
  reached <any> <crit> <tol>
  cfg <names> <nTol> <check>          configure_stopping_criterion
  cfgit <min|none> <max|none>         configure_iterations;   cfgmax <max|none>  configure_max_iteration
  crit <weights> <aboveMask> <liveMask>   exact criteria (linear domain)
-/
namespace NessaiVerif.Driver.Loops
open NessaiVerif NessaiVerif.Parse NessaiVerif.Loops NessaiVerif.Gen.Loops

def parseExt? (s : String) : Option Ext :=
  if s == "inf" then some .pinf else if s == "-inf" then some .ninf else (parseRat? s).map .fin
def showExt : Ext → String
  | .pinf => "inf" | .ninf => "-inf" | .fin q => showRat q
def parseCap? (s : String) : Option Cap :=
  if s == "inf" then some .inf else (parseInt? s).map .fin
def showCap : Cap → String
  | .inf => "inf" | .fin m => toString m

def showStd (s : Std Ext) : String :=
  s!"it={s.iteration} fin={showBool s.finalised} cond={showExt s.condition} live={showOpt (showList toString) s.live} " ++
  s!"nested={showList toString s.nested} incs={showList (fun q => s!"{q.1}:{q.2}") s.incs}"

def sameStd (a b : Std Ext) : Bool :=
  a.finalised == b.finalised && a.iteration == b.iteration && a.condition == b.condition && a.live == b.live &&
  a.nested == b.nested && a.incs == b.incs && a.bodies == b.bodies

def showIns (s : Ins Ext) : String :=
  s!"it={s.iteration} fin={showBool s.finalised} crit={showList showExt s.criterion} " ++
  s!"live={showOpt (showList toString) s.live} nested={showList toString s.nested}"

def sameIns (a b : Ins Ext) : Bool :=
  a.finalised == b.finalised && a.iteration == b.iteration && a.criterion == b.criterion && a.live == b.live &&
  a.nested == b.nested && a.bodies == b.bodies

def critLine (ws : List Rat) (above live : List Bool) : String :=
  let pick (m : List Bool) (b : Bool) := (ws.zip m).filterMap fun p => if p.2 == b then some p.1 else none
  let ab := pick above true
  let lp := pick live true
  let ns := pick live false
  s!"Z={showRat (evidence ws)} ess={showRat (essCode ws)} kish={showRat (essKish ws)} " ++
  s!"ratio={showRat (ratioLin ab ws)} ratio_ns={showRat (ratioNsLin lp ns)} err2={showRat (errSq ws)} rel2={showRat (relErrSq ws)}"

def handle (toks : List String) : String :=
  match toks with
  | ["std", f, it, c, t, cap, nl, live, nested, traj] =>
    match parseBool? f, parseInt? it, parseExt? c, parseExt? t, parseCap? cap, parseInt? nl,
          parseOpt? (parseList? parseNat?) live, parseList? parseNat? nested, parseList? parseExt? traj with
    | some f, some it, some c, some t, some cap, some nl, some live, some nested, some traj =>
      let s : Std Ext := {
        finalised := f, iteration := it, condition := c, tolerance := t, maxIteration := cap,
                           nlive := nl, live := live, nested := nested, incs := [], bodies := 0, traj := traj }
      match stdRun stdScriptBody traj.length s with
      | none => "running"
      | some (k, s1) =>
        match stdRun stdScriptBody s1.traj.length s1 with
        | none => s!"k={k} {showStd s1} k2=running"
        | some (k2, s2) => s!"k={k} {showStd s1} k2={k2} same={showBool (sameStd s1 s2)}"
    | _, _, _, _, _, _, _, _, _ => "bad-op"
  | ["ins", f, it, c, t, any, mn, cap, live, nested, traj] =>
    match parseBool? f, parseInt? it, parseList? parseExt? c, parseList? parseExt? t, parseBool? any, parseInt? mn,
          parseCap? cap, parseOpt? (parseList? parseNat?) live, parseList? parseNat? nested,
          parseList? (parseList? parseExt?) traj with
    | some f, some it, some c, some t, some any, some mn, some cap, some live, some nested, some traj =>
      let s : Ins Ext := {
        finalised := f, iteration := it, criterion := c, tolerance := t, stopAny := any,
                           minIteration := mn, maxIteration := cap, live := live, nested := nested, bodies := 0, traj := traj }
      match insRun insScriptBody traj.length s with
      | none => "running"
      | some (k, s1) =>
        match insRun insScriptBody s1.traj.length s1 with
        | none => s!"k={k} {showIns s1} k2=running"
        | some (k2, s2) => s!"k={k} {showIns s1} k2={k2} same={showBool (sameIns s1 s2)}"
    | _, _, _, _, _, _, _, _, _, _ => "bad-op"
  | ["reached", any, c, t] =>
    match parseBool? any, parseList? parseExt? c, parseList? parseExt? t with
    | some any, some c, some t =>
      showBool (reached ({
        finalised := false, iteration := 0, criterion := c, tolerance := t, stopAny := any,
        minIteration := 0, maxIteration := .inf, live := none, nested := [], bodies := 0, traj := [] } : Ins Ext))
    | _, _, _ => "bad-op"
  | ["cfg", names, n, check] =>
    match parseList? (fun s => some s) names, parseNat? n with
    | some names, some n =>
      match configureStopping names n check with
      | .ok (sc, any) => s!"ok {showList id sc} any={showBool any}"
      | .error .unknownCriterion => "err=unknown"
      | .error .lengthMismatch => "err=length"
      | .error .badCheck => "err=check"
    | _, _ => "bad-op"
  | ["cfgit", mn, mx] =>
    match parseOpt? parseInt? mn, parseOpt? parseInt? mx with
    | some mn, some mx => s!"min={cfgMinIteration mn} max={showCap (cfgMaxIteration mx)}"
    | _, _ => "bad-op"
  | ["cfgmax", mx] =>
    match parseOpt? parseInt? mx with
    | some mx => s!"max={showCap (stdCfgMaxIteration mx)}"
    | _ => "bad-op"
  | ["crit", ws, above, live] =>
    match parseList? parseRat? ws, parseList? parseBool? above, parseList? parseBool? live with
    | some ws, some above, some live =>
      if above.length != ws.length || live.length != ws.length then "bad-op" else critLine ws above live
    | _, _, _ => "bad-op"
  | _ => "bad-op"

end NessaiVerif.Driver.Loops
